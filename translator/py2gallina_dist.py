#!/usr/bin/env python3
"""py2gallina_dist.py -- regenerate the Gallina text of the distribution models from the source.

Reads  $VERIF_REPO/src/pydsol/core/distributions.py  (default /repo) with Python's `ast`
module -- the module under test is never imported; CRLF line ends are normalised -- and
translates, for each of the 19 concrete distribution classes, the constructor (validation
with its exception kinds, derived fields, inner DistGamma instances; the chain
super().__init__ -> Distribution.__init__ -> self._set_stream resolved on the concrete
class), `draw` (with the helper methods it calls) and the declared density functions
(`probability_density`, `probability`, `cumulative_probability`,
`inverse_cumulative_probability`) into Gallina definitions  gen_<Class>_<method>  over the
same records (`dist`, `param`, `value`), the same arithmetic record `num` with its libm
oracle fields and the same stream-consumption monad `M` that the hand-written models
coq/Dist/Draw.v and coq/Dist/Density.v use.  coq/Dist/GenAgree.v then proves
gen_<Class>_<method> equal to the hand-written model function.

The translation is a shallow embedding and FAIL-CLOSED: a construct that is not in the
subset below ends the run with exit status 2 and `file:line: unsupported construct: ...`.
Nothing is skipped or guessed.

Supported subset (anything else fails)
  statements   docstring; `name = e`, `name: T = e`, `name op= e`, `self._x = e` (op in + - *);
               `if / elif / else`; `raise <Exc>(f"..")`; `return e`; `pass`; `break`; `continue`;
               `try: .. except <Exc>: ..` with one handler, both blocks returning on every path, in a
               method that neither consumes stream output nor touches mutable attributes;
               `logger.<m>("text")` (no effect); the calls `super().__init__(..)`,
               `self._set_stream(..)`, `super()._set_stream(..)` as statements (inlined);
               `for _ in range(e)`; `while` in three shapes (below)
  expressions  int / float / bool / None literals; parameters, locals, `self._x`, properties
               `self.x` that return `self._x`, class constants `self.NAME`; `math.e`, `math.pi`;
               unary -; `+ - * / **`; comparisons (also chained), `and`, `or`, `not`;
               `float(e)`, `isinstance(p, T)`, `math.log/exp/sqrt/pow/floor/erf/gamma/lgamma/
               isinf/factorial/comb`, `erf_inv(e)`, `beta(a, b)` (pydsol.core.utils);
               `self._stream.next_float()`, `self._stream.next_int(a, b)`,
               `self.m(..)` / `super().m(..)` of a translated method, `DistGamma(stream, a, b)`,
               `<inner gamma>.draw()`; conditional expressions `a if c else b`; string literals /
               f-strings only as arguments handed on to a helper's exception message;
               calls of PRIVATE HELPERS -- any other method of the class chain (also a @staticmethod) and
               any module-level function: the helper's body is translated at the call site
Meaning given to them
  * evaluation order is Python's: every operation that can raise or that consumes stream output
    (`/`, `**`, every math.* function, erf_inv, beta, next_float, calls) becomes a monadic bind in
    program order; `+ - *`, unary -, comparisons are pure terms of the `num` record;
  * constructors run in the exception monad `res`, draw methods in `M` (state = the stream output
    not yet consumed), the methods of DistNormal / DistLogNormal that touch the cached gaussian in
    `M` with the two attributes `_have_saved_gaussian`, `_saved_gaussian` passed explicitly and
    returned ALSO when an exception is raised; densities in `res`;
  * the value of math.comb / math.factorial is an unbounded int: where it meets a float in + - * / it is
    converted by `ofZc` (OverflowError beyond the double range, as CPython's int -> float does);
  * a float literal c is `ofZ c` when integral, else `ofD m e` with c = m * 2^e, m odd; a negative
    literal is the negation of the positive one; an int meets a float as `ofZ i`;
  * a constructor parameter ranges over the model's universe `param` (float, int, anything else):
    `isinstance` tests are decided on it, comparisons are `p_lt / p_le / p_eq` of Dist/Draw.v, it
    is used as a number (`p_float`, `p_int`) only where the guards in front established that it
    is one; an int stored in a float-typed field of the model record is converted;
  * `while` loops become recursion on explicit fuel exactly as in the hand-written model:
      - `c = 0; while c < K: ...; c += 1`  (c not used otherwise): recursion on the counter K;
      - `for _ in range(e)`: recursion on Z.to_nat e;
      - any other `while` whose body consumes at least one stream value per iteration: fuel is
        one more than the length of the recorded stream output (it cannot run out before the
        stream does); a test that is statically true on entry (`while True`, `s = 1.0; while
        s >= 1.0 ..`) gives the do-while form;  `break` leaves the loop, `return` the method;
      the statements after the loop are part of the recursive definition;
  * the shape of the control flow does not matter: statements are translated in continuation-passing style, so
    a guard clause with an early return and the nested if / else give the same text, `elif` after a returning
    branch equals `if`, `continue` is the jump to the next iteration (in the do-while form: to the test), a
    conditional expression is the if / else on its test (only the chosen operand is evaluated); a local bound to
    a pure expression is a `let`;
  * a private helper is inlined: its parameters are bound to the argument VALUES (arguments are evaluated left to
    right before the body, as in Python), every `return e` hands e to the rest of the caller, falling off the
    end hands None; isinstance facts established inside the helper about an argument hold after the call.
    Only the methods named in KEPT become definitions of their own (coq/Dist/GenAgree.v has a theorem about
    each).  Refused (file:line): a helper that is recursive, has *args / **kwargs / keyword-only parameters, a
    decorator other than @staticmethod, a non-literal default that is needed, a module-level helper that uses
    `self`; helper nesting deeper than 12;
  * `self.m()` / `super().m()` are resolved statically along the single-inheritance chain of the
    concrete class; a base-class method is reused for a subclass only if every method it calls
    resolves to the same definition for both.

Trusted (joins the trusted base of C14 / C15): this file -- the subset semantics above -- and the
tables SCHEMA / PARAMS that say which record field stands for which attribute and which value
universe a parameter ranges over; pydsol.core.utils.beta / erf_inv and MersenneTwister.next_int
enter as the hand-written `beta_fn`, `nerfinv`, `next_int`.

usage: py2gallina_dist.py [--out DIR [--keep-going]]
       default DIR: <verif>/coq/Dist, file Gen_Dist.v; with --out also Gen_Dist.json (methods,
       source line ranges, hashes, failures).  --keep-going (checks only): a class (or method group)
       with an unsupported construct -- and whatever is built on it -- is left out and named in
       Gen_Dist.json; the exit status is non-zero all the same.
"""
from __future__ import annotations

import ast
import hashlib
import json
import os
import re
import sys
import warnings
from pathlib import Path

VERIF = Path(__file__).resolve().parent.parent
REPO = Path(os.environ.get("VERIF_REPO", "/repo"))
SRC = REPO / "src" / "pydsol" / "core" / "distributions.py"

EXN = {"ValueError": "EValue", "ZeroDivisionError": "EZeroDiv", "OverflowError": "EOverflow", "TypeError": "EType"}

# attribute -> type of the model's record field: F float, Z int, V `value` (float or int), G inner
# DistGamma (its two parameters), OG an inner DistGamma or None, B bool
MUT = [("_have_saved_gaussian", "B"), ("_saved_gaussian", "F")]
SCHEMA = {
    "DistBernoulli": {"ctor": "DBernoulli", "fields": [("_p", "F")]},
    "DistBeta": {"ctor": "DBeta", "fields": [("_alpha1", "F"), ("_alpha2", "F"), ("_dist1", "G"), ("_dist2", "G")]},
    "DistBinomial": {"ctor": "DBinomial", "fields": [("_n", "Z"), ("_p", "F")]},
    "DistConstant": {"ctor": "DConstant", "fields": [("_constant", "V")]},
    "DistDiscreteUniform": {"ctor": "DDiscreteUniform", "fields": [("_lo", "Z"), ("_hi", "Z")]},
    "DistErlang": {"ctor": "DErlang", "fields": [("_scale", "F"), ("_k", "Z"), ("_lambda", "F"), ("_dist_gamma", "OG")]},
    "DistExponential": {"ctor": "DExponential", "fields": [("_mean", "F")]},
    "DistGamma": {"ctor": "DGamma", "fields": [("_shape", "F"), ("_scale", "F")]},
    "DistGeometric": {"ctor": "DGeometric", "fields": [("_p", "F"), ("_lnp", "F")]},
    "DistLogNormal": {"ctor": "DLogNormal", "fields": [("_mu", "F"), ("_sigma", "F"), ("_c2sigma2", "F"), ("_c2pisigma2", "F")],
                      "mutable": MUT},
    "DistNegBinomial": {"ctor": "DNegBinomial", "fields": [("_s", "Z"), ("_p", "F"), ("_lnp", "F")]},
    "DistNormal": {"ctor": "DNormal", "fields": [("_mu", "F"), ("_sigma", "F")], "mutable": MUT},
    "DistNormalTrunc": {"ctor": "DNormalTrunc", "fields": [("_mu", "F"), ("_sigma", "F"), ("_lo", "F"), ("_hi", "F"),
                                                            ("_cum_prob_lo", "F"), ("_cum_prob_diff", "F"), ("_prob_dens_factor", "F")]},
    "DistPearson5": {"ctor": "DPearson5", "fields": [("_alpha", "F"), ("_beta", "F"), ("_dist", "G")]},
    "DistPearson6": {"ctor": "DPearson6", "fields": [("_alpha1", "F"), ("_alpha2", "F"), ("_beta", "F"), ("_dist1", "G"), ("_dist2", "G")]},
    "DistPoisson": {"ctor": "DPoisson", "fields": [("_rate", "F"), ("_expl", "F")]},
    "DistTriangular": {"ctor": "DTriangular", "fields": [("_lo", "F"), ("_mode", "F"), ("_hi", "F")]},
    "DistUniform": {"ctor": "DUniform", "fields": [("_lo", "F"), ("_hi", "F")]},
    "DistWeibull": {"ctor": "DWeibull", "fields": [("_alpha", "F"), ("_beta", "F")]},
}
# order in which the classes are translated (what a class is built on comes first)
ORDER = ["DistGamma", "DistBernoulli", "DistBinomial", "DistConstant", "DistDiscreteUniform", "DistExponential",
         "DistGeometric", "DistNegBinomial", "DistPoisson", "DistTriangular", "DistUniform", "DistWeibull",
         "DistErlang", "DistBeta", "DistPearson5", "DistPearson6", "DistNormal", "DistLogNormal", "DistNormalTrunc"]
BUILT_ON = {"DistErlang": ["DistGamma"], "DistBeta": ["DistGamma"], "DistPearson5": ["DistGamma"],
            "DistPearson6": ["DistGamma"], "DistLogNormal": ["DistNormal"]}
DISCRETE = ("DistBernoulli", "DistBinomial", "DistDiscreteUniform", "DistGeometric", "DistNegBinomial", "DistPoisson")
CDF_CLASSES = ("DistNormal", "DistLogNormal", "DistNormalTrunc")
# entry methods: their generated definitions take ALL record fields of the class
API = ("draw", "probability_density", "probability", "cumulative_probability", "inverse_cumulative_probability")
# methods that become definitions of their own (coq/Dist/GenAgree.v has a theorem about each); every OTHER method or
# module-level function that is called is a private helper and is translated at the call site (inlined)
KEPT = set(API) | {"_next_open_float", "_next_gaussian", "cumulative_probability_not_truncated",
                   "inverse_cumulative_probability_not_truncated", "_draw_product"}
# groups: "draw" = constructor + draw (C14), "density" = density functions (C15)


def groups_of(cname):
    dens = ["probability"] if cname in DISCRETE else ["probability_density"]
    if cname in CDF_CLASSES:
        dens += ["cumulative_probability", "inverse_cumulative_probability"]
    return {"draw": ["__init__", "draw"], "density": dens}


# value universe of the parameters of the non-constructor methods (constructor parameters: P)
PARAMS = {"x": "F", "y": "F", "observation": "Z", "expl": "F"}
GTYPE = {"F": "F", "Z": "Z", "B": "bool", "V": "value F", "G": "(F * F)", "OG": "option (F * F)", "P": "param F"}
BUILTINS_USED = ("float", "isinstance", "int", "super", "range", "abs", "DistGamma")

PRELUDE = r"""
(* ---- fixed prelude: Python primitives on the value universe of the models ---- *)
Section GenPrelude.
  Variable N : num.
  Notation F := (T N).
  (* a constructor argument that is an int or a float, as the Python object the instance keeps *)
  Definition py_value (p : param F) : value F :=
    match p with PI z => VI z | _ => VF (p_float N p) end.
  (* an instance of DistGamma held in an attribute is represented by its two parameters *)
  Definition gamma_of (d : dist F) : res (F * F) :=
    match d with DGamma a b => Val (a, b) | _ => Err Unmodelled end.
  (* fuel of a stream-driven loop: one more than the recorded stream output not yet consumed *)
  Definition with_fuel {R : Type} (f : nat -> list F -> R) : list F -> R :=
    fun us => f (S (length us)) us.
  (* methods that touch mutable attributes: the attribute values [st] are returned also with an exception *)
  Definition MS (S A : Type) : Type := list F -> res A * S * list F.
  Definition bindMS {S A B : Type} (st : S) (m : M F A) (f : A -> MS S B) : MS S B :=
    fun us => match m us with
              | (Val a, r) => f a r
              | (Err e, r) => (Err e, st, r)
              end.
  Definition bindSS {S A B : Type} (m : MS S A) (f : A -> S -> MS S B) : MS S B :=
    fun us => match m us with
              | (Val a, st, r) => f a st r
              | (Err e, st, r) => (Err e, st, r)
              end.
  Definition retS {S A : Type} (st : S) (a : A) : MS S A := fun us => (Val a, st, us).
  Definition failS {S A : Type} (st : S) (e : err) : MS S A := fun us => (Err e, st, us).
End GenPrelude.
Arguments MS {N} S A.
Arguments py_value {N} p.
Arguments gamma_of {N} d.
Arguments with_fuel {N R} f us.
Arguments bindMS {N S A B} st m f us.
Arguments bindSS {N S A B} m f us.
Arguments retS {N S A} st a us.
Arguments failS {N S A} st e us.
"""


class Unsupported(Exception):
    def __init__(self, node, what):
        self.lineno = getattr(node, "lineno", 0) or 0
        self.what = what
        super().__init__(f"{SRC}:{self.lineno}: unsupported construct: {what}")


class NotSimple(Exception):
    pass


class V:
    """a translated value: type tag, Gallina text (atomic or parenthesised) or a Python constant"""
    __slots__ = ("ty", "tx", "const", "big")

    def __init__(self, ty, tx=None, const=None, big=False):
        # big: an int without a bound (math.comb / math.factorial and sums / products of them); where it meets a
        # float CPython converts it with a range check (OverflowError), see `float_of`
        self.ty, self.tx, self.const, self.big = ty, tx, const, big

    def key(self):
        return (self.ty, self.tx, repr(self.const))


def ind(text: str, n: int = 2) -> str:
    pad = " " * n
    return "\n".join(pad + l if l else l for l in text.split("\n"))


def paren(t: str) -> str:
    s = t.strip()
    if re.fullmatch(r"[A-Za-z_][A-Za-z0-9_']*", s) or (s.startswith("(") and s.endswith(")") and _balanced(s)):
        return s
    return "(" + s + ")"


def _balanced(s: str) -> bool:
    d = 0
    for i, c in enumerate(s):
        if c == "(":
            d += 1
        elif c == ")":
            d -= 1
            if d == 0 and i != len(s) - 1:
                return False
    return d == 0


def blockp(t: str) -> str:
    s = t.strip()
    if "\n" in s or " " in s:
        return "(" + s + ")"
    return s


class Impure(Exception):
    """raised inside pure_expr when the expression needs a bind"""


class Env:
    def __init__(self):
        self.fields = {}        # attr -> V   (record fields; constructor: assigned so far)
        self.mut = {}           # attr -> V   (mutable attributes, current value)
        self.locals = {}        # name -> V
        self.facts = frozenset()
        self.stream = None      # V("Stream", ..) once self._stream is assigned (constructor)

    def clone(self):
        e = Env()
        e.fields, e.mut, e.locals = dict(self.fields), dict(self.mut), dict(self.locals)
        e.facts, e.stream = self.facts, self.stream
        return e

    def plus(self, facts):
        if not facts:
            return self
        e = self.clone()
        e.facts = self.facts | frozenset(facts)
        return e


class Ctx:
    def __init__(self, cls, defcls, mname, node, mode, kind):
        self.cls, self.defcls, self.mname, self.node, self.mode, self.kind = cls, defcls, mname, node, mode, kind
        self.counter = {}
        self.ret = set()
        self.calls = []         # (method name, defining class it resolved to)
        self.loops = []         # recursive definitions emitted for this method
        self.nloops = 0
        self.defstack = [defcls]   # class whose method body is being read (for super())
        self.retk = []          # continuations of inlined methods
        self.inlining = []      # (class, method) being inlined

    def fresh(self, stem):
        stem = "".join(c if c.isalnum() or c == "_" else "_" for c in stem).strip("_") or "t"
        if stem[0].isdigit():
            stem = "t" + stem
        self.counter[stem] = self.counter.get(stem, 0) + 1
        return f"{stem}_{self.counter[stem]}"


class Translator:
    def __init__(self, text: str):
        with warnings.catch_warnings():
            warnings.simplefilter("ignore")
            self.tree = ast.parse(text)
        self.lines = text.split("\n")
        self.classes = {}
        self.defs = []          # emitted definitions, dependency order
        self.sigs = {}          # (defcls, method) -> signature dict
        self.stack = []
        self.pure_depth = 0
        self.ctx = None
        self.translated = []    # evidence records
        self.loopstack = []
        self.module_checks()

    # ------------------------------------------------------------------ module level
    def fail(self, node, what):
        raise Unsupported(node, what)

    def module_checks(self):
        self.has_math = False
        self.utils = set()
        self.has_stream_iface = False
        self.has_logger = False
        self.funcs = {}         # module-level functions (private helpers: translated at the call site)
        for st in self.tree.body:
            names = []
            if isinstance(st, ast.Import):
                for a in st.names:
                    bound = a.asname or a.name.split(".")[0]
                    names.append(bound)
                    if a.name == "math" and a.asname is None:
                        self.has_math = True
                    elif bound == "math":
                        self.fail(st, "the name `math` is bound to something else than the math module")
            elif isinstance(st, ast.ImportFrom):
                for a in st.names:
                    bound = a.asname or a.name
                    names.append(bound)
                    if a.name == "*":
                        self.fail(st, "star import (could rebind math / builtins)")
                    if bound in ("beta", "erf_inv"):
                        if st.module == "pydsol.core.utils" and a.name == bound:
                            self.utils.add(bound)
                        else:
                            self.fail(st, f"the name `{bound}` is not pydsol.core.utils.{bound}")
                    elif bound == "StreamInterface":
                        if st.module == "pydsol.core.streams" and a.name == bound:
                            self.has_stream_iface = True
                        else:
                            self.fail(st, "the name `StreamInterface` is not pydsol.core.streams.StreamInterface")
                    elif bound == "math":
                        self.fail(st, "the name `math` is bound to something else than the math module")
            elif isinstance(st, (ast.FunctionDef, ast.AsyncFunctionDef, ast.ClassDef)):
                names.append(st.name)
                if isinstance(st, ast.ClassDef):
                    if st.name in self.classes:
                        self.fail(st, f"class {st.name} defined twice")
                    self.classes[st.name] = st
                elif isinstance(st, ast.FunctionDef):
                    if st.name in self.funcs:
                        self.fail(st, f"function {st.name} defined twice")
                    self.funcs[st.name] = st
                else:
                    self.fail(st, "async function")
            elif isinstance(st, (ast.Assign, ast.AnnAssign, ast.AugAssign)):
                tg = st.targets if isinstance(st, ast.Assign) else [st.target]
                for t in tg:
                    for n in ast.walk(t):
                        if isinstance(n, ast.Name):
                            names.append(n.id)
                if isinstance(st, ast.Assign) and len(tg) == 1 and isinstance(tg[0], ast.Name) and tg[0].id == "logger":
                    self.has_logger = True
            elif isinstance(st, ast.Expr) and isinstance(st.value, ast.Constant):
                pass
            else:
                self.fail(st, f"module-level statement {type(st).__name__}")
            for n in names:
                if n in BUILTINS_USED and not (isinstance(st, ast.ClassDef) and n == "DistGamma"):
                    self.fail(st, f"module rebinds the name `{n}`")
                if n in ("math", "beta", "erf_inv", "StreamInterface") and not isinstance(st, (ast.Import, ast.ImportFrom)):
                    self.fail(st, f"module rebinds the name `{n}`")
                if n == "logger" and not isinstance(st, ast.Assign):
                    self.fail(st, "module rebinds the name `logger`")

    # ------------------------------------------------------------------ classes, resolution
    def mro(self, cname):
        out = []
        c = cname
        while c in self.classes:
            if c in out:
                self.fail(self.classes[c], f"inheritance cycle at {c}")
            out.append(c)
            node = self.classes[c]
            if node.keywords or node.decorator_list:
                self.fail(node, f"class {c} with keywords / decorators")
            bases = [ast.unparse(b) for b in node.bases]
            if len(bases) != 1:
                self.fail(node, f"class {c} has bases {bases}; single inheritance is modelled")
            c = bases[0]
        if c != "ABC":
            self.fail(self.classes[out[-1]], f"base class `{c}` is not defined in the module")
        return out

    def class_checks(self, cname):
        if cname not in self.classes:
            raise Unsupported(self.tree, f"class {cname} not found")
        m = self.mro(cname)
        if m[-1] != "Distribution":
            self.fail(self.classes[cname], f"class {cname} does not derive from Distribution")
        for c in m:
            for st in self.classes[c].body:
                if isinstance(st, (ast.FunctionDef, ast.AsyncFunctionDef)) and st.name in ("__getattr__", "__getattribute__", "__setattr__", "__new__", "__init_subclass__"):
                    self.fail(st, f"{c}.{st.name} (attribute access is assumed to be plain)")

    def find_in(self, cname, mname):
        """the FunctionDef of mname in the body of class cname, or None"""
        c = self.classes[cname]
        found = [f for f in c.body if isinstance(f, (ast.FunctionDef, ast.AsyncFunctionDef)) and f.name == mname]
        plain = [f for f in found if not any(isinstance(d, ast.Attribute) and d.attr == "setter" for d in f.decorator_list)]
        if len(plain) > 1:
            self.fail(plain[1], f"{cname}.{mname} defined twice")
        if not plain:
            for st in c.body:
                if isinstance(st, (ast.Assign, ast.AnnAssign)):
                    tg = st.targets if isinstance(st, ast.Assign) else [st.target]
                    if any(isinstance(n, ast.Name) and n.id == mname for t in tg for n in ast.walk(t)):
                        return st
            return None
        f = plain[0]
        if isinstance(f, ast.AsyncFunctionDef):
            self.fail(f, "async method")
        return f

    def resolve(self, cname, mname, after=None):
        """(defining class, node) of attribute mname looked up on an instance of cname
        (after=D: lookup of super() inside a method of D)"""
        chain = self.mro(cname)
        if after is not None:
            if after not in chain:
                self.fail(self.classes[cname], f"super() in {after}, which is not a base of {cname}")
            chain = chain[chain.index(after) + 1:]
        for c in chain:
            f = self.find_in(c, mname)
            if f is not None:
                return c, f
        return None, None

    def is_property(self, f):
        return isinstance(f, ast.FunctionDef) and any(isinstance(d, ast.Name) and d.id == "property" for d in f.decorator_list)

    def body_of(self, f):
        body = list(f.body)
        if body and isinstance(body[0], ast.Expr) and isinstance(body[0].value, ast.Constant) and isinstance(body[0].value.value, str):
            body = body[1:]
        return body

    def property_attr(self, cname, name, node):
        """self.<name> where <name> is a property `return self._x`: the attribute _x"""
        d, f = self.resolve(cname, name)
        if f is None or not self.is_property(f):
            self.fail(node, f"attribute self.{name} (not a field of the model record and not a property)")
        if len(f.decorator_list) != 1:
            self.fail(f, f"property {name} with further decorators")
        body = self.body_of(f)
        if len(body) == 1 and isinstance(body[0], ast.Return) and isinstance(body[0].value, ast.Attribute) \
                and isinstance(body[0].value.value, ast.Name) and body[0].value.value.id == "self":
            return body[0].value.attr
        self.fail(f, f"property {name} is not `return self._x`")

    def class_const(self, cname, name):
        d, st = self.resolve(cname, name)
        if isinstance(st, ast.Assign) and len(st.targets) == 1 and isinstance(st.value, ast.Constant) \
                and type(st.value.value) in (int, float):
            return st.value.value
        return None

    # ---- schema helpers
    def schema_fields(self, cname):
        return SCHEMA[cname]["fields"]

    def mutable(self, cname):
        return SCHEMA.get(cname, {}).get("mutable", [])

    def field_type(self, cname, attr):
        for a, t in self.schema_fields(cname):
            if a == attr:
                return t
        return None

    # ---- what a method touches (transitively): stream, mutable attributes, record fields
    def analyse(self, cname, defcls, mname, seen=None):
        seen = seen if seen is not None else set()
        key = (defcls, mname)
        if key in seen:
            return False, False, set()
        seen.add(key)
        f = self.find_in(defcls, mname)
        stream = mut = False
        used = set()
        mattrs = {a for a, _ in self.mutable(cname)}
        fattrs = {a for a, _ in self.schema_fields(cname)}
        for n in ast.walk(f):
            if isinstance(n, ast.Attribute) and isinstance(n.value, ast.Name) and n.value.id == "self":
                if n.attr in mattrs:
                    mut = True
                elif n.attr in fattrs:
                    used.add(n.attr)
                    if self.field_type(cname, n.attr) in ("G", "OG"):
                        stream = True if isinstance(n.ctx, ast.Load) and mname != "__init__" else stream
                elif n.attr == "_stream":
                    stream = True if mname not in ("__init__", "_set_stream") else stream
                elif not n.attr.startswith("_"):
                    d2, f2 = self.resolve(cname, n.attr)
                    if f2 is not None and self.is_property(f2):
                        a = self.property_attr(cname, n.attr, n)
                        if a in fattrs:
                            used.add(a)
                    elif isinstance(f2, ast.FunctionDef):
                        s2, m2, u2 = self.analyse(cname, d2, n.attr, seen)
                        stream, mut, used = stream or s2, mut or m2, used | u2
                else:
                    d2, f2 = self.resolve(cname, n.attr)
                    if isinstance(f2, ast.FunctionDef):
                        s2, m2, u2 = self.analyse(cname, d2, n.attr, seen)
                        stream, mut, used = stream or s2, mut or m2, used | u2
            if isinstance(n, ast.Attribute) and isinstance(n.value, ast.Call) and isinstance(n.value.func, ast.Name) \
                    and n.value.func.id == "super":
                d2, f2 = self.resolve(cname, n.attr, after=defcls)
                if isinstance(f2, ast.FunctionDef):
                    s2, m2, u2 = self.analyse(cname, d2, n.attr, seen)
                    stream, mut, used = stream or s2, mut or m2, used | u2
        return stream, mut, used

    # ------------------------------------------------------------------ literals and texts
    def fconst(self, c: float) -> str:
        """Gallina term of a Python float constant"""
        if c != c or c in (float("inf"), float("-inf")):
            raise Unsupported(self.ctx.node if self.ctx else self.tree, f"float constant {c!r} (the num record has finite constants only)")
        neg = (c < 0) or (c == 0 and str(c).startswith("-"))
        a = abs(c)
        if a == int(a) and a < 2 ** 53:
            t = f"(ofZ N {int(a)})"
        else:
            m, e = a.hex().split("p")          # 0x1.hhhhp+e
            mant = int(m.replace("0x", "").replace(".", ""), 16)
            exp = int(e) - 4 * (len(m.split(".")[1]) if "." in m else 0)
            while mant % 2 == 0:
                mant //= 2
                exp += 1
            t = f"(ofD N {mant} ({exp}))"
        return f"(-. {t})" if neg else t

    def zconst(self, n: int) -> str:
        return f"{n}%Z" if n >= 0 else f"({n})%Z"

    def text(self, v: V) -> str:
        """Gallina term of a value (constants become literals of their own type)"""
        if v.const is not None:
            if v.ty == "F":
                return self.fconst(v.const)
            if v.ty == "Z":
                return self.zconst(v.const)
            if v.ty == "B":
                return "true" if v.const else "false"
        if v.tx is None:
            raise Unsupported(self.ctx.node, f"value of kind {v.ty} has no term")
        return v.tx

    def ftext(self, v: V) -> str:
        """float term of an F or Z value"""
        if v.ty == "F":
            return self.text(v)
        if v.ty == "Z":
            if v.big:
                raise Unsupported(self.ctx.node, "an unbounded int (math.comb / math.factorial) used as a float other than "
                                                 "as an operand of + - * /")
            if v.const is not None:
                c = v.const
                if abs(c) >= 2 ** 53:
                    raise Unsupported(self.ctx.node, f"int constant {c} converted to float")
                return f"(-. (ofZ N {-c}))" if c < 0 else f"(ofZ N {c})"
            t = v.tx
            if t.endswith("%Z"):
                t = t[:-2]
            return f"(ofZ N {paren(t)})"
        raise Unsupported(self.ctx.node, f"value of kind {v.ty} used as a float")

    def has_fact(self, env, v, *kinds):
        return any((v.tx, k) in env.facts for k in kinds)

    def numeric(self, node, v, env):
        """a value used as a number: F or Z"""
        if v.ty in ("F", "Z"):
            return v
        if v.ty == "P":
            if self.has_fact(env, v, "int"):
                return V("Z", f"(p_int N {v.tx})")
            if self.has_fact(env, v, "float", "num"):
                return V("F", f"(p_float N {v.tx})")
            self.fail(node, f"parameter {v.tx} used as a number where the isinstance guards in front do not establish that it is one")
        if v.ty == "V":
            return V("F", f"(as_float N {v.tx})")
        self.fail(node, f"value of kind {v.ty} used as a number")

    def as_float(self, node, v, env):
        """float(v) / v where it meets a float"""
        if v.ty == "P" and self.has_fact(env, v, "float", "num", "int"):
            return V("F", f"(p_float N {v.tx})")
        v = self.numeric(node, v, env)
        return V("F", self.ftext(v)) if v.ty == "Z" else v

    # ------------------------------------------------------------------ the three monads
    def state_term(self, env):
        ms = self.mutable(self.ctx.cls)
        return "(" + ", ".join(self.text(env.mut[a]) for a, _t in ms) + ")"

    def bind(self, node, kind, text, ty, env, k, stem="t"):
        """emit a bind of an operation of monad `kind` (res / M / MS) into the method's monad"""
        if self.pure_depth:
            raise Impure()
        mode = self.ctx.mode
        x = self.ctx.fresh(stem)
        if mode == "res":
            if kind != "res":
                self.fail(node, "stream consumption / mutable attribute in a method that was classified as free of them")
            return f"{x} <-- {text} ;;\n{k(V(ty, x), env)}"
        if mode == "M":
            if kind == "res":
                return f"{x} <- lift {paren(text)} ;;\n{k(V(ty, x), env)}"
            if kind == "M":
                return f"{x} <- {text} ;;\n{k(V(ty, x), env)}"
            self.fail(node, "call of a method that touches mutable attributes from one that was classified as not doing so")
        st = self.state_term(env)
        if kind == "res":
            return f"bindMS {st} (lift {paren(text)}) (fun {x} =>\n{k(V(ty, x), env)})"
        if kind == "M":
            return f"bindMS {st} {paren(text)} (fun {x} =>\n{k(V(ty, x), env)})"
        s1 = self.ctx.fresh("st")
        e2 = env.clone()
        ms = self.mutable(self.ctx.cls)
        for i, (a, t) in enumerate(ms):
            e2.mut[a] = V(t, self.proj_lr(i, len(ms), s1))
        return f"bindSS {paren(text)} (fun {x} {s1} =>\n{k(V(ty, x), e2)})"

    def proj_lr(self, i, n, st):
        """component i of the left-nested tuple (..((a0, a1), a2).., a_{n-1})"""
        t = st
        for _ in range(n - 1 - max(i, 1)):
            t = f"(fst {t})"
        if n == 1:
            return st
        return f"(fst {t})" if i == 0 else f"(snd {t})"

    def emit_ret(self, node, v, env):
        if v.ty not in ("F", "Z", "V", "B"):
            self.fail(node, f"return of a value of kind {v.ty}")
        self.ctx.ret.add(v.ty)
        t = self.text(v)
        mode = self.ctx.mode
        if mode == "res":
            return f"Val {paren(t)}"
        if mode == "M":
            return f"ret {paren(t)}"
        return f"retS {self.state_term(env)} {paren(t)}"

    def emit_raise(self, node, kind, env):
        mode = self.ctx.mode
        if mode == "res":
            return f"Err (Raise {kind})"
        if mode == "M":
            return f"lift (Err (Raise {kind}))"
        return f"failS {self.state_term(env)} (Raise {kind})"

    def emit_unmodelled(self, env):
        mode = self.ctx.mode
        if mode == "res":
            return "Err Unmodelled"
        if mode == "M":
            return "lift (Err Unmodelled)"
        return f"failS {self.state_term(env)} Unmodelled"

    # ------------------------------------------------------------------ definitions
    def method(self, defcls, mname, node=None):
        """translate (once) and return the signature of gen_<defcls>_<mname>"""
        key = (defcls, mname)
        cname = self.concrete
        if key in self.sigs:
            sig = self.sigs[key]
            for nm, after, d in sig["calls"]:
                d2, _f = self.resolve(cname, nm, after=after)
                if d2 != d:
                    self.fail(node or self.classes[cname], f"{defcls}.{mname} calls self.{nm}(), which {cname} overrides "
                                                           f"(dynamic dispatch differs from the translated definition)")
            return sig
        if key in self.stack:
            self.fail(node, f"recursion in {defcls}.{mname}")
        f = self.find_in(defcls, mname)
        if not isinstance(f, ast.FunctionDef):
            self.fail(node or self.classes[defcls], f"method {defcls}.{mname} not found")
        if f.decorator_list:
            self.fail(f, f"decorated method {defcls}.{mname}")
        a = f.args
        if a.vararg or a.kwarg or a.kwonlyargs or a.posonlyargs:
            self.fail(f, f"{defcls}.{mname}: *args / **kwargs / keyword-only / positional-only parameters")
        if not a.args or a.args[0].arg != "self":
            self.fail(f, f"{defcls}.{mname}: first parameter is not `self`")
        for n in ast.walk(f):
            if isinstance(n, (ast.FunctionDef, ast.AsyncFunctionDef, ast.Lambda, ast.ClassDef)) and n is not f:
                self.fail(n, "nested function / class / lambda")
            if isinstance(n, (ast.Yield, ast.YieldFrom, ast.Await, ast.Global, ast.Nonlocal, ast.With, ast.Delete,
                              ast.NamedExpr, ast.ListComp, ast.SetComp, ast.DictComp, ast.GeneratorExp, ast.Starred)):
                self.fail(n, type(n).__name__)       # (a `try` is translated - or refused - by try_)
        is_ctor = mname == "__init__"
        stream, mut, used = self.analyse(cname, defcls, mname)
        stateful = bool(self.mutable(cname))
        mode = "res" if is_ctor else ("MS" if (stateful and mut) else ("M" if stream else "res"))
        ctx = Ctx(cname, defcls, mname, f, mode, "ctor" if is_ctor else "fun")
        saved = (self.ctx, self.pure_depth, self.loopstack)
        self.ctx, self.pure_depth, self.loopstack = ctx, 0, []
        self.stack.append(key)
        try:
            env = Env()
            binders = []
            params = []
            if is_ctor:
                binders.append(("sok", "bool"))
                for p in a.args[1:]:
                    if p.arg == "stream":
                        env.locals["stream"] = V("Stream", "sok")
                        continue
                    env.locals[p.arg] = V("P", "p_" + p.arg)
                    binders.append(("p_" + p.arg, "param F"))
                    params.append((p.arg, "P"))
                if "stream" not in env.locals:
                    self.fail(f, f"{defcls}.__init__ has no parameter `stream`")
            else:
                fields = [(at, t) for at, t in self.schema_fields(cname if defcls not in SCHEMA else defcls)
                          if (mname in API and defcls in SCHEMA) or at in used]
                for at, t in fields:
                    env.fields[at] = V(t, "f" + at)
                    binders.append(("f" + at, GTYPE[t]))
                if mode == "MS":
                    for at, t in self.mutable(cname):
                        env.mut[at] = V(t, "m" + at)
                        binders.append(("m" + at, GTYPE[t]))
                for p in a.args[1:]:
                    ty = PARAMS.get(p.arg)
                    if ty is None:
                        self.fail(p, f"parameter `{p.arg}` of {defcls}.{mname} has no declared value universe")
                    env.locals[p.arg] = V(ty, "p_" + p.arg)
                    binders.append(("p_" + p.arg, GTYPE[ty]))
                    params.append((p.arg, ty))
                if a.defaults:
                    self.fail(a.defaults[0], f"default value of a parameter of {defcls}.{mname}")
            body = self.body_of(f)
            name = f"gen_{defcls}_{mname}"
            if is_ctor:
                text = self.block(body, env, lambda e: self.ctor_result(f, e))
                rty = "res (dist F * " + self.state_type(cname) + ")" if stateful else "res (dist F)"
                result = "ctor"
            else:
                text = self.block(body, env, lambda e: self.fail(f, f"{defcls}.{mname} can end without `return`"))
                if len(ctx.ret) != 1:
                    self.fail(f, f"{defcls}.{mname} returns values of kinds {sorted(ctx.ret)}")
                result = next(iter(ctx.ret))
                tau = GTYPE[result]
                rty = {"res": f"res {paren(tau)}", "M": f"M F {paren(tau)}",
                       "MS": f"MS {self.state_type(cname)} {paren(tau)}"}[mode]
            btext = "".join(f" ({n} : {t})" for n, t in binders)
            header = f"(* {defcls}.{mname}  -- distributions.py lines {f.lineno}-{f.end_lineno} *)"
            for lp in ctx.loops:
                self.defs.append(lp.replace("@@RT@@", rty))
            self.defs.append(f"{header}\nDefinition {name}{btext} : {rty} :=\n{ind(text)}.")
            sig = {"name": name, "fields": [b[0] for b in binders if b[0].startswith("f_")],
                   "field_attrs": [b[0][1:] for b in binders if b[0].startswith("f_")],
                   "mut": mode == "MS", "params": params, "result": result, "mode": mode, "cls": defcls,
                   "calls": list(ctx.calls), "loops": [re.search(r"Fixpoint (\S+)", l).group(1) for l in ctx.loops]}
            self.sigs[key] = sig
            src_lines = self.lines[f.lineno - 1:f.end_lineno]
            self.translated.append({"class": defcls, "method": mname, "definition": name, "for_class": cname,
                                    "monad": mode, "recursive_definitions": sig["loops"],
                                    "lines": [f.lineno, f.end_lineno],
                                    "sha1": hashlib.sha1("\n".join(src_lines).encode("utf-8")).hexdigest()})
            return sig
        finally:
            self.stack.pop()
            self.ctx, self.pure_depth, self.loopstack = saved

    def state_type(self, cname):
        return "(" + " * ".join(GTYPE[t] for _a, t in self.mutable(cname)) + ")"

    def ctor_result(self, node, env):
        cname = self.ctx.cls
        sch = SCHEMA[cname]
        parts = []
        for at, t in sch["fields"]:
            v = env.fields.get(at)
            if v is None:
                self.fail(node, f"constructor of {cname} can end without assigning self.{at}")
            parts.append(paren(self.text(self.coerce_field(node, t, v, env, at))))
        d = f"{sch['ctor']} " + " ".join(parts)
        if self.mutable(cname):
            for at, _t in self.mutable(cname):
                if at not in env.mut:
                    self.fail(node, f"constructor of {cname} can end without assigning self.{at}")
            return f"Val ({d}, {self.state_term(env)})"
        return f"Val ({d})"

    def coerce_field(self, node, ft, v, env, attr):
        """value stored in a record field of type ft"""
        if v.ty == ft and v.const is None:
            return v
        if ft == "F":
            if v.ty == "P" and self.has_fact(env, v, "float", "num", "int"):
                return V("F", f"(p_float N {v.tx})")
            if v.ty in ("F", "Z"):
                return V("F", self.ftext(v))
        elif ft == "Z":
            if v.ty == "P" and self.has_fact(env, v, "int"):
                return V("Z", f"(p_int N {v.tx})")
            if v.ty == "Z":
                return V("Z", self.text(v))
        elif ft == "V":
            if v.ty == "P" and self.has_fact(env, v, "num"):
                return V("V", f"(py_value {v.tx})")
            if v.ty == "F":
                return V("V", f"(VF {self.text(v)})")
            if v.ty == "Z":
                return V("V", f"(VI {self.text(v)})")
        elif ft == "G":
            if v.ty == "G":
                return v
        elif ft == "OG":
            if v.ty == "G":
                return V("OG", f"(Some {v.tx})")
            if v.ty == "None":
                return V("OG", "None")
            if v.ty == "OG":
                return v
        elif ft == "B":
            if v.ty == "B":
                return V("B", self.text(v))
        self.fail(node, f"value of kind {v.ty} stored in self.{attr}, a field of kind {ft} of the model record")

    # ------------------------------------------------------------------ statements
    def block(self, stmts, env, k):
        if not stmts:
            return k(env)
        s, rest = stmts[0], stmts[1:]
        # `c = 0` directly followed by `while c < K: ...; c += 1`
        if rest and isinstance(rest[0], ast.While):
            cnt = self.counter_loop(s, rest[0])
            if cnt is not None:
                return self.loop(rest[0], env, lambda e2: self.block(rest[1:], e2, k), counter=cnt)
        return self.stmt(s, env, lambda e2: self.block(rest, e2, k))

    def stmt(self, s, env, k):
        if isinstance(s, ast.Pass):
            return k(env)
        if isinstance(s, ast.Raise):
            return self.emit_raise(s, self.exc_name(s), env)
        if isinstance(s, ast.Return):
            if self.ctx.retk:
                rk = self.ctx.retk[-1]
                if s.value is None:
                    return rk(V("None"), env)
                return self.expr(s.value, env, rk)
            if self.ctx.kind == "ctor":
                self.fail(s, "return in a constructor")
            if s.value is None:
                self.fail(s, "bare return (None) in a method whose value is used")
            return self.expr(s.value, env, lambda v, e: self.emit_ret(s, v, e))
        if isinstance(s, ast.Assign):
            if len(s.targets) != 1:
                self.fail(s, "multiple assignment targets")
            return self.expr(s.value, env, lambda v, e: self.assign(s, s.targets[0], v, e, k))
        if isinstance(s, ast.AnnAssign):
            if s.value is None:
                self.fail(s, "annotation without a value")
            return self.expr(s.value, env, lambda v, e: self.assign(s, s.target, v, e, k))
        if isinstance(s, ast.AugAssign):
            if isinstance(s.target, ast.Attribute):
                load = ast.copy_location(ast.Attribute(value=s.target.value, attr=s.target.attr, ctx=ast.Load()), s.target)
            elif isinstance(s.target, ast.Name):
                load = ast.copy_location(ast.Name(id=s.target.id, ctx=ast.Load()), s.target)
            else:
                self.fail(s, f"augmented assignment to {type(s.target).__name__}")
            e = ast.copy_location(ast.BinOp(left=load, op=s.op, right=s.value), s)
            return self.expr(e, env, lambda v, e2: self.assign(s, s.target, v, e2, k))
        if isinstance(s, ast.If):
            return self.if_(s, env, k)
        if isinstance(s, ast.Try):
            return self.try_(s, env)
        if isinstance(s, ast.While):
            return self.loop(s, env, k)
        if isinstance(s, ast.For):
            return self.loop(s, env, k)
        if isinstance(s, ast.Break):
            if not self.loopstack or self.loopstack[-1][0] is None:
                self.fail(s, "break in a loop that counts its iterations")
            return self.loopstack[-1][0](env)
        if isinstance(s, ast.Continue):
            if not self.loopstack or self.loopstack[-1][1] is None:
                self.fail(s, "continue outside a translated loop")
            return self.loopstack[-1][1](env)
        if isinstance(s, ast.Expr):
            if isinstance(s.value, ast.Constant) and isinstance(s.value.value, str):
                return k(env)
            if isinstance(s.value, ast.Call):
                return self.call_stmt(s.value, env, k)
            self.fail(s, f"expression statement {type(s.value).__name__}")
        self.fail(s, f"statement {type(s).__name__}")

    def try_(self, s, env):
        """try: <block that returns>  except <E>: <block that returns>   in a method without stream consumption or
        mutable attributes:  on_exn E <body> <handler>.  Both blocks must return on every path (a path that falls out
        of either block is refused), there is one handler, for one of the modelled exception types, without `as`."""
        if self.ctx.mode != "res" or self.ctx.kind == "ctor" or self.ctx.retk:
            self.fail(s, "try / except outside a stream-free method whose value is returned")
        if s.orelse or s.finalbody or len(s.handlers) != 1:
            self.fail(s, "try with else / finally / several handlers")
        h = s.handlers[0]
        if h.name is not None or not isinstance(h.type, ast.Name) or h.type.id not in EXN:
            self.fail(s, "except clause other than `except <ValueError|ZeroDivisionError|OverflowError|TypeError>:`")

        def falls_out(_e):
            self.fail(s, "a path through a try / except block that does not end in `return`")
        body = self.block(s.body, env.clone(), falls_out)
        hand = self.block(h.body, env.clone(), falls_out)
        return f"on_exn {EXN[h.type.id]}\n{ind(blockp(body))}\n{ind(blockp(hand))}"

    def exc_name(self, s):
        e = s.exc
        if s.cause is not None or e is None:
            self.fail(s, "raise without exception / raise ... from")
        if isinstance(e, ast.Call) and isinstance(e.func, ast.Name) and not e.keywords:
            for a in e.args:
                ok = all(isinstance(n, (ast.Constant, ast.JoinedStr, ast.FormattedValue, ast.Name, ast.Attribute, ast.BinOp,
                                        ast.Add, ast.Load)) for n in ast.walk(a))
                if not ok or any(isinstance(n, ast.Constant) and not isinstance(n.value, str) for n in ast.walk(a)):
                    self.fail(a, "exception argument that is not a (formatted) string of names and attributes")
            nm = e.func.id
        elif isinstance(e, ast.Name):
            nm = e.id
        else:
            self.fail(s, "raise of something else than `Exc(..)`")
        if nm not in EXN:
            self.fail(s, f"raise {nm} (the models know {', '.join(EXN)})")
        return EXN[nm]

    def assign(self, node, target, v, env, k):
        if isinstance(target, ast.Attribute):
            if not (isinstance(target.value, ast.Name) and target.value.id == "self"):
                self.fail(node, "assignment to an attribute of something else than self")
            attr = target.attr
            cname = self.ctx.cls
            e2 = env.clone()
            if attr in [a for a, _t in self.mutable(cname)]:
                if self.ctx.kind != "ctor" and self.ctx.mode != "MS":
                    self.fail(node, f"assignment to self.{attr} in a method classified as not touching mutable attributes")
                mt = dict(self.mutable(cname))[attr]
                cv = self.coerce_field(node, mt, v, env, attr)
                if cv.const is None and not re.fullmatch(r"[A-Za-z_][A-Za-z0-9_']*|true|false", cv.tx):
                    nm = self.ctx.fresh("m" + attr)
                    e2.mut[attr] = V(mt, nm)
                    return f"let {nm} := {cv.tx} in\n{k(e2)}"
                e2.mut[attr] = cv
                return k(e2)
            if self.ctx.kind != "ctor":
                self.fail(node, f"assignment to self.{attr} outside the constructor (the model record is immutable)")
            if attr == "_stream":
                if v.ty != "Stream":
                    self.fail(node, "self._stream is assigned something else than the stream argument")
                e2.stream = v
                return k(e2)
            ft = self.field_type(cname, attr)
            if ft is None:
                self.fail(node, f"assignment to attribute self.{attr}, which the model record of {cname} does not have")
            if v.ty == "None" and ft in ("G",):
                e2.fields.pop(attr, None)           # placeholder, must be overwritten before the end
                return k(e2)
            cv = self.coerce_field(node, ft, v, env, attr)
            if cv.const is None and " " in cv.tx:
                nm = self.ctx.fresh("f" + attr)
                e2.fields[attr] = V(ft, nm)
                return f"let {nm} := {cv.tx} in\n{k(e2)}"
            e2.fields[attr] = cv
            return k(e2)
        if isinstance(target, ast.Name):
            if target.id in ("self", "math", "logger"):
                self.fail(node, f"assignment to `{target.id}`")
            old = env.locals.get(target.id)
            if old is not None and old.ty in ("P", "Stream"):
                self.fail(node, f"assignment to the parameter `{target.id}`")
            if v.ty not in ("F", "Z", "B"):
                self.fail(node, f"value of kind {v.ty} assigned to a local")
            e2 = env.clone()
            if v.const is not None or re.fullmatch(r"[A-Za-z_][A-Za-z0-9_']*", v.tx):
                e2.locals[target.id] = v
                return k(e2)
            nm = self.ctx.fresh(target.id)
            e2.locals[target.id] = V(v.ty, nm)
            return f"let {nm} := {v.tx} in\n{k(e2)}"
        self.fail(node, f"assignment target {type(target).__name__}")

    # ---- if
    def if_(self, s, env, k):
        # guard form:  if c: raise E(..)   with a pure c
        if not s.orelse and len(s.body) == 1 and isinstance(s.body[0], ast.Raise):
            try:
                c, ft, ff = self.pure_cond(s.test, env)
            except Impure:
                c = None
            if c is not None and c.const is None:
                kind = self.exc_name(s.body[0])
                if isinstance(s.test, ast.UnaryOp) and isinstance(s.test.op, ast.Not):
                    ok = self.pure_cond(s.test.operand, env)[0].tx      # if not X: raise  ->  check X
                else:
                    ok = f"(negb {c.tx})"
                chk = f"check {paren(ok)} {kind}"
                rest = k(env.plus(ff))
                mode = self.ctx.mode
                if mode == "res":
                    return f"_ <-- {chk} ;;\n{rest}"
                if mode == "M":
                    return f"_ <- lift ({chk}) ;;\n{rest}"
                return f"bindMS {self.state_term(env)} (lift ({chk})) (fun _ =>\n{rest})"
        # join form: both branches only assign pure values -> one `let x := if c then a else b` per changed name
        plan = None
        try:
            c, ft, ff = self.pure_cond(s.test, env)
            if c.const is None:
                et = self.simple_block(s.body, env.plus(ft))
                ef = self.simple_block(s.orelse, env.plus(ff))
                plan = self.join(s, c, env, et, ef)
        except (Impure, NotSimple):
            plan = None
        if plan is not None:
            lets, e2 = plan
            return "\n".join(lets + [k(e2)])
        return self.cond(s.test, env,
                         lambda e1: self.block(s.body, e1, k),
                         lambda e1: self.block(s.orelse, e1, k))

    def simple_block(self, stmts, env):
        cur = env
        for st in stmts:
            if isinstance(st, ast.Pass):
                continue
            if not isinstance(st, (ast.Assign, ast.AugAssign, ast.AnnAssign)):
                raise NotSimple()
            tg = st.targets[0] if isinstance(st, ast.Assign) else st.target
            if not isinstance(tg, ast.Name) or (isinstance(st, ast.Assign) and len(st.targets) != 1):
                raise NotSimple()
            if isinstance(st, ast.AugAssign):
                val = ast.copy_location(ast.BinOp(left=ast.copy_location(ast.Name(id=tg.id, ctx=ast.Load()), tg), op=st.op, right=st.value), st)
            else:
                val = st.value
            if val is None:
                raise NotSimple()
            v = self.pure_expr(val, cur)
            if v.ty not in ("F", "Z", "B"):
                raise NotSimple()
            old = cur.locals.get(tg.id)
            if old is not None and old.ty in ("P", "Stream"):
                raise NotSimple()
            cur = cur.clone()
            cur.locals[tg.id] = v
        return cur

    def join(self, node, c, env, et, ef):
        e2 = env.clone()
        lets = []
        for nme in sorted(set(et.locals) | set(ef.locals)):
            a, b = et.locals.get(nme), ef.locals.get(nme)
            if a is None or b is None:
                raise NotSimple()
            if a.key() != b.key():
                if a.ty != b.ty:
                    raise NotSimple()
                nm = self.ctx.fresh(nme)
                lets.append(f"let {nm} := if {c.tx} then {self.text(a)} else {self.text(b)} in")
                e2.locals[nme] = V(a.ty, nm)
        if not lets:
            raise NotSimple()
        return lets, e2

    # ---- calls as statements
    def call_stmt(self, c, env, k):
        f = c.func
        if c.keywords or any(isinstance(a, ast.Starred) for a in c.args):
            self.fail(c, "keyword / starred arguments")
        if isinstance(f, ast.Attribute) and isinstance(f.value, ast.Name) and f.value.id == "logger" and "logger" not in env.locals:
            if not self.has_logger:
                self.fail(c, "`logger` is not the module-level logger")
            if not all(isinstance(a, ast.Constant) and isinstance(a.value, str) for a in c.args):
                self.fail(c, "logger call with arguments that are not string literals")
            return k(env)
        target = None
        after = None
        if self.ctx.defstack[-1] is not None:
            if isinstance(f, ast.Attribute) and isinstance(f.value, ast.Name) and f.value.id == "self" and "self" not in env.locals:
                d, fn = self.resolve(self.ctx.cls, f.attr)
                target = (d, fn, f.attr)
            elif isinstance(f, ast.Attribute) and isinstance(f.value, ast.Call) and isinstance(f.value.func, ast.Name) \
                    and f.value.func.id == "super" and not f.value.args and not f.value.keywords:
                after = self.ctx.defstack[-1]
                d, fn = self.resolve(self.ctx.cls, f.attr, after=after)
                target = (d, fn, f.attr)
        if target is not None and target[2] in ("__init__", "_set_stream"):
            d, fn, nm = target
            if self.ctx.kind != "ctor":
                self.fail(c, f"call of {nm} outside a constructor")
            if not isinstance(fn, ast.FunctionDef):
                if nm == "__init__" and d is None:
                    return self.exprs(c.args, env, lambda vs, e: k(e))      # object.__init__
                self.fail(c, f"{nm} cannot be resolved")
            return self.exprs(c.args, env, lambda vs, e: self.inline(c, d, fn, vs, e, lambda v, e2: k(e2), after))
        # any other call: evaluated for its effect, value dropped
        return self.expr(c, env, lambda v, e: k(e))

    def inline(self, node, defcls, fn, args, env, k, after=None):
        """translate the body of a helper at the call site: parameters bound to the (already evaluated) arguments,
        `return e` hands e to the continuation k(value, env) of the call, falling off the end hands None.
        defcls None: a module-level function (no self)."""
        a = fn.args
        where = f"{defcls}.{fn.name}" if defcls else fn.name
        if a.vararg or a.kwarg or a.kwonlyargs or a.posonlyargs:
            self.fail(fn, f"{where}: *args / **kwargs / keyword-only / positional-only parameters")
        static = any(isinstance(d, ast.Name) and d.id == "staticmethod" for d in fn.decorator_list)
        if [d for d in fn.decorator_list if not (isinstance(d, ast.Name) and d.id == "staticmethod")] or (static and not defcls):
            self.fail(fn, f"decorated function {where}")
        formals = list(a.args)
        if defcls and not static:
            if not formals or formals[0].arg != "self":
                self.fail(fn, f"{where}: first parameter is not `self`")
            formals = formals[1:]
        if len(args) > len(formals):
            self.fail(node, f"{fn.name}() called with {len(args)} arguments, it has {len(formals)} parameters")
        vals = list(args)
        for i in range(len(args), len(formals)):
            di = i - (len(formals) - len(a.defaults))
            dflt = a.defaults[di] if di >= 0 else None
            if not (isinstance(dflt, ast.Constant) and type(dflt.value) in (int, float, bool, str, type(None))) :
                self.fail(node, f"{fn.name}() called without a value for `{formals[i].arg}` (only literal defaults are modelled)")
            ty = {int: "Z", float: "F", bool: "B", str: "Str", type(None): "None"}[type(dflt.value)]
            vals.append(V(ty, const=dflt.value) if ty in ("Z", "F", "B") else V(ty))
        if (defcls, fn.name) in self.ctx.inlining:
            self.fail(node, f"recursion through {where}")
        if len(self.ctx.inlining) > 12:
            self.fail(node, "helper calls nested too deeply")
        for n in ast.walk(fn):
            if isinstance(n, (ast.FunctionDef, ast.AsyncFunctionDef, ast.Lambda, ast.ClassDef)) and n is not fn:
                self.fail(n, "nested function / class / lambda")
            if isinstance(n, (ast.Yield, ast.YieldFrom, ast.Await, ast.Global, ast.Nonlocal, ast.Try, ast.With, ast.Delete,
                              ast.NamedExpr, ast.ListComp, ast.SetComp, ast.DictComp, ast.GeneratorExp, ast.Starred)):
                self.fail(n, f"{type(n).__name__} in the helper {where}")
        e2 = env.clone()
        e2.locals = {p.arg: v for p, v in zip(formals, vals)}
        outer_locals = env.locals
        outer_loops = self.loopstack
        if defcls:
            self.ctx.calls.append((fn.name, after, defcls))
        frame = (defcls if not static else None, None, (defcls, fn.name))

        def leave(v, e3):
            # the continuation of the call runs in the caller's context
            e4 = e3.clone()
            e4.locals = outer_locals
            ds, rk, il = self.ctx.defstack.pop(), self.ctx.retk.pop(), self.ctx.inlining.pop()
            inner_loops, self.loopstack = self.loopstack, outer_loops
            try:
                return k(v, e4)
            finally:
                self.ctx.defstack.append(ds)
                self.ctx.retk.append(rk)
                self.ctx.inlining.append(il)
                self.loopstack = inner_loops

        self.ctx.defstack.append(frame[0])
        self.ctx.retk.append(leave)
        self.ctx.inlining.append(frame[2])
        self.loopstack = []
        try:
            return self.block(self.body_of(fn), e2, lambda e3: leave(V("None"), e3))
        finally:
            self.ctx.defstack.pop()
            self.ctx.retk.pop()
            self.ctx.inlining.pop()
            self.loopstack = outer_loops

    def exprs(self, es, env, k, acc=()):
        if not es:
            return k(list(acc), env)
        return self.expr(es[0], env, lambda v, e: self.exprs(es[1:], e, k, acc + (v,)))

    # ------------------------------------------------------------------ expressions (CPS: k(value, env))
    def pure_expr(self, e, env):
        box = []
        self.pure_depth += 1
        try:
            self.expr(e, env, lambda v, e2: (box.append(v), "")[1])
        finally:
            self.pure_depth -= 1
        if len(box) != 1:
            raise Impure()
        return box[0]

    def expr(self, e, env, k):
        if isinstance(e, ast.Constant):
            c = e.value
            if isinstance(c, bool):
                return k(V("B", const=c), env)
            if isinstance(c, int):
                return k(V("Z", const=c), env)
            if isinstance(c, float):
                return k(V("F", const=c), env)
            if c is None:
                return k(V("None"), env)
            if isinstance(c, str):
                return k(V("Str"), env)           # only ever handed on to a helper that formats a message with it
            self.fail(e, f"literal {c!r}")
        if isinstance(e, ast.JoinedStr):
            for n in ast.walk(e):
                if not isinstance(n, (ast.JoinedStr, ast.FormattedValue, ast.Constant, ast.Name, ast.Attribute, ast.Load)):
                    self.fail(e, "formatted string with an expression that is not a name / attribute")
            return k(V("Str"), env)
        if isinstance(e, ast.IfExp):
            # a if c else b: the test first, then only the chosen operand
            try:
                c, ft, ff = self.pure_cond(e.test, env)
                if c.const is not None:
                    return self.expr(e.body if c.const else e.orelse, env.plus(ft if c.const else ff), k)
                a = self.pure_expr(e.body, env.plus(ft))
                b = self.pure_expr(e.orelse, env.plus(ff))
                if a.ty == b.ty and a.ty in ("F", "Z", "B"):
                    return k(V(a.ty, f"(if {c.tx} then {self.text(a)} else {self.text(b)})"), env)
            except Impure:
                pass
            return self.cond(e.test, env, lambda e1: self.expr(e.body, e1, k), lambda e1: self.expr(e.orelse, e1, k))
        if isinstance(e, ast.Name):
            if e.id in env.locals:
                return k(env.locals[e.id], env)
            self.fail(e, f"name `{e.id}` (not a parameter or a local assigned on every path before)")
        if isinstance(e, ast.Attribute):
            return self.attribute(e, env, k)
        if isinstance(e, ast.UnaryOp):
            if isinstance(e.op, ast.Not):
                return k(self.bool_value(e, env), env)
            if isinstance(e.op, (ast.USub, ast.UAdd)):
                neg = isinstance(e.op, ast.USub)

                def un(v, e2):
                    if not neg:
                        return k(self.numeric(e, v, e2), e2)
                    if v.ty in ("Z", "F") and v.const is not None:
                        return k(V(v.ty, const=-v.const), e2)
                    v = self.numeric(e, v, e2)
                    if v.ty == "Z":
                        return k(V("Z", f"(- {v.tx})%Z"), e2)
                    return k(V("F", f"(-. {v.tx})"), e2)
                return self.expr(e.operand, env, un)
            self.fail(e, f"unary operator {type(e.op).__name__}")
        if isinstance(e, ast.BinOp):
            op = {ast.Add: "+", ast.Sub: "-", ast.Mult: "*", ast.Div: "/", ast.Pow: "**"}.get(type(e.op))
            if op is None:
                self.fail(e, f"binary operator {type(e.op).__name__}")
            return self.expr(e.left, env, lambda a, e1: self.expr(e.right, e1, lambda b, e2: self.arith(e, op, a, b, e2, k)))
        if isinstance(e, (ast.Compare, ast.BoolOp)):
            return k(self.bool_value(e, env), env)
        if isinstance(e, ast.Call):
            return self.call(e, env, k)
        self.fail(e, f"expression {type(e).__name__}")

    def is_self(self, n, env):
        """the name `self` of the method being read (not inside a module-level helper, not shadowed)"""
        return isinstance(n, ast.Name) and n.id == "self" and "self" not in env.locals and self.ctx.defstack[-1] is not None

    def attribute(self, e, env, k):
        if self.is_self(e.value, env):
            attr = e.attr
            cname = self.ctx.cls
            if attr in env.mut:
                return k(env.mut[attr], env)
            if attr in [a for a, _t in self.mutable(cname)]:
                self.fail(e, f"self.{attr} read before it is assigned / in a method classified as not touching it")
            if attr == "_stream":
                if self.ctx.kind == "ctor":
                    if env.stream is None:
                        self.fail(e, "self._stream read before it is assigned")
                    return k(env.stream, env)
                return k(V("Stream", "<the stream>"), env)
            if self.field_type(cname, attr) is not None:
                if attr not in env.fields:
                    self.fail(e, f"self.{attr} read before it is assigned (or not passed to this definition)")
                return k(env.fields[attr], env)
            if not attr.startswith("_"):
                c = self.class_const(cname, attr)
                if c is not None:
                    return k(V("Z" if isinstance(c, int) else "F", const=c), env)
                a2 = self.property_attr(cname, attr, e)
                if self.field_type(cname, a2) is not None and a2 in env.fields:
                    self.ctx.calls.append((attr, None, self.resolve(cname, attr)[0]))
                    return k(env.fields[a2], env)
                self.fail(e, f"property self.{attr} of attribute {a2}, which is not available here")
            self.fail(e, f"attribute self.{attr}, which the model record of {cname} does not have")
        if isinstance(e.value, ast.Name) and e.value.id == "math" and "math" not in env.locals:
            if not self.has_math:
                self.fail(e, "`math` is not imported")
            if e.attr == "e":
                return k(V("F", "(cE N)"), env)
            if e.attr == "pi":
                return k(V("F", "(cPi N)"), env)
            self.fail(e, f"math.{e.attr}")
        self.fail(e, f"attribute access `{ast.unparse(e)[:50]}`")

    def bool_value(self, e, env):
        """a boolean expression used as a value: only without binds"""
        if self.pure_depth:
            return self.pure_cond(e, env)[0]
        try:
            return self.pure_cond(e, env)[0]
        except Impure:
            self.fail(e, "boolean expression that needs a bind (division, math call, stream) used as a value")

    def float_of(self, node, v, env, k):
        """the float an F / Z operand of mixed arithmetic stands for; an unbounded int is converted with CPython's
        range check (`ofZc`: OverflowError), at the point of the operation"""
        if v.ty == "Z" and v.big:
            return self.bind(node, "res", f"ofZc N {paren(self.text(v))}", "F", env, k, "c")
        return k(V("F", self.ftext(v)), env)

    def arith(self, node, op, a, b, env, k):
        a, b = self.numeric(node, a, env), self.numeric(node, b, env)
        if op == "**":
            if a.ty == "Z" and b.ty == "Z":
                self.fail(node, "int ** int")
            return self.bind(node, "res", f"npowop N {self.ftext(a)} {self.ftext(b)}", "F", env, k, "pw")
        if a.ty == "Z" and b.ty == "Z":
            if op == "/":
                self.fail(node, "int / int")
            if a.const is not None and b.const is not None:
                return k(V("Z", const={"+": a.const + b.const, "-": a.const - b.const, "*": a.const * b.const}[op]), env)
            return k(V("Z", f"({self.text(a)} {op} {self.text(b)})%Z", big=a.big or b.big), env)

        def with_a(fa, e1):
            def with_b(fb, e2):
                at, bt = self.text(fa), self.text(fb)
                if op == "/":
                    return self.bind(node, "res", f"{at} /. {bt}", "F", e2, k, "q")
                return k(V("F", f"({at} {op}. {bt})"), e2)
            return self.float_of(node, b, e1, with_b)
        return self.float_of(node, a, env, with_a)

    # ---- comparisons
    CMPOPS = {ast.Lt: "<", ast.Gt: ">", ast.LtE: "<=", ast.GtE: ">=", ast.Eq: "==", ast.NotEq: "!="}

    def cmp(self, node, op, a, b, env):
        if op in (">", ">="):
            a, b, op = b, a, {">": "<", ">=": "<="}[op]
        if a.ty == "P" or b.ty == "P":
            def as_p(v):
                if v.ty == "P":
                    if not self.has_fact(env, v, "float", "num", "int"):
                        self.fail(node, f"parameter {v.tx} compared where the isinstance guards in front do not establish that it is a number")
                    return v.tx
                v = self.numeric(node, v, env)
                return f"(PI {self.text(v)})" if v.ty == "Z" else f"(PF {self.text(v)})"
            x, y = as_p(a), as_p(b)
            t = {"<": f"(p_lt N {x} {y})", "<=": f"(p_le N {x} {y})", "==": f"(p_eq N {x} {y})",
                 "!=": f"(negb (p_eq N {x} {y}))"}[op]
            return V("B", t)
        a, b = self.numeric(node, a, env), self.numeric(node, b, env)
        if a.const is not None and b.const is not None:
            return V("B", const={"<": a.const < b.const, "<=": a.const <= b.const, "==": a.const == b.const,
                                 "!=": a.const != b.const}[op])
        if a.ty == "Z" and b.ty == "Z":
            x, y = self.text(a), self.text(b)
            t = {"<": f"({x} <? {y})%Z", "<=": f"({x} <=? {y})%Z", "==": f"({x} =? {y})%Z", "!=": f"(negb ({x} =? {y})%Z)"}[op]
            return V("B", t)
        x, y = self.ftext(a), self.ftext(b)
        t = {"<": f"({x} <. {y})", "<=": f"({x} <=. {y})", "==": f"(eqb N {x} {y})", "!=": f"(negb (eqb N {x} {y}))"}[op]
        return V("B", t)

    def is_math_call(self, e, name, env):
        return (isinstance(e, ast.Call) and isinstance(e.func, ast.Attribute) and isinstance(e.func.value, ast.Name)
                and e.func.value.id == "math" and "math" not in env.locals and e.func.attr == name)

    def pure_cond(self, e, env):
        """(boolean V, facts when true, facts when false); raises Impure when a bind is needed"""
        if isinstance(e, ast.BoolOp):
            is_and = isinstance(e.op, ast.And)
            acc, facts, cur = None, set(), env
            for x in e.values:
                v, ft, ff = self.pure_cond(x, cur)
                gained = set(ft if is_and else ff)
                if v.const is not None and v.const != is_and:
                    # False in `and` / True in `or` decides; the operands before it are pure
                    return V("B", const=v.const), set(), set()
                facts |= gained
                cur = cur.plus(gained)
                if v.const is None:
                    acc = v if acc is None else V("B", f"({acc.tx} {'&&' if is_and else '||'} {v.tx})")
            if acc is None:
                acc = V("B", const=is_and)
            return acc, (facts if is_and else set()), (set() if is_and else facts)
        if isinstance(e, ast.UnaryOp) and isinstance(e.op, ast.Not):
            v, ft, ff = self.pure_cond(e.operand, env)
            if v.const is not None:
                return V("B", const=not v.const), ff, ft
            return V("B", f"(negb {v.tx})"), ff, ft
        if isinstance(e, ast.Compare):
            vals = [self.pure_expr(x, env) for x in [e.left] + list(e.comparators)]
            parts = []
            for i, o in enumerate(e.ops):
                op = self.CMPOPS.get(type(o))
                if op is None:
                    self.fail(e, f"comparison operator {type(o).__name__}")
                parts.append(self.cmp(e, op, vals[i], vals[i + 1], env))
            if any(p.const is False for p in parts):
                return V("B", const=False), set(), set()
            dyn = [p for p in parts if p.const is None]
            if not dyn:
                return V("B", const=True), set(), set()
            t = dyn[0].tx
            for p in dyn[1:]:
                t = f"({t} && {p.tx})"
            return V("B", t), set(), set()
        if isinstance(e, ast.Call) and isinstance(e.func, ast.Name) and e.func.id == "isinstance" and "isinstance" not in env.locals:
            if len(e.args) != 2 or e.keywords:
                self.fail(e, "isinstance with other than two arguments")
            p = self.pure_expr(e.args[0], env)
            t = e.args[1]
            names = [t] if isinstance(t, ast.Name) else (list(t.elts) if isinstance(t, ast.Tuple) else None)
            if names is None or not all(isinstance(n, ast.Name) for n in names):
                self.fail(e, "isinstance against something else than type names")
            ns = frozenset(n.id for n in names)
            if any(n in env.locals for n in ns):
                self.fail(e, "isinstance against a local name")
            if p.ty == "Stream":
                if ns != {"StreamInterface"} or not self.has_stream_iface:
                    self.fail(e, "isinstance test of the stream against something else than StreamInterface")
                return V("B", p.tx), set(), set()
            if p.ty == "P":
                fn, fact = {frozenset({"float"}): ("is_float", "float"), frozenset({"int"}): ("is_int", "int"),
                            frozenset({"float", "int"}): ("is_num", "num")}.get(ns, (None, None))
                if fn is None:
                    self.fail(e, f"isinstance test `{ast.unparse(e)}` cannot be decided on the model's value universe")
                return V("B", f"({fn} N {p.tx})"), {(p.tx, fact)}, set()
            if p.ty == "Z" and ns == {"int"}:
                return V("B", const=True), set(), set()
            if p.ty == "F" and ns in ({"float"}, {"float", "int"}):
                return V("B", const=True), set(), set()
            self.fail(e, f"isinstance test `{ast.unparse(e)}` on a value of kind {p.ty}")
        if self.is_math_call(e, "isinf", env):
            if len(e.args) != 1 or e.keywords:
                self.fail(e, "math.isinf with other than one argument")
            v = self.numeric(e, self.pure_expr(e.args[0], env), env)
            if v.ty != "F":
                self.fail(e, "math.isinf of an int")
            return V("B", f"(isinf N {self.text(v)})"), set(), set()
        if isinstance(e, (ast.Name, ast.Attribute, ast.Constant)):
            v = self.pure_expr(e, env)
            if v.ty == "B":
                return v, set(), set()
            self.fail(e, f"truth value of a value of kind {v.ty} (only bools are tested)")
        self.fail(e, f"condition {type(e).__name__}")

    def cond(self, e, env, kt, kf):
        def branch(v, env1, ft=(), ff=()):
            if v.const is not None:
                return kt(env1.plus(ft)) if v.const else kf(env1.plus(ff))
            return f"if {v.tx} then\n{ind(blockp(kt(env1.plus(ft))))}\nelse\n{ind(blockp(kf(env1.plus(ff))))}"
        try:
            decided = self.pure_cond(e, env)
        except Impure:
            decided = None
        if decided is not None:
            return branch(decided[0], env, decided[1], decided[2])
        if self.pure_depth:
            raise Impure()
        if isinstance(e, ast.BoolOp):
            first, rest = e.values[0], e.values[1:]
            more = rest[0] if len(rest) == 1 else ast.copy_location(ast.BoolOp(op=e.op, values=rest), e)
            if isinstance(e.op, ast.And):
                return self.cond(first, env, lambda e1: self.cond(more, e1, kt, kf), kf)
            return self.cond(first, env, kt, lambda e1: self.cond(more, e1, kt, kf))
        if isinstance(e, ast.UnaryOp) and isinstance(e.op, ast.Not):
            return self.cond(e.operand, env, kf, kt)
        if isinstance(e, ast.Compare):
            if len(e.ops) != 1:
                self.fail(e, "chained comparison whose operands need a bind")
            op = self.CMPOPS.get(type(e.ops[0]))
            if op is None:
                self.fail(e, f"comparison operator {type(e.ops[0]).__name__}")
            return self.expr(e.left, env, lambda a, e1: self.expr(e.comparators[0], e1,
                                                                    lambda b, e2: branch(self.cmp(e, op, a, b, e2), e2)))
        self.fail(e, f"condition {type(e).__name__} that needs a bind")

    # ---- calls in expressions
    MATH1 = {"log": ("nlog", "l"), "exp": ("nexp", "ex"), "sqrt": ("nsqrt", "sq"), "erf": ("nerf", "er"),
             "gamma": ("ngamma", "gm"), "lgamma": ("nlgamma", "lg")}

    def call(self, e, env, k):
        if e.keywords or any(isinstance(a, ast.Starred) for a in e.args):
            self.fail(e, "keyword / starred arguments")
        f = e.func
        if isinstance(f, ast.Name) and f.id not in env.locals:
            if f.id == "isinstance":
                return k(self.bool_value(e, env), env)
            if f.id == "float" and len(e.args) == 1:
                return self.expr(e.args[0], env, lambda v, e1: k(self.as_float(e, v, e1), e1))
            if f.id == "erf_inv" and len(e.args) == 1:
                if "erf_inv" not in self.utils:
                    self.fail(e, "`erf_inv` is not imported from pydsol.core.utils")
                return self.expr(e.args[0], env, lambda v, e1: self.bind(
                    e, "res", f"nerfinv N {self.ftext(self.numeric(e, v, e1))}", "F", e1, k, "ei"))
            if f.id == "beta" and len(e.args) == 2:
                if "beta" not in self.utils:
                    self.fail(e, "`beta` is not imported from pydsol.core.utils")
                return self.exprs(e.args, env, lambda vs, e1: self.bind(
                    e, "res", "beta_fn N " + " ".join(self.ftext(self.numeric(e, v, e1)) for v in vs), "F", e1, k, "bt"))
            if f.id == "DistGamma" and len(e.args) == 3:
                return self.exprs(e.args, env, lambda vs, e1: self.new_gamma(e, vs, e1, k))
            if f.id in self.funcs:
                # a module-level private helper: its body is translated here
                return self.exprs(e.args, env, lambda vs, e1: self.inline(e, None, self.funcs[f.id], vs, e1, k))
            self.fail(e, f"call of `{f.id}` with {len(e.args)} arguments")
        if isinstance(f, ast.Attribute) and isinstance(f.value, ast.Name) and f.value.id == "math" and "math" not in env.locals:
            if not self.has_math:
                self.fail(e, "`math` is not imported")
            if f.attr in self.MATH1 and len(e.args) == 1:
                fn, stem = self.MATH1[f.attr]
                return self.expr(e.args[0], env, lambda v, e1: self.bind(
                    e, "res", f"{fn} N {self.ftext(self.numeric(e, v, e1))}", "F", e1, k, stem))
            if f.attr == "pow" and len(e.args) == 2:
                return self.exprs(e.args, env, lambda vs, e1: self.bind(
                    e, "res", "npow N " + " ".join(self.ftext(self.numeric(e, v, e1)) for v in vs), "F", e1, k, "pw"))
            if f.attr == "floor" and len(e.args) == 1:
                def fl(v, e1):
                    v = self.numeric(e, v, e1)
                    if v.ty == "Z":
                        return k(v, e1)
                    return self.bind(e, "res", f"nfloor N {self.text(v)}", "Z", e1, k, "fl")
                return self.expr(e.args[0], env, fl)
            if f.attr == "isinf":
                return k(self.bool_value(e, env), env)
            if f.attr == "factorial" and len(e.args) == 1:
                def fa(v, e1):
                    v = self.numeric(e, v, e1)
                    if v.ty != "Z":
                        self.fail(e, "math.factorial of a float")
                    return k(V("Z", f"(zfact (Z.to_nat {self.text(v)}))", big=True), e1)
                return self.expr(e.args[0], env, fa)
            if f.attr == "comb" and len(e.args) == 2:
                def cb(vs, e1):
                    vs = [self.numeric(e, v, e1) for v in vs]
                    if any(v.ty != "Z" for v in vs):
                        self.fail(e, "math.comb of a float")
                    return k(V("Z", f"(zcomb {self.text(vs[0])} {self.text(vs[1])})", big=True), e1)
                return self.exprs(e.args, env, cb)
            self.fail(e, f"math.{f.attr}() with {len(e.args)} arguments")
        if isinstance(f, ast.Attribute) and isinstance(f.value, ast.Attribute) and self.is_self(f.value.value, env):
            inner = f.value.attr
            if inner == "_stream":
                if self.ctx.kind == "ctor":
                    self.fail(e, "stream consumption in a constructor")
                if f.attr == "next_float" and not e.args:
                    return self.bind(e, "M", "next", "F", env, k, "u")
                if f.attr == "next_int" and len(e.args) == 2:
                    def ni(vs, e1):
                        vs = [self.numeric(e, v, e1) for v in vs]
                        if any(v.ty != "Z" for v in vs):
                            self.fail(e, "next_int with a float bound")
                        return self.bind(e, "M", f"next_int N {paren(self.text(vs[0]))} {paren(self.text(vs[1]))}", "Z", e1, k, "i")
                    return self.exprs(e.args, env, ni)
                self.fail(e, f"self._stream.{f.attr}() with {len(e.args)} arguments")
            ft = self.field_type(self.ctx.cls, inner)
            if ft in ("G", "OG") and f.attr == "draw" and not e.args:
                if self.ctx.kind == "ctor":
                    self.fail(e, "draw in a constructor")
                if inner not in env.fields:
                    self.fail(e, f"self.{inner} is not available here")
                self.concrete_push("DistGamma")
                try:
                    sig = self.method("DistGamma", "draw", e)
                finally:
                    self.concrete_pop()
                g = env.fields[inner].tx
                if ft == "G":
                    return self.bind(e, "M", f"{sig['name']} (fst {g}) (snd {g})", "F", env, k, "y")
                gp = self.ctx.fresh("gp")
                # None has no draw(): AttributeError is outside the model's exception universe
                return self.bind(e, "M", f"match {g} with Some {gp} => {sig['name']} (fst {gp}) (snd {gp}) | None => lift (Err Unmodelled) end",
                                 "F", env, k, "y")
            self.fail(e, f"call `{ast.unparse(e)[:60]}`")
        target = None
        after = None
        if isinstance(f, ast.Attribute) and self.is_self(f.value, env):
            target = self.resolve(self.ctx.cls, f.attr)
        elif isinstance(f, ast.Attribute) and isinstance(f.value, ast.Call) and isinstance(f.value.func, ast.Name) \
                and f.value.func.id == "super" and not f.value.args and not f.value.keywords and self.ctx.defstack[-1] is not None:
            after = self.ctx.defstack[-1]
            target = self.resolve(self.ctx.cls, f.attr, after=after)
        if target is not None:
            d, fn = target
            if not isinstance(fn, ast.FunctionDef) or self.is_property(fn):
                self.fail(e, f"{f.attr}() cannot be resolved to a method")
            if f.attr in ("__init__", "_set_stream"):
                self.fail(e, f"value of {f.attr}() used")
            if f.attr in KEPT:
                return self.exprs(e.args, env, lambda vs, e1: self.call_method(e, d, f.attr, vs, e1, k, after))
            # a private helper method: its body is translated here
            return self.exprs(e.args, env, lambda vs, e1: self.inline(e, d, fn, vs, e1, k, after))
        self.fail(e, f"call `{ast.unparse(e)[:60]}`")

    def concrete_push(self, c):
        self._cstack = getattr(self, "_cstack", [])
        self._cstack.append(self.concrete)
        self.concrete = c

    def concrete_pop(self):
        self.concrete = self._cstack.pop()

    def new_gamma(self, node, vs, env, k):
        if vs[0].ty != "Stream":
            self.fail(node, "DistGamma(..) whose first argument is not the stream")
        if self.ctx.kind != "ctor":
            self.fail(node, "DistGamma(..) outside a constructor")
        args = []
        for v in vs[1:]:
            if v.ty == "P":
                args.append(v.tx)
            else:
                v = self.numeric(node, v, env)
                args.append(f"(PI {self.text(v)})" if v.ty == "Z" else f"(PF {self.text(v)})")
        self.concrete_push("DistGamma")
        try:
            self.class_checks("DistGamma")
            sig = self.method("DistGamma", "__init__", node)
        finally:
            self.concrete_pop()
        return self.bind(node, "res", f"rbind ({sig['name']} {vs[0].tx} {' '.join(args)}) gamma_of", "G", env, k, "g")

    def call_method(self, node, defcls, mname, args, env, k, after=None):
        sig = self.method(defcls, mname, node)
        self.ctx.calls.append((mname, after, defcls))
        self.ctx.calls.extend(sig["calls"])
        if len(args) != len(sig["params"]):
            self.fail(node, f"{mname}() called with {len(args)} arguments, it has {len(sig['params'])} parameters")
        fa = []
        for at in sig["field_attrs"]:
            if at not in env.fields:
                self.fail(node, f"{mname}() reads self.{at}, which is not assigned / available here")
            fa.append(paren(self.text(self.coerce_field(node, self.field_type(self.ctx.cls, at), env.fields[at], env, at))))
        ma = []
        if sig["mut"]:
            if self.ctx.mode != "MS":
                self.fail(node, f"{mname}() touches mutable attributes, the calling method was classified as not doing so")
            ma = [paren(self.text(env.mut[a])) for a, _t in self.mutable(self.ctx.cls)]
        pa = []
        for (pn, ty), v in zip(sig["params"], args):
            if ty == "F":
                pa.append(paren(self.text(self.as_float(node, v, env))))
            elif ty == "Z":
                v = self.numeric(node, v, env)
                if v.ty != "Z":
                    self.fail(node, f"float passed for the int parameter {pn}")
                pa.append(paren(self.text(v)))
            else:
                self.fail(node, f"parameter kind {ty}")
        text = " ".join([sig["name"]] + fa + ma + pa)
        return self.bind(node, sig["mode"], text, sig["result"], env, k, "r")

    # ------------------------------------------------------------------ loops
    def counter_loop(self, s, w):
        """`c = 0` followed by `while c < K: ...; c += 1` with c used nowhere else in the loop: (c, K)"""
        if isinstance(s, ast.Assign) and len(s.targets) == 1:
            tg, val = s.targets[0], s.value
        elif isinstance(s, ast.AnnAssign):
            tg, val = s.target, s.value
        else:
            return None
        if not (isinstance(tg, ast.Name) and isinstance(val, ast.Constant) and type(val.value) is int and val.value == 0):
            return None
        c = tg.id
        t = w.test
        if not (isinstance(t, ast.Compare) and len(t.ops) == 1 and isinstance(t.ops[0], ast.Lt) and isinstance(t.left, ast.Name)
                and t.left.id == c and isinstance(t.comparators[0], ast.Constant) and type(t.comparators[0].value) is int):
            return None
        kk = t.comparators[0].value
        if not w.body or w.orelse or kk < 0 or kk > 5000:
            return None
        last = w.body[-1]
        if not (isinstance(last, ast.AugAssign) and isinstance(last.op, ast.Add) and isinstance(last.target, ast.Name)
                and last.target.id == c and isinstance(last.value, ast.Constant) and type(last.value.value) is int and last.value.value == 1):
            return None
        for st in w.body[:-1]:
            for n in ast.walk(st):
                if isinstance(n, ast.Name) and n.id == c:
                    return None
                if isinstance(n, (ast.Break, ast.Continue)):
                    return None
        return c, kk

    STREAM_CALLS = ("next_float", "next_int", "_next_open_float")

    def consumes(self, body):
        """does every iteration consume stream output: a top-level statement of the body with an unconditional stream call"""
        for st in body:
            if isinstance(st, (ast.Assign, ast.AugAssign, ast.AnnAssign, ast.Expr)) and st.value is not None:
                if any(isinstance(n, (ast.BoolOp, ast.IfExp)) for n in ast.walk(st.value)):
                    continue
                for n in ast.walk(st.value):
                    if isinstance(n, ast.Call) and isinstance(n.func, ast.Attribute) and n.func.attr in self.STREAM_CALLS:
                        return True
            if isinstance(st, (ast.Return, ast.Break, ast.Continue, ast.If, ast.While, ast.For, ast.Raise)):
                return False
        return False

    def assigned_names(self, body):
        out = set()
        for st in body:
            for n in ast.walk(st):
                if isinstance(n, ast.Name) and isinstance(n.ctx, ast.Store):
                    out.add(n.id)
        return out

    def loop(self, s, env, k, counter=None):
        ctx = self.ctx
        if ctx.kind == "ctor" or ctx.mode == "res":
            self.fail(s, "loop in a constructor / in a method that consumes no stream output")
        if self.pure_depth:
            raise Impure()
        if s.orelse:
            self.fail(s, "loop with an else clause")
        for n in ast.walk(s):
            if n is not s and isinstance(n, (ast.While, ast.For)):
                self.fail(n, "nested loop")
        if self.loopstack:
            self.fail(s, "a loop reached inside the body of another loop (through an inlined private method); "
                         "methods with loops that are called from loops must be in KEPT")
        body = list(s.body)
        kind = None
        init_fuel = None
        env = env.clone()
        if counter is not None:
            kind, body = "count", body[:-1]
            cname_, kk = counter
            init_fuel = f"{kk}%nat"
            env.locals.pop(cname_, None)
        elif isinstance(s, ast.For):
            if not (isinstance(s.target, ast.Name)):
                self.fail(s, "for target that is not a name")
            if any(isinstance(n, ast.Name) and n.id == s.target.id for st in body for n in ast.walk(st)):
                self.fail(s, "for loop whose variable is used in the body")
            it = s.iter
            if not (isinstance(it, ast.Call) and isinstance(it.func, ast.Name) and it.func.id == "range" and "range" not in env.locals
                    and len(it.args) == 1 and not it.keywords):
                self.fail(s, "for loop over something else than range(e)")
            if any(isinstance(n, ast.Break) for st in body for n in ast.walk(st)):
                self.fail(s, "break in a for loop")
            nv = self.numeric(s, self.pure_expr_or_fail(it.args[0], env), env)
            if nv.ty != "Z":
                self.fail(s, "range() of a float")
            kind = "count"
            if nv.const is not None:
                if not 0 <= nv.const <= 5000:
                    self.fail(s, f"range({nv.const}): iteration count outside 0..5000")
                init_fuel = f"{nv.const}%nat"
            else:
                init_fuel = f"(Z.to_nat {self.text(nv)})"
            env.locals.pop(s.target.id, None)
        else:
            if not self.consumes(body):
                self.fail(s, "while loop whose body does not start by consuming stream output on every iteration "
                             "(its fuel cannot be tied to the recorded stream output)")
            try:
                c0, _ft, _ff = self.pure_cond(s.test, env)
            except Impure:
                self.fail(s, "while test that needs a bind")
            kind = "dowhile" if c0.const is True else "while"
            if c0.const is False:
                return k(env)
        assigned = self.assigned_names(body)
        # parameters of the recursive definition: record fields, mutable attributes, locals in scope
        params, args = [], []
        e_in = env.clone()
        for at, v in env.fields.items():
            params.append((v.tx, GTYPE[v.ty]))
            args.append(("field", at))
        for at, t in (self.mutable(ctx.cls) if ctx.mode == "MS" else []):
            nm = ctx.fresh("m" + at)
            params.append((nm, GTYPE[t]))
            args.append(("mut", at))
            e_in.mut[at] = V(t, nm)
        for nme, v in env.locals.items():
            if v.const is not None and nme not in assigned:
                continue
            if v.ty not in ("F", "Z", "B"):
                self.fail(s, f"local `{nme}` of kind {v.ty} live across a loop")
            if True:
                nm = v.tx if (v.const is None and re.fullmatch(r"[A-Za-z_][A-Za-z0-9_']*", v.tx)
                              and v.tx not in [p[0] for p in params]) else ctx.fresh(nme)
                params.append((nm, GTYPE[v.ty]))
                args.append(("local", nme))
                e_in.locals[nme] = V(v.ty, nm)
        ctx.nloops += 1
        name = f"gen_{ctx.defcls}_{ctx.mname}_loop{ctx.nloops}"
        fuel, fuel1 = ("cnt", "cnt'") if kind == "count" else ("fuel", "fuel'")

        def argtext(e_x, which):
            out = []
            for kind_, key in args:
                if kind_ == "field":
                    out.append(e_x.fields[key].tx)
                elif kind_ == "mut":
                    out.append(paren(self.text(e_x.mut[key])))
                else:
                    if key not in e_x.locals:
                        self.fail(s, f"local `{key}` is not assigned on every path through the loop")
                    out.append(paren(self.text(e_x.locals[key])))
            return " ".join([name, which] + out)

        def k_after(e_x):
            # the statements after the loop are outside it
            saved, self.loopstack = self.loopstack, self.loopstack[:-1] if in_loop[0] else self.loopstack
            was, in_loop[0] = in_loop[0], False
            try:
                return k(e_x)
            finally:
                self.loopstack, in_loop[0] = saved, was

        def k_again(e_x):
            return argtext(e_x, fuel1)

        def k_test(e_x):
            return self.cond(s.test, e_x, k_again, k_after)

        in_loop = [False]
        if kind == "count":
            zero_case = k_after(e_in)
        else:
            zero_case = self.emit_unmodelled(e_in)
        # (continuation of `break`, continuation of `continue`)
        if counter is not None:
            self.loopstack.append((None, None))
        elif kind == "count":
            self.loopstack.append((None, k_again))
        elif kind == "while":
            self.loopstack.append((k_after, k_again))
        else:
            self.loopstack.append((k_after, k_test))
        in_loop[0] = True
        try:
            if kind == "count":
                step = self.block(body, e_in, k_again)
            elif kind == "while":
                step = self.cond(s.test, e_in, lambda e1: self.block(body, e1, k_again), k_after)
            else:
                step = self.block(body, e_in, k_test)
        finally:
            self.loopstack.pop()
            in_loop[0] = False
        ptxt = "".join(f" ({n} : {t})" for n, t in params)
        src = f"(* loop of {ctx.defcls}.{ctx.mname}  -- distributions.py lines {s.lineno}-{s.end_lineno}"
        src += {"count": "; recursion on the number of iterations left", "while": "; fuel tied to the recorded stream output",
                "dowhile": "; test statically true on entry: do-while form; fuel tied to the recorded stream output"}[kind] + " *)"
        ctx.loops.append(f"{src}\nFixpoint {name} ({fuel} : nat){ptxt} {{struct {fuel}}} : @@RT@@ :=\n"
                         f"  match {fuel} with\n  | O =>\n{ind(zero_case, 6)}\n  | S {fuel1} =>\n{ind(step, 6)}\n  end.")
        if kind == "count":
            return argtext(env, init_fuel)
        f0 = ctx.fresh("fuel")
        return f"with_fuel (fun {f0} => {argtext(env, f0)})"

    def pure_expr_or_fail(self, e, env):
        try:
            return self.pure_expr(e, env)
        except Impure:
            self.fail(e, "expression that needs a bind where a pure one is required")


def translate(text: str, keep_going: bool = False):
    """returns (translator, failures, done); without keep_going the first unsupported construct is raised.
    With keep_going a (class, group) that cannot be translated -- and what is built on it -- is left out and
    reported in failures; the run still ends with a non-zero exit status."""
    tr = Translator(text)
    failures, failed = [], set()
    done = []          # (class, group, [methods])
    for cname in ORDER:
        for group, ms in groups_of(cname).items():
            snap = (len(tr.defs), dict(tr.sigs), len(tr.translated))
            try:
                for b in BUILT_ON.get(cname, []) + ([cname] if group == "density" else []):
                    if (b, "draw") in failed:
                        raise Unsupported(tr.classes.get(cname, tr.tree),
                                          f"{cname} ({group}) is built on the constructor / draw of {b}, which could not be translated")
                tr.class_checks(cname)
                tr.concrete = cname
                for m in ms:
                    d, f = tr.resolve(cname, m)
                    if not isinstance(f, ast.FunctionDef):
                        raise Unsupported(tr.classes[cname], f"method {cname}.{m} not found")
                    tr.method(d, m)
                done.append((cname, group, ms))
            except Unsupported as exc:
                if not keep_going:
                    raise
                del tr.defs[snap[0]:]
                tr.sigs = snap[1]
                del tr.translated[snap[2]:]
                failed.add((cname, group))
                failures.append({"class": cname, "group": group, "methods": ms, "line": exc.lineno, "construct": exc.what,
                                 "error": str(exc)})
    return tr, failures, done


def render(tr: Translator, src_sha: str) -> str:
    out = ["(* GENERATED by translator/py2gallina_dist.py from src/pydsol/core/distributions.py -- do not edit.",
           f"   sha1 of the source file (line ends normalised): {src_sha}",
           "   Shallow embedding of the constructors, draw methods and density functions over Dist.Num;",
           "   see the translator for the subset and its meaning.  Dist/GenAgree.v proves every definition",
           "   equal to the hand-written model of Dist/Draw.v and Dist/Density.v. *)",
           "From Coq Require Import ZArith List Bool.",
           "From PV Require Import Dist.Num Dist.Draw Dist.Density.",
           "Import ListNotations.",
           "Local Open Scope m_scope.",
           PRELUDE,
           "Section Gen.",
           "  Variable N : num.",
           "  Notation F := (T N).",
           '  Notation "a +. b" := (add N a b) (at level 50, left associativity).',
           '  Notation "a -. b" := (sub N a b) (at level 50, left associativity).',
           '  Notation "a *. b" := (mul N a b) (at level 40, left associativity).',
           '  Notation "a /. b" := (div N a b) (at level 40, left associativity).',
           '  Notation "-. a" := (neg N a) (at level 35, right associativity).',
           '  Notation "a <=. b" := (leb N a b) (at level 70, no associativity).',
           '  Notation "a <. b" := (ltb N a b) (at level 70, no associativity).',
           '  Notation "x <-- r ;; f" := (rbind r (fun x => f)) (at level 61, r at next level, right associativity).',
           ""]
    for d in tr.defs:
        out.append(ind(d))
        out.append("")
    out.append("End Gen.")
    return "\n".join(out) + "\n"


def main(argv):
    out_dir = None
    keep_going = False
    i = 0
    while i < len(argv):
        if argv[i] == "--out" and i + 1 < len(argv):
            out_dir = Path(argv[i + 1])
            i += 2
        elif argv[i] == "--keep-going":
            keep_going = True
            i += 1
        else:
            print(f"usage: {sys.argv[0]} [--out DIR [--keep-going]]", file=sys.stderr)
            return 64
    keep_going = keep_going and out_dir is not None

    def report_failure(info):
        if out_dir is not None:
            out_dir.mkdir(parents=True, exist_ok=True)
            (out_dir / "Gen_Dist.json").write_text(json.dumps(info, indent=1) + "\n")

    try:
        raw = SRC.read_bytes()
    except OSError as exc:
        print(f"py2gallina_dist: cannot read {SRC}: {exc}", file=sys.stderr)
        report_failure({"ok": False, "repo": str(REPO), "source": str(SRC), "methods": [], "translated": [],
                        "failures": [{"class": None, "group": None, "line": 0, "construct": "unreadable source", "error": str(exc)}]})
        return 2
    text = raw.decode("utf-8", errors="replace").replace("\r\n", "\n").replace("\r", "\n")
    src_sha = hashlib.sha1(text.encode("utf-8")).hexdigest()
    base = {"repo": str(REPO), "source": str(SRC), "source_sha1": src_sha}
    try:
        tr, failures, done = translate(text, keep_going)
    except Unsupported as exc:
        print(f"py2gallina_dist: TRANSLATION FAILED\n{exc}", file=sys.stderr)
        report_failure({**base, "ok": False, "methods": [], "translated": [],
                        "failures": [{"class": None, "group": None, "line": exc.lineno, "construct": exc.what, "error": str(exc)}]})
        return 2
    except SyntaxError as exc:
        msg = f"{SRC}:{exc.lineno}: unsupported construct: syntax error: {exc.msg}"
        print(f"py2gallina_dist: TRANSLATION FAILED\n{msg}", file=sys.stderr)
        report_failure({**base, "ok": False, "methods": [], "translated": [],
                        "failures": [{"class": None, "group": None, "line": exc.lineno or 0, "construct": "syntax error", "error": msg}]})
        return 2
    gen = render(tr, src_sha)
    target = (out_dir or (VERIF / "coq" / "Dist")) / "Gen_Dist.v"
    target.parent.mkdir(parents=True, exist_ok=True)
    if not target.exists() or target.read_text() != gen:
        target.write_text(gen)
    h = hashlib.sha1()
    for r in sorted(tr.translated, key=lambda r: (r["lines"][0], r["definition"])):
        h.update((r["definition"] + ":" + r["sha1"] + "\n").encode())
    info = {**base, "ok": not failures, "translated_text_sha1": h.hexdigest(),
            "generated_sha1": hashlib.sha1(gen.encode()).hexdigest(), "methods": tr.translated,
            "translated": [{"class": c, "group": g, "methods": ms} for c, g, ms in done], "failures": failures}
    if out_dir is not None:
        (out_dir / "Gen_Dist.json").write_text(json.dumps(info, indent=1) + "\n")
    for f in failures:
        print(f"py2gallina_dist: TRANSLATION FAILED (class {f['class']}, {f['group']} left out)\n{f['error']}", file=sys.stderr)
    print(f"py2gallina_dist: {len(tr.translated)} definitions from {SRC} -> {target} "
          f"(translated text sha1 {info['translated_text_sha1'][:12]})")
    return 2 if failures else 0


if __name__ == "__main__":
    sys.exit(main(sys.argv[1:]))
