#!/usr/bin/env python3
"""py2gallina_streams.py -- regenerate the Gallina text of the stream / seed-updater models from the source.

Reads  $VERIF_REPO/src/pydsol/core/streams.py  (default /repo) with Python's `ast` module -- the module
under test is never imported; CR LF line ends are normalised -- and translates the bodies of the methods
the hand-written models Streams/Stream.v, Streams/Info.v (C12) and Streams/Seeds.v (C13) transcribe (see CLASSES) into
Gallina definitions  gen_<Class>_<method>  over the models' own types: the abstract generator
(`raw : Z -> nat -> Z`, state `gstate` = (seed, position)), the wrapper state `stream`, the name / entry /
`res` types of the seed model.  coq/Streams/GenAgree.v then proves every generated definition equal to
the hand-written model function, for all states and arguments.

The translation is a shallow embedding and FAIL-CLOSED: every construct that is not in the subset below
ends the run with exit status 2 and a message `file:line: unsupported construct: ...`.  Nothing is
skipped or guessed.

Supported subset (anything else fails)
  statements   docstring; `name = e`, `name: T = e`, `name op= e`; `self._x = e`, `self._x: T = e`
               (attributes of the model state only); `if / elif / else`; `raise Exc("..")`; `return`,
               `return e`; `pass`; calls as statements (below);
               `for c in <str>:` with a body of assignments to locals (one loop-carried local) -- a
               fold_left over the code points; `for k in <dict>.keys():` / `for k in <dict>:` whose body
               only calls methods on `k` / `<dict>[k]` -- a fold over the association list in insertion
               order that stops at the first exception (py_for_entries)
  expressions  int literals, float literals that are multiples of 2^-53, None, bool literals; parameters,
               locals, `self._x`; `+ - *`, unary `-`, `& >> <<`, `// %` (constant non-zero divisor), `**`
               (constants) on ints; `int * float` / `float * int` (binary64, see below); comparisons of two
               ints or two floats; `not`; `x is None` / `x is not None`; `isinstance(p, T)` with T one of
               int, str, StreamInterface on a parameter; `int(f)`, `math.floor(f)`, `len(list)`,
               `ord(c)`, `round(time.time() * c)`; `list[i]` where guards in front established
               0 <= i < len(list); `dict[k]` (KeyError when absent), `dict.get(k)`
  calls        `self._random.random() / .seed(x) / .getstate() / .setstate(s)` (the model's generator
               operations g_random / g_seed / g_getstate / g_setstate), `Random()` (a generator in an
               unspecified state, a parameter env_newgen_n of the definition), `time.time()` (only inside
               `round(time.time() * c)`: an integer supplied by the environment, a parameter env_clock_n),
               `time.sleep(c)` (no effect on the model state); `stream.set_seed(x)`,
               `stream.original_seed()`, `stream.seed()` on a parameter established to be a stream;
               `self.m(..)` of a translated method of the same class (resolved statically);
               `self.update_seed(..)` in StreamUpdater (abstract: a function parameter self_update_seed --
               whatever the subclass defines); `<updater attribute>.update_seed(id, stream, r)` (an
               updater object is a function name -> original seed -> r -> res: py_call_updater)
               `C(args)` for a translated class C with a record state (MersenneTwister(10)) inside a class whose model has
               a store of objects: a blank object goes through the generated __init__ and is appended to the store
               (py_alloc), the value is its index; `self._d = {}`, `self._d[k] = obj`, `self._d[k]` for a dict attribute
               name -> stream object (info_set / info_get, KeyError when absent); str literals (their code points);
               `super().__init__(..)` of a translated base class inside __init__
  helpers      a call `f(args)` of a module-level function bound exactly once, or `self._h(args)` of a method of the same
               class that is not part of the translated interface, is translated AT THE CALL SITE: the arguments are
               evaluated first (left to right) and bound to the parameters in a scope of their own, `return` in the
               helper continues after the call with its value, what the helper's guards established about the
               arguments holds afterwards; refused: recursion, *args / **kwargs / defaults / keyword arguments,
               decorated or nested functions, `self` in a module-level helper, more than 4 levels
  control flow the translation is in continuation-passing style, so guard clause + early return and nested if / else give
               the same Gallina text up to the nesting of the tests; `a and b` / `a or b` (short circuit, operands bools),
               `x if c else y`, `continue`, `if` inside the body of a loop over a str, isinstance with a tuple of classes
               that denotes one class of the universe, locals holding `d.get(k)` (`is None` then tells what d holds),
               names for the current item inside a loop over a dict, "..." + "..." in exception messages;
               the extra parameters of a definition (clock, Random() state) are ordered by kind and source position,
               not by the order of traversal
  defaults     the default value of a parameter is part of the translation (gen_<C>_<m>__default_<p>): it is evaluated
               once, at definition time, so only the immutable `None` is accepted -- an object built there would be
               shared by every call that omits the argument
Meaning given to them
  * every definition answers a pair (frame, Ret value | Exc kind): the frame is the state the method may
    change -- the wrapper state for MersenneTwister (assignments to `self._x` become let-bound new versions
    of the field, the record is rebuilt where needed), the `stream` argument for update_seed, the `streams`
    dict for update_seeds; at a raise the frame holds the changes made so far;
  * a parameter ranges over the model's value universe (PARAMS): it is used as an int / str / stream only
    where an `isinstance` guard in front has established that it is one; a bound of next_int that is not a
    number makes the first arithmetic operation on it raise TypeError;
  * a float is a binary64 number n / 2^53 given by its numerator n; `int * float` converts the int
    (round to nearest even, OverflowError beyond the float range) and rounds the product (py_mul_int_float,
    in the Z arithmetic of Streams/Stream.v); math.floor / int() are exact;
  * Python ints are Z: `&` is Z.land, `>> c` is Z.shiftr, `//` and `%` are Z.div / Z.modulo (floor, sign
    of the divisor -- as in Python).

Trusted (joins the trusted base of C12 / C13): this file -- the subset semantics above -- and the tables
CLASSES / PARAMS that say which record field stands for which attribute and which universe a parameter
ranges over.

usage: py2gallina_streams.py [--out DIR [--keep-going]]
       default DIR: <verif>/coq/Streams, file Gen_Streams.v; with --out also Gen_Streams.json (methods,
       source line ranges, hashes, failures) is written.  --keep-going (checks only): a class with an
       unsupported construct is left out of Gen_Streams.v and named in Gen_Streams.json, so that the tie of
       the OTHER classes can still be checked; the exit status is non-zero all the same.
"""
from __future__ import annotations

import ast
import hashlib
import json
import os
import sys
import warnings
from fractions import Fraction
from pathlib import Path

VERIF = Path(__file__).resolve().parent.parent
REPO = Path(os.environ.get("VERIF_REPO", "/repo"))
SRC = REPO / "src" / "pydsol" / "core" / "streams.py"
GEN_NAME = "Gen_Streams"

TWO53 = 2 ** 53

# ---------------------------------------------------------------------------------------------- tables
# frame: what the method may change.  ("self", state type, constructor, [(attribute, projection, kind)],
# [extra projections copied unchanged]) or ("param", parameter name)
CLASSES = {
    "MersenneTwister": {
        "module": "MT", "bases": ["StreamInterface"],
        "frame": ("self", "stream", "mkS", [("_random", "gen", "G"), ("_seed", "cur", "Z"), ("_original_seed", "orig", "Z")],
                  ["saved"]),
        "self_ro": None,
        "methods": ["set_seed", "__init__", "next_bool", "next_float", "next_int", "seed", "original_seed", "reset",
                    "save_state", "restore_state"],
        "abstract": [], "must_not_define": [],
    },
    "SimpleStreamUpdater": {
        "module": "Upd", "bases": ["StreamUpdater"], "frame": ("param", "stream"), "self_ro": None,
        "methods": ["update_seed"], "abstract": [], "must_not_define": ["update_seeds", "__init__"],
    },
    "StreamSeedUpdater": {
        "module": "Upd", "bases": ["StreamUpdater"], "frame": ("param", "stream"),
        "self_ro": ("ssu", [("_stream_seeds", "ssu_seeds", "Tbl"), ("_fallback_stream_updater", "ssu_fallback", "Upd")]),
        "methods": ["update_seed"], "abstract": [], "must_not_define": ["update_seeds"],
    },
    "StreamUpdater": {
        "module": "Upd", "bases": ["ABC"], "frame": ("param", "streams"), "self_ro": None,
        "methods": ["update_seeds"], "abstract": ["update_seed"], "must_not_define": ["__init__"],
    },
    # frame "wself": the store of stream objects (objects are indices of it) and the attributes of self
    "StreamInformation": {
        "module": "Inf", "bases": [], "frame": ("wself", "istate", "mkI", [("_streams", "i_streams", "Info")], []),
        "self_ro": None, "super": None,
        "methods": ["__init__", "add_stream", "get_stream"], "abstract": [], "must_not_define": [],
    },
    "StreamSeedInformation": {
        "module": "Inf", "bases": ["StreamInformation"],
        "frame": ("wself", "sistate", "mkSIS", [("_seeds", "sis_seeds", "Tbl")], []),
        "self_ro": None, "super": ("StreamInformation", "sis_base"),
        "methods": ["__init__"], "abstract": [], "must_not_define": ["add_stream", "get_stream", "get_streams"],
    },
}
MODULES = {"MT": "Stream", "Upd": "Seeds", "Inf": "Stream Info"}
MODULE_ORDER = ("MT", "Upd", "Inf")
EXN = {"MT": {"TypeError": "ETypeError", "OverflowError": "EOverflow"},
       "Upd": {"TypeError": "ETypeError", "ValueError": "EValueError", "KeyError": "EKeyError"},
       "Inf": {"TypeError": "ITypeError", "KeyError": "IKeyError"}}

# the model's value universe of every parameter, in order
PARAMS = {
    ("MersenneTwister", "__init__"): [("seed", "SeedArg")],
    ("MersenneTwister", "next_bool"): [], ("MersenneTwister", "next_float"): [],
    ("MersenneTwister", "next_int"): [("lo", "Bound"), ("hi", "Bound")],
    ("MersenneTwister", "seed"): [], ("MersenneTwister", "original_seed"): [],
    ("MersenneTwister", "set_seed"): [("seed", "Z")],
    ("MersenneTwister", "reset"): [], ("MersenneTwister", "save_state"): [],
    ("MersenneTwister", "restore_state"): [("state", "StateArg")],
    ("SimpleStreamUpdater", "update_seed"): [("stream_id", "Key"), ("stream", "Stream"), ("replication_nr", "Repl")],
    ("StreamSeedUpdater", "update_seed"): [("stream_id", "Key"), ("stream", "Stream"), ("replication_nr", "Repl")],
    ("StreamUpdater", "update_seed"): [("key", "Key"), ("stream", "Stream"), ("replication_nr", "Repl")],
    ("StreamUpdater", "update_seeds"): [("streams", "Dict"), ("replication_nr", "Repl")],
    ("StreamInformation", "__init__"): [("default_stream", "ObjArg")],
    ("StreamInformation", "add_stream"): [("stream_id", "Key"), ("stream", "ObjArg")],
    ("StreamInformation", "get_stream"): [("stream_id", "Key")],
    ("StreamSeedInformation", "__init__"): [("default_stream", "ObjArg")],
}
# a parameter default is evaluated ONCE, at definition time: only the immutable `None` is modelled
DEFAULT_NONE = {"SeedArg": "SeedNone", "ObjArg": "SNone"}
ENV_STEMS = ["env_clock", "env_newgen", "env_blank"]
GTYPE = {"Z": "Z", "B": "bool", "F": "Z", "G": "gstate", "GS": "gstate", "None": "unit",
         "SeedArg": "pyseed", "Bound": "pybound", "StateArg": "pystate",
         "Key": "pykey", "Stream": "pystream", "Repl": "repl", "Dict": "list entry",
         "ObjArg": "sarg", "Info": "info", "Ref": "nat", "Tbl": "list (name * list Z)"}
# isinstance(p, T) on the universes
ISINSTANCE = {("SeedArg", "int"): "py_seed_is_int", ("Key", "str"): "py_key_is_str",
              ("Stream", "StreamInterface"): "py_stream_is_stream", ("Repl", "int"): "py_repl_is_int",
              ("ObjArg", "StreamInterface"): "py_obj_is_stream"}
BUILTINS_USED = ("isinstance", "int", "str", "len", "ord", "round", "float", "bool", "super", "abstractmethod")

PRELUDE = {
    "MT": r"""
(* ---- fixed prelude: Python values and the generator object on the universe of Streams/Stream.v ---- *)
Inductive pyret (A : Type) : Type := Ret (v : A) | Exc (e : exn).
Arguments Ret {A} v.
Arguments Exc {A} e.

(* __init__(seed): an int, None, or anything else *)
Inductive pyseed := SeedInt (z : Z) | SeedNone | SeedOther.
Definition py_seed_is_none (x : pyseed) : bool := match x with SeedNone => true | _ => false end.
Definition py_seed_is_int (x : pyseed) : bool := match x with SeedInt _ => true | _ => false end.
(* x as an int, used only where isinstance(x, int) has been established *)
Definition py_seed_int (x : pyseed) : Z := match x with SeedInt z => z | _ => 0 end.
(* a bound of next_int: an int, or a value on which an arithmetic operator raises TypeError (None, a str under `-`) *)
Inductive pybound := BInt (z : Z) | BNotNumber.
Definition py_bound_int (x : pybound) : option Z := match x with BInt z => Some z | BNotNumber => None end.
(* restore_state(state): an object handed out by getstate(), or one that setstate refuses *)
Inductive pystate := StObj (g : gstate) | StGarbage.

(* random.Random: state = (seed, position); random() answers the float raw(seed, position) / 2^53 *)
Definition g_random (raw : Z -> nat -> Z) (g : gstate) : Z * gstate :=
  (raw (gseed g) (gpos g), mkG (gseed g) (S (gpos g))).
Definition g_seed (g : gstate) (x : Z) : gstate := mkG x 0.
Definition g_getstate (g : gstate) : gstate := g.
Definition g_setstate (g : gstate) (st : pystate) : pyret gstate :=
  match st with StObj g' => Ret g' | StGarbage => Exc EBadState end.

(* binary64 numbers n / 2^53, given by the numerator n *)
(* int * float: the int is converted (nearest even; OverflowError beyond the float range), the product rounded *)
Definition py_mul_int_float (w n : Z) : pyret Z :=
  let f := rne53s w in
  if float_limit <=? Z.abs f then Exc EOverflow else Ret (rne53s (f * n)).
Definition py_floor (n : Z) : Z := n / two53.          (* math.floor *)
Definition py_trunc (n : Z) : Z := Z.quot n two53.     (* int() *)
""",
    "Upd": r"""
(* ---- fixed prelude: Python values on the universe of Streams/Seeds.v ---- *)
Inductive pyret (A : Type) : Type := Ret (v : A) | Exc (e : exn).
Arguments Ret {A} v.
Arguments Exc {A} e.

(* a dict key / stream id: a str (its code points), or not a str *)
Inductive pykey := KeyStr (n : name) | KeyOther.
Definition py_key_is_str (k : pykey) : bool := match k with KeyStr _ => true | KeyOther => false end.
Definition py_key_name (k : pykey) : name := match k with KeyStr n => n | KeyOther => [] end.
Definition py_str_chars (n : name) : list Z := n.      (* iterating a str; ord(c) is the element *)
(* a stream argument: a StreamInterface object (original seed, current seed), or something else *)
Inductive pystream := StreamObj (orig cur : Z) | StreamOther.
Definition py_stream_is_stream (s : pystream) : bool := match s with StreamObj _ _ => true | StreamOther => false end.
Definition py_stream_orig (s : pystream) : Z := match s with StreamObj o _ => o | StreamOther => 0 end.
Definition py_stream_cur (s : pystream) : Z := match s with StreamObj _ c => c | StreamOther => 0 end.
Definition py_stream_set_seed (s : pystream) (v : Z) : pystream :=
  match s with StreamObj o _ => StreamObj o v | StreamOther => StreamOther end.
(* a replication number: an int, or not (isinstance(r, int)) *)
Definition py_repl_is_int (r : repl) : bool := match r with RInt _ => true | RIllTyped => false end.
Definition py_repl_int (r : repl) : Z := match r with RInt z => z | RIllTyped => 0 end.

(* the attributes of a StreamSeedUpdater; an updater object is the function name -> original seed -> r -> res *)
Record ssu := mkSSU { ssu_seeds : list (name * list Z); ssu_fallback : name -> Z -> Z -> res }.
(* u.update_seed(id, stream, r) for an updater object u, on arguments of the right types *)
Definition py_call_updater (u : name -> Z -> Z -> res) (n : name) (s : pystream) (r : Z) : pystream * pyret unit :=
  match u n (py_stream_orig s) r with
  | Val v => (py_stream_set_seed s v, Ret tt)
  | Raise x => (s, Exc x)
  end.

(* a dict of streams in insertion order is the list of its entries *)
Definition key_of (e : entry) : pykey := match e_kind e with KBadKey => KeyOther | _ => KeyStr (e_name e) end.
Definition stream_of (e : entry) : pystream :=
  match e_kind e with KBadStream => StreamOther | _ => StreamObj (e_orig e) (e_cur e) end.
Definition with_stream (e : entry) (s : pystream) : entry :=
  match s with StreamObj o c => mkE (e_kind e) (e_name e) o c | StreamOther => e end.
(* for k in d.keys(): body -- in insertion order, ended by the first exception *)
Fixpoint py_for_entries (body : entry -> entry * pyret unit) (l : list entry) : list entry * pyret unit :=
  match l with
  | [] => ([], Ret tt)
  | e :: t =>
      match body e with
      | (e', Exc x) => (e' :: t, Exc x)
      | (e', Ret _) => let '(t', r) := py_for_entries body t in (e' :: t', r)
      end
  end.
""",
}


PRELUDE["Inf"] = r"""
(* ---- fixed prelude: Python values on the universe of Streams/Info.v; objects are indices of the store ---- *)
Inductive pyret (A : Type) : Type := Ret (v : A) | Exc (e : iexn).
Arguments Ret {A} v.
Arguments Exc {A} e.

Definition pykey := karg.
Definition py_key_is_str (k : pykey) : bool := match k with KStr _ => true | KOther => false end.
Definition py_key_name (k : pykey) : name := match k with KStr n => n | KOther => [] end.
(* a stream argument: None, a StreamInterface object (its index in the store), anything else *)
Definition py_obj_is_none (a : sarg) : bool := match a with SNone => true | _ => false end.
Definition py_obj_is_stream (a : sarg) : bool := match a with SObj _ => true | _ => false end.
Definition py_obj_ref (a : sarg) : nat := match a with SObj i => i | _ => O end.
(* a new object: appended to the store, known by its index *)
Definition py_alloc (w : list stream) (o : stream) : list stream * nat := (w ++ [o], length w).
(* an exception out of a MersenneTwister method, seen from here *)
Definition py_exn_of_mt (e : Stream.exn) : iexn := match e with Stream.ETypeError => ITypeError | _ => IOther end.
(* the attributes of the two classes *)
Record istate := mkI { i_streams : info }.
Record sistate := mkSIS { sis_base : istate; sis_seeds : list (name * list Z) }.
"""


class Unsupported(Exception):
    def __init__(self, node, what):
        self.lineno = getattr(node, "lineno", 0) or 0
        self.what = what
        super().__init__(f"{SRC}:{self.lineno}: unsupported construct: {what}")


class V:
    """a translated value: kind + Gallina text (atomic or parenthesised) or a constant; `extra` carries
    what a later construct needs to know (the list a len() is of, the dict / key of a .get())"""
    __slots__ = ("ty", "tx", "const", "extra")

    def __init__(self, ty, tx=None, const=None, extra=None):
        self.ty, self.tx, self.const, self.extra = ty, tx, const, extra


def ind(text: str, n: int = 2) -> str:
    pad = " " * n
    return "\n".join(pad + l if l else l for l in text.split("\n"))


def ident(s: str) -> str:
    return "".join(c if (c.isascii() and (c.isalnum() or c == "_")) else "_" for c in s)


def zlit(c: int) -> str:
    return f"{c}" if c >= 0 else f"({c})"


class Env:
    def __init__(self):
        self.fields = {}          # attribute -> V   (frame "self")
        self.ro = {}              # read-only attributes of self -> V
        self.locals = {}          # name -> V
        self.facts = frozenset()
        self.base = "s"           # frame "self": the record the current field versions came from
        self.dirty = False
        self.memo = {}            # (dict text, key text) -> list variable known to be the value
        self.entry = None         # inside a loop over a dict: (loop variable, entry variable, current entry text, dict name)
        self.store = "w"          # frame "wself": the current version of the store of objects
        self.sup = None           # frame "wself" of a subclass: the inherited part of self

    def clone(self):
        e = Env()
        e.fields, e.ro, e.locals = dict(self.fields), dict(self.ro), dict(self.locals)
        e.facts, e.base, e.dirty, e.memo, e.entry = self.facts, self.base, self.dirty, dict(self.memo), self.entry
        e.store, e.sup = self.store, self.sup
        e.noself = getattr(self, "noself", False)
        return e

    def plus(self, facts):
        if not facts:
            return self
        e = self.clone()
        e.facts = self.facts | frozenset(facts)
        return e


class Ctx:
    def __init__(self, cls, name, node):
        self.cls, self.name, self.node = cls, name, node
        self.module = CLASSES[cls]["module"]
        self.counter = {}
        self.ret = set()
        self.binders = []          # extra binders in order of first use: (name, type)
        self.envs = {}
        self.env_pos = {}
        self.pure = 0              # > 0: inside the body of a fold over a str
        self.loop = 0              # > 0: inside a loop body (no return, no assignment to self)
        self.returns = []          # inlined helper calls in progress: (helper name, handler(node, value, env), loop depth at the call)
        self.loop_ends = []        # loops in progress: handler(env) for `continue` / the end of the body
        self.inlined = []          # helpers whose bodies were translated at a call site: (name, first line, last line, sha1)

    def fresh(self, stem):
        stem = ident(stem)
        self.counter[stem] = self.counter.get(stem, 0) + 1
        return f"{stem}_{self.counter[stem]}"

    def env_binder(self, node, stem, ty):
        """one parameter per place in the source where the environment is read (a continuation translated twice reuses it)"""
        key = (stem, node.lineno, node.col_offset)
        if key not in self.envs:
            self.envs[key] = self.fresh(stem)
            self.need(self.envs[key], ty)
            self.env_pos[self.envs[key]] = (ENV_STEMS.index(stem) if stem in ENV_STEMS else len(ENV_STEMS), stem, node.lineno, node.col_offset)
        return self.envs[key]

    def ordered_binders(self):
        """the extra parameters in an order that does not depend on the order in which the body was traversed: raw and
        function parameters first, then what the environment supplies by kind and place in the source"""
        first = [b for b in self.binders if b[0] not in self.env_pos]
        rest = sorted((b for b in self.binders if b[0] in self.env_pos), key=lambda b: self.env_pos[b[0]])
        return first + rest

    def need(self, name, ty):
        if (name, ty) not in self.binders:
            self.binders.append((name, ty))


class Translator:
    def __init__(self, text: str):
        with warnings.catch_warnings():
            warnings.simplefilter("ignore")
            self.tree = ast.parse(text)
        self.lines = text.split("\n")
        self.classes = {}
        self.defs = {m: [] for m in MODULE_ORDER}
        self.sigs = {}
        self.stack = []
        self.ctx = None
        self.translated = []
        self.module_checks()

    def fail(self, node, what):
        raise Unsupported(node, what)

    # ------------------------------------------------------------------ module level
    def module_checks(self):
        self.imports = {}
        self.functions = {}        # module-level functions bound exactly once (candidates for inlining at their call sites)
        self.rebound = set()       # module-level functions whose name is bound more than once: a call of them is not resolved
        defs, nbind = {}, {}
        for st in self.tree.body:
            names = []
            if isinstance(st, ast.Import):
                for a in st.names:
                    bound = a.asname or a.name.split(".")[0]
                    names.append(bound)
                    if a.asname is None and a.name in ("math", "time"):
                        self.imports[a.name] = a.name
                    elif bound in ("math", "time", "Random"):
                        self.fail(st, f"the name `{bound}` is bound to something else than the module / class of that name")
            elif isinstance(st, ast.ImportFrom):
                for a in st.names:
                    bound = a.asname or a.name
                    names.append(bound)
                    if a.name == "*":
                        self.fail(st, "star import (could rebind math / time / Random / builtins)")
                    if bound == "Random":
                        if st.module == "random" and a.name == "Random" and st.level == 0:
                            self.imports["Random"] = "random.Random"
                        else:
                            self.fail(st, "the name `Random` is not random.Random")
                    elif bound in ("ABC", "abstractmethod"):
                        if st.module == "abc" and a.name == bound and st.level == 0:
                            self.imports[bound] = "abc." + bound
                        else:
                            self.fail(st, f"the name `{bound}` is not abc.{bound}")
                    elif bound in ("math", "time"):
                        self.fail(st, f"the name `{bound}` is bound to something else than the module of that name")
            elif isinstance(st, (ast.FunctionDef, ast.AsyncFunctionDef, ast.ClassDef)):
                names.append(st.name)
                if isinstance(st, ast.ClassDef):
                    if st.name in self.classes:
                        self.fail(st, f"class {st.name} defined twice")
                    self.classes[st.name] = st
                else:
                    defs.setdefault(st.name, st)
            elif isinstance(st, (ast.Assign, ast.AnnAssign, ast.AugAssign)):
                tg = st.targets if isinstance(st, ast.Assign) else [st.target]
                for t in tg:
                    for n in ast.walk(t):
                        if isinstance(n, ast.Name):
                            names.append(n.id)
            elif isinstance(st, ast.Expr) and isinstance(st.value, ast.Constant):
                pass
            else:
                self.fail(st, f"module-level statement {type(st).__name__}")
            for n in names:
                special = ("math", "time", "Random", "ABC", "abstractmethod")
                if (n in BUILTINS_USED and n not in special) or \
                        (n in special and not isinstance(st, (ast.Import, ast.ImportFrom))):
                    self.fail(st, f"module rebinds the name `{n}`")
                if n in CLASSES and not isinstance(st, ast.ClassDef):
                    self.fail(st, f"module rebinds the class name `{n}`")
                nbind[n] = nbind.get(n, 0) + 1
        for n, st in defs.items():
            if nbind.get(n, 0) == 1:
                self.functions[n] = st
            else:
                self.rebound.add(n)

    def class_checks(self, cname):
        spec = CLASSES[cname]
        c = self.classes.get(cname)
        if c is None:
            raise Unsupported(self.tree, f"class {cname} not found")
        bases = [ast.unparse(b) for b in c.bases]
        if bases != spec["bases"] or c.keywords:
            self.fail(c, f"class {cname} has bases {bases}, the model assumes {spec['bases']}")
        if c.decorator_list:
            self.fail(c, f"decorated class {cname}")
        for b in spec["bases"]:
            if b == "ABC":
                if self.imports.get("ABC") != "abc.ABC":
                    self.fail(c, "`ABC` is not imported from abc")
            elif b not in self.classes:
                self.fail(c, f"base class {b} is not defined in the module")
        for m in spec["must_not_define"]:
            f = self.find_method(cname, m, allow_decorated=True)
            if f is not None:
                self.fail(f, f"{cname} defines {m} (the model takes it from the base class)")
        for m in spec["abstract"]:
            f = self.find_method(cname, m, allow_decorated=True)
            if f is None:
                self.fail(c, f"abstract method {cname}.{m} not found")
            decos = [ast.unparse(d) for d in f.decorator_list]
            if decos != ["abstractmethod"] or self.imports.get("abstractmethod") != "abc.abstractmethod":
                self.fail(f, f"{cname}.{m} is no longer an @abstractmethod (decorators {decos})")
            body = self.strip_doc(f.body)
            if any(not isinstance(s, ast.Pass) for s in body):
                self.fail(f, f"abstract method {cname}.{m} has a body")
            want = [p for p, _ in PARAMS[(cname, m)]]
            got = [a.arg for a in f.args.args[1:]]
            if len(got) != len(want):
                self.fail(f, f"abstract method {cname}.{m} has parameters {got}, the model assumes {want}")

    @staticmethod
    def strip_doc(body):
        body = list(body)
        if body and isinstance(body[0], ast.Expr) and isinstance(body[0].value, ast.Constant) \
                and isinstance(body[0].value.value, str):
            body = body[1:]
        return body

    def find_method(self, cname, mname, allow_decorated=False):
        c = self.classes[cname]
        found = [f for f in c.body if isinstance(f, (ast.FunctionDef, ast.AsyncFunctionDef)) and f.name == mname]
        if len(found) > 1:
            self.fail(found[1], f"{cname}.{mname} defined twice")
        if not found:
            for st in c.body:
                if isinstance(st, (ast.Assign, ast.AnnAssign)) and any(
                        isinstance(n, ast.Name) and n.id == mname for n in ast.walk(st)):
                    self.fail(st, f"{cname}.{mname} is bound by an assignment in the class body")
            return None
        f = found[0]
        if isinstance(f, ast.AsyncFunctionDef):
            self.fail(f, "async method")
        if f.decorator_list and not allow_decorated:
            self.fail(f, f"decorated method {cname}.{mname}")
        return f

    # ------------------------------------------------------------------ methods
    def method(self, cname, mname, node=None):
        key = (cname, mname)
        if key in self.sigs:
            return self.sigs[key]
        if key in self.stack:
            self.fail(node, f"recursion in {cname}.{mname}")
        if key not in PARAMS:
            self.fail(node or self.classes[cname], f"{cname}.{mname} is not a method the model knows")
        f = self.find_method(cname, mname)
        if f is None:
            self.fail(node or self.classes[cname], f"method {cname}.{mname} not found")
        a = f.args
        if a.vararg or a.kwarg or a.kwonlyargs or a.posonlyargs:
            self.fail(f, f"{cname}.{mname}: *args / **kwargs / keyword-only / positional-only parameters")
        if not a.args or a.args[0].arg != "self":
            self.fail(f, f"{cname}.{mname}: first parameter is not `self`")
        declared = PARAMS[key]
        got = [p.arg for p in a.args[1:]]
        if got != [p for p, _ in declared]:
            self.fail(f, f"{cname}.{mname} has parameters {got}, the model assumes {[p for p, _ in declared]}")
        ndef = len(a.defaults)
        defaults = []
        for i, (pn, ty) in enumerate(declared):
            di = i - (len(declared) - ndef)
            if di >= 0:
                d = a.defaults[di]
                if not (ty in DEFAULT_NONE and isinstance(d, ast.Constant) and d.value is None):
                    self.fail(d, f"default value `{ast.unparse(d)[:40]}` of `{pn}`: a default is evaluated once, at definition time -- an "
                                 "object built there is shared by every call that omits the argument; only `None` is modelled")
                defaults.append((pn, ty, DEFAULT_NONE[ty]))
        for n in ast.walk(f):
            if isinstance(n, (ast.FunctionDef, ast.AsyncFunctionDef, ast.Lambda, ast.ClassDef)) and n is not f:
                self.fail(n, "nested function / class / lambda")
            if isinstance(n, (ast.Yield, ast.YieldFrom, ast.Await, ast.Global, ast.Nonlocal)):
                self.fail(n, type(n).__name__)
        spec = CLASSES[cname]
        ctx = Ctx(cname, mname, f)
        saved_ctx = self.ctx
        self.ctx = ctx
        self.stack.append(key)
        try:
            env = Env()
            frame = spec["frame"]
            if frame[0] in ("self", "wself"):
                for attr, proj, ty in frame[3]:
                    env.fields[attr] = V(ty, f"({proj} s)")
            if frame[0] == "wself" and spec.get("super"):
                env.sup = f"({spec['super'][1]} s)"
            if spec["self_ro"]:
                for attr, proj, ty in spec["self_ro"][1]:
                    env.ro[attr] = V(ty, f"({proj} s)")
            for pn, ty in declared:
                env.locals[pn] = V(ty, "p_" + ident(pn))
            if frame[0] == "param" and frame[1] not in env.locals:
                self.fail(f, f"{cname}.{mname} has no parameter `{frame[1]}`")
            body = self.strip_doc(f.body)
            text = self.block(body, env, lambda e: self.ret(f, V("None", "tt"), e))
            kinds = ctx.ret
            if len(kinds) != 1:
                self.fail(f, f"{cname}.{mname} returns values of different kinds {sorted(kinds)}")
            rkind = next(iter(kinds))
            name = f"gen_{cname}_{mname}"
            ftype = frame[1] if frame[0] == "self" else (f"(list stream * {frame[1]})" if frame[0] == "wself"
                                                         else GTYPE[dict(declared)[frame[1]]])
            ctx.binders = ctx.ordered_binders()
            bl = [f"({b} : {t})" for b, t in ctx.binders]
            if frame[0] == "self":
                bl.append(f"(s : {frame[1]})")
            elif frame[0] == "wself":
                bl.append(f"(w : list stream) (s : {frame[1]})")
            elif spec["self_ro"]:
                bl.append(f"(s : {spec['self_ro'][0]})")
            bl += [f"(p_{ident(pn)} : {GTYPE[ty]})" for pn, ty in declared]
            binders = " ".join(bl)
            rty = f"{ftype} * pyret {GTYPE[rkind]}"
            header = f"(* {cname}.{mname}  -- streams.py lines {f.lineno}-{f.end_lineno}; result kind {rkind} *)"
            for pn, ty, val in defaults:
                self.defs[spec["module"]].append(
                    f"(* {cname}.{mname}: the default of `{pn}`, evaluated at definition time  -- streams.py line {f.lineno} *)\n"
                    f"Definition {name}__default_{ident(pn)} : {GTYPE[ty]} := {val}.")
            self.defs[spec["module"]].append(f"{header}\nDefinition {name} {binders.strip()} : {rty} :=\n{ind(text)}.")
            sig = {"name": name, "params": declared, "binders": list(ctx.binders), "ret": rkind, "cls": cname,
                   "module": spec["module"], "defaults": [f"{name}__default_{ident(pn)}" for pn, _t, _v in defaults]}
            self.sigs[key] = sig
            src_lines = self.lines[f.lineno - 1:f.end_lineno] + [h[3] for h in ctx.inlined]
            self.translated.append({"class": cname, "method": mname, "definition": name, "module": spec["module"],
                                    "lines": [f.lineno, f.end_lineno], "result_kind": rkind,
                                    "inlined_helpers": [{"helper": h[0], "lines": [h[1], h[2]]} for h in ctx.inlined],
                                    "defaults": {pn: val for pn, _t, val in defaults},
                                    "sha1": hashlib.sha1("\n".join(src_lines).encode("utf-8")).hexdigest()})
            return sig
        finally:
            self.stack.pop()
            self.ctx = saved_ctx

    # ------------------------------------------------------------------ frame / result
    def frame_term(self, env):
        if env.entry is not None:
            return env.entry[2]
        frame = CLASSES[self.ctx.cls]["frame"]
        if frame[0] == "param":
            return env.locals[frame[1]].tx
        if not env.dirty:
            me = env.base
        else:
            parts = ([env.sup] if CLASSES[self.ctx.cls].get("super") else []) + \
                [env.fields[a].tx for a, _p, _t in frame[3]] + [f"({x} {env.base})" for x in frame[4]]
            me = "(" + frame[2] + " " + " ".join(parts) + ")"
        return f"({env.store}, {me})" if frame[0] == "wself" else me

    def raise_(self, node, env, kind):
        """kind: a constructor of the module's exn or a bound Gallina variable"""
        self.effect(node, "raise")
        return f"({self.frame_term(env)}, Exc {kind})"

    def ret(self, node, v, env):
        if self.ctx.loop:
            # the end of a loop body: handled by the loop itself (never reached through `return`)
            self.fail(node, "return inside a loop body")
        if v.ty == "None":
            self.ctx.ret.add("None")
            return f"({self.frame_term(env)}, Ret tt)"
        if v.ty in ("Z", "F", "B", "GS", "Ref"):
            self.ctx.ret.add(v.ty)
            return f"({self.frame_term(env)}, Ret {self.text(v)})"
        self.fail(node, f"return of a value of kind {v.ty}")

    def effect(self, node, what):
        if self.ctx.pure:
            self.fail(node, f"{what} inside the body of a loop over the characters of a str (only assignments of pure values are folded)")

    def text(self, v):
        if v.const is not None:
            if v.ty == "B":
                return "true" if v.const else "false"
            return zlit(v.const)
        return v.tx

    # ------------------------------------------------------------------ statements
    def block(self, stmts, env, k):
        if not stmts:
            return k(env)
        s, rest = stmts[0], stmts[1:]
        return self.stmt(s, env, lambda e2: self.block(rest, e2, k))

    def stmt(self, s, env, k):
        if isinstance(s, ast.Pass):
            return k(env)
        if isinstance(s, ast.Raise):
            return self.raise_(s, env, self.exc_name(s))
        if isinstance(s, ast.Return):
            if self.ctx.returns and self.ctx.loop == self.ctx.returns[-1][2]:
                handler = self.ctx.returns[-1][1]        # the end of an inlined helper: the call's continuation
                if s.value is None:
                    return handler(s, V("None", "tt"), env)
                return self.expr(s.value, env, lambda v, e2: handler(s, v, e2))
            if self.ctx.loop:
                self.fail(s, "return inside a loop body")
            if s.value is None:
                return self.ret(s, V("None", "tt"), env)
            return self.expr(s.value, env, lambda v, e2: self.ret(s, v, e2))
        if isinstance(s, ast.Continue):
            if not self.ctx.loop_ends or (self.ctx.returns and self.ctx.returns[-1][3] == len(self.ctx.loop_ends)):
                self.fail(s, "continue outside a translated loop")
            return self.ctx.loop_ends[-1](env)
        if isinstance(s, ast.Assign):
            if len(s.targets) != 1:
                self.fail(s, "multiple assignment targets")
            if isinstance(s.targets[0], ast.Subscript):
                return self.expr(s.value, env, lambda v, e2: self.store_item(s, s.targets[0], v, e2, k))
            return self.expr(s.value, env, lambda v, e2: self.assign(s, s.targets[0], v, e2, k))
        if isinstance(s, ast.AnnAssign):
            if s.value is None:
                self.fail(s, "annotation without a value")
            for n in ast.walk(s.annotation):
                if not isinstance(n, (ast.Name, ast.Subscript, ast.Tuple, ast.Load, ast.Attribute, ast.Constant)):
                    self.fail(s, "annotation that is more than a type name")
            return self.expr(s.value, env, lambda v, e2: self.assign(s, s.target, v, e2, k))
        if isinstance(s, ast.AugAssign):
            if isinstance(s.target, ast.Attribute):
                load = ast.copy_location(ast.Attribute(value=s.target.value, attr=s.target.attr, ctx=ast.Load()), s.target)
            elif isinstance(s.target, ast.Name):
                load = ast.copy_location(ast.Name(id=s.target.id, ctx=ast.Load()), s.target)
            else:
                self.fail(s, f"augmented assignment to {type(s.target).__name__}")
            e = ast.copy_location(ast.BinOp(left=load, op=s.op, right=s.value), s)
            return self.expr(e, env, lambda v, e2: self.assign(s, s.target, v, e2, k))
        if isinstance(s, ast.If):
            return self.cond(s.test, env,
                             lambda e1: self.block(s.body, e1, k),
                             lambda e1: self.block(s.orelse, e1, k))
        if isinstance(s, ast.For):
            return self.for_(s, env, k)
        if isinstance(s, ast.Expr):
            if isinstance(s.value, ast.Constant) and isinstance(s.value.value, str):
                return k(env)
            if isinstance(s.value, ast.Call):
                return self.expr(s.value, env, lambda v, e2: k(e2))
            self.fail(s, f"expression statement {type(s.value).__name__}")
        self.fail(s, f"statement {type(s).__name__}")

    def store_item(self, node, target, v, env, k):
        """self._d[key] = value  for a dict attribute of the model state (name -> object)"""
        t = target.value
        if not (isinstance(t, ast.Attribute) and isinstance(t.value, ast.Name) and t.value.id == "self" and "self" not in env.locals
                and t.attr in env.fields and env.fields[t.attr].ty == "Info"):
            self.fail(node, f"item assignment to `{ast.unparse(target.value)[:40]}` (only a dict attribute name -> stream of self)")
        if isinstance(target.slice, (ast.Slice, ast.Tuple)):
            self.fail(node, "slice / tuple subscript")
        if self.ctx.loop:
            self.fail(node, "item assignment inside a loop body")
        ref = self.as_ref(node, v, env)

        def with_key(key, e2):
            nm = self.as_name(node, key, e2)
            d = e2.fields[t.attr]
            nv = self.ctx.fresh("f" + t.attr)
            e3 = e2.clone()
            e3.fields[t.attr] = V("Info", nv)
            e3.dirty = True
            return f"let {nv} := info_set {d.tx} {nm.tx} {ref.tx} in\n{k(e3)}"
        return self.expr(target.slice, env, with_key)

    def as_ref(self, node, v, env):
        if v.ty == "Ref":
            return v
        if v.ty == "ObjArg":
            if (v.tx, "inst") in env.facts:
                return V("Ref", f"(py_obj_ref {v.tx})")
            self.fail(node, f"parameter {v.tx[2:]} used as a stream object without an isinstance guard in front")
        self.fail(node, f"value of kind {v.ty} stored where a stream object is expected")

    def exc_name(self, s):
        e = s.exc
        if s.cause is not None or e is None:
            self.fail(s, "raise without exception / raise ... from")
        if isinstance(e, ast.Call) and isinstance(e.func, ast.Name) and not e.keywords:
            def harmless_text(a):
                if isinstance(a, ast.Constant) and isinstance(a.value, str):
                    return True
                if isinstance(a, ast.JoinedStr) and all(
                        isinstance(p, ast.Constant) or (isinstance(p, ast.FormattedValue) and isinstance(p.value, ast.Name)
                                                         and p.format_spec is None and p.conversion == -1)
                        for p in a.values):
                    return True       # formatting a name with str() is taken not to raise
                if isinstance(a, ast.BinOp) and isinstance(a.op, ast.Add):
                    return harmless_text(a.left) and harmless_text(a.right)      # "..." + "..."
                return False
            for a in e.args:
                if not harmless_text(a):
                    self.fail(a, "exception argument that is not a string literal")
            nm = e.func.id
        elif isinstance(e, ast.Name):
            nm = e.id
        else:
            self.fail(s, "raise of something else than `Exc(..)`")
        table = EXN[self.ctx.module]
        if nm not in table:
            self.fail(s, f"raise {nm} (the model knows {', '.join(table)})")
        return table[nm]

    def assign(self, node, target, v, env, k):
        if isinstance(target, ast.Attribute):
            if not (isinstance(target.value, ast.Name) and target.value.id == "self" and "self" not in env.locals):
                self.fail(node, "assignment to an attribute of something else than self")
            if self.ctx.loop:
                self.fail(node, "assignment to an attribute of self inside a loop body")
            frame = CLASSES[self.ctx.cls]["frame"]
            ft = {a: t for a, _p, t in frame[3]}.get(target.attr) if frame[0] in ("self", "wself") else None
            if ft is None:
                self.fail(node, f"assignment to attribute self.{target.attr}, which the model state does not have (or only reads)")
            if ft == "Z":
                v = self.as_int(node, v, env)
            if ft in ("Info", "Tbl") and v.ty == "EmptyDict":
                v = V(ft, "[]")
            if v.ty != ft:
                self.fail(node, f"value of kind {v.ty} stored in self.{target.attr} (kind {ft})")
            e2 = env.clone()
            e2.dirty = True
            if v.const is None and (v.tx.isidentifier() or v.tx == "[]"):
                e2.fields[target.attr] = v
                return k(e2)
            nm = self.ctx.fresh("f" + target.attr)
            e2.fields[target.attr] = V(ft, nm)
            return f"let {nm} := {self.text(v)} in\n{k(e2)}"
        if isinstance(target, ast.Name):
            if target.id == "self":
                self.fail(node, "assignment to self")
            frame = CLASSES[self.ctx.cls]["frame"]
            if frame[0] == "param" and target.id == frame[1]:
                self.fail(node, f"assignment to the parameter `{target.id}` (the object the method changes)")
            if env.entry is not None and target.id in (env.entry[0], env.entry[3]):
                self.fail(node, f"assignment to `{target.id}` inside the loop over it")
            if v.ty in ("SeedArg", "Repl", "Key"):
                # a parameter copied into a local: keep what the guards established, as a value of the plain kind
                if v.ty == "Key":
                    v = self.as_name(node, v, env)
                else:
                    v = self.as_int(node, v, env)
            if v.ty in ("EStream", "EKey") and env.entry is not None:
                e2 = env.clone()                # another name for the current item of the loop (followed when the item changes)
                e2.locals[target.id] = v
                return k(e2)
            if v.ty not in ("Z", "F", "B", "Str", "L", "GS", "None", "OptL", "Ref"):
                self.fail(node, f"value of kind {v.ty} assigned to a local")
            e2 = env.clone()
            if v.const is not None or v.tx.isidentifier() or v.ty == "OptL":
                e2.locals[target.id] = v          # (a dict lookup is kept as it is: `x is None` then tells what the dict holds)
                return k(e2)
            nm = self.ctx.fresh("v_" + target.id)
            e2.locals[target.id] = V(v.ty, nm, extra=v.extra)
            return f"let {nm} := {v.tx} in\n{k(e2)}"
        self.fail(node, f"assignment target {type(target).__name__}")

    # ------------------------------------------------------------------ for loops
    def for_(self, s, env, k):
        if s.orelse:
            self.fail(s, "for ... else")
        if not isinstance(s.target, ast.Name):
            self.fail(s, "loop target that is not a plain name")
        if self.ctx.loop or self.ctx.pure:
            self.fail(s, "nested loop")
        it = s.iter
        # ---- over a dict of streams: `for k in d.keys()` / `for k in d`
        dname = None
        if isinstance(it, ast.Name) and it.id in env.locals and env.locals[it.id].ty == "Dict":
            dname = it.id
        elif isinstance(it, ast.Call) and isinstance(it.func, ast.Attribute) and it.func.attr == "keys" and not it.args \
                and not it.keywords and isinstance(it.func.value, ast.Name) and it.func.value.id in env.locals \
                and env.locals[it.func.value.id].ty == "Dict":
            dname = it.func.value.id
        if dname is not None:
            return self.for_entries(s, dname, env, k)
        # ---- over the characters of a str
        return self.expr(it, env, lambda v, e2: self.for_chars(s, v, e2, k))

    def assigned_names(self, stmts):
        out = []
        for st in stmts:
            for n in ast.walk(st):
                if isinstance(n, ast.Name) and isinstance(n.ctx, ast.Store) and n.id not in out:
                    out.append(n.id)
        return out

    def for_chars(self, s, it, env, k):
        if it.ty == "Key":
            it = self.as_name(s, it, env)
        if it.ty != "Str":
            self.fail(s, f"loop over a value of kind {it.ty} (only a str or a dict of streams is iterated)")
        def check_body(stmts):
            for st in stmts:
                if isinstance(st, ast.If):
                    check_body(st.body)
                    check_body(st.orelse)
                    continue
                if not isinstance(st, (ast.Assign, ast.AnnAssign, ast.AugAssign, ast.Pass, ast.Continue)):
                    self.fail(st, f"statement {type(st).__name__} in the body of a loop over the characters of a str")
                tg = st.targets if isinstance(st, ast.Assign) else ([st.target] if isinstance(st, (ast.AnnAssign, ast.AugAssign)) else [])
                for t in tg:
                    if not isinstance(t, ast.Name):
                        self.fail(st, "assignment to something else than a local in the body of a loop over a str")
        check_body(s.body)
        names = self.assigned_names(s.body)
        if s.target.id in names:
            self.fail(s, "the loop variable is assigned in the loop body")
        carried = [n for n in names if n in env.locals]
        if len(carried) != 1:
            self.fail(s, f"a loop over a str with {len(carried)} loop-carried locals {carried} (exactly one is folded)")
        cname = carried[0]
        init = env.locals[cname]
        if init.ty not in ("Z", "B"):
            self.fail(s, f"loop-carried local `{cname}` of kind {init.ty}")
        acc, ch = self.ctx.fresh("a_" + cname), self.ctx.fresh("c_" + s.target.id)
        body_env = env.clone()
        body_env.locals[cname] = V(init.ty, acc)
        body_env.locals[s.target.id] = V("Char", ch)

        def done(e):
            v = e.locals[cname]
            if v.ty != init.ty:
                self.fail(s, f"loop-carried local `{cname}` changes kind from {init.ty} to {v.ty}")
            return self.text(v)
        self.ctx.pure += 1
        self.ctx.loop_ends.append(done)
        try:
            body = self.block(s.body, body_env, done)
        finally:
            self.ctx.pure -= 1
            self.ctx.loop_ends.pop()
        res = self.ctx.fresh("v_" + cname)
        e2 = env.clone()
        e2.locals[cname] = V(init.ty, res)
        for n in names + [s.target.id]:
            if n != cname:
                e2.locals.pop(n, None)          # bound only if the loop ran: not available afterwards
        gty = GTYPE[init.ty]
        return (f"let {res} :=\n"
                f"  fold_left (fun ({acc} : {gty}) ({ch} : Z) =>\n{ind(body, 6)})\n"
                f"    (py_str_chars {it.tx}) {self.text(init)} in\n{k(e2)}")

    def for_entries(self, s, dname, env, k):
        self.effect(s, "loop over a dict")
        frame = CLASSES[self.ctx.cls]["frame"]
        if not (frame[0] == "param" and frame[1] == dname):
            self.fail(s, f"loop over the dict `{dname}`, which is not the object the method changes")
        names = [n for n in self.assigned_names(s.body) if n != s.target.id]
        carried = [n for n in names if n in env.locals]
        if carried:
            self.fail(s, f"assignment to {carried} (bound before the loop) in the body of a loop over a dict of streams: "
                         "a loop-carried local is not folded there")
        ev = self.ctx.fresh("e")
        body_env = env.clone()
        body_env.locals[s.target.id] = V("EKey", f"(key_of {ev})", extra=ev)
        body_env.entry = (s.target.id, ev, ev, dname)
        self.ctx.loop += 1
        self.ctx.loop_ends.append(lambda e: f"({e.entry[2]}, Ret tt)")
        try:
            body = self.block(s.body, body_env, lambda e: f"({e.entry[2]}, Ret tt)")
        finally:
            self.ctx.loop -= 1
            self.ctx.loop_ends.pop()
        d1, r1, x1 = self.ctx.fresh("d"), self.ctx.fresh("r"), self.ctx.fresh("x")
        e2 = env.clone()
        e2.locals[dname] = V("Dict", d1)
        for n in names + [s.target.id]:
            e2.locals.pop(n, None)              # bound only if the loop ran: not available afterwards
        return (f"let '({d1}, {r1}) :=\n"
                f"  py_for_entries (fun {ev} : entry =>\n{ind(body, 6)})\n"
                f"    {env.locals[dname].tx} in\n"
                f"match {r1} with\n| Ret _ =>\n{ind(k(e2))}\n| Exc {x1} => {self.raise_(s, e2, x1)}\nend")

    # ------------------------------------------------------------------ coercions
    def as_int(self, node, v, env):
        if v.ty == "Z":
            return v
        if v.ty == "Repl":
            if (v.tx, "inst") in env.facts:
                return V("Z", f"(py_repl_int {v.tx})")
            self.fail(node, f"parameter {v.tx[2:]} used as an int without an isinstance guard in front")
        if v.ty == "SeedArg":
            if (v.tx, "inst") in env.facts:
                return V("Z", f"(py_seed_int {v.tx})")
            self.fail(node, f"parameter {v.tx[2:]} used as an int without an isinstance guard in front")
        if v.ty == "B":
            self.fail(node, "a bool used as a number")
        self.fail(node, f"value of kind {v.ty} used as an int")

    def as_name(self, node, v, env):
        if v.ty == "Str":
            return v
        if v.ty == "Key":
            if (v.tx, "inst") in env.facts:
                return V("Str", f"(py_key_name {v.tx})")
            self.fail(node, f"parameter {v.tx[2:]} used as a str without an isinstance guard in front")
        self.fail(node, f"value of kind {v.ty} used as a str")

    def as_stream(self, node, v, env):
        if v.ty == "Stream" and (v.tx, "inst") in env.facts:
            return v
        if v.ty == "Stream":
            self.fail(node, "a stream argument used as a stream without an isinstance guard in front")
        self.fail(node, f"value of kind {v.ty} used as a stream")

    def with_bound(self, node, v, env, k):
        """a bound of next_int used in arithmetic: TypeError unless it is an int"""
        if v.ty != "Bound":
            return k(v, env)
        self.effect(node, "arithmetic on an unchecked argument")
        z = self.ctx.fresh("z")
        e2 = env.clone()
        for n, w in env.locals.items():
            if w.ty == "Bound" and w.tx == v.tx:
                e2.locals[n] = V("Z", z)
        return (f"match py_bound_int {v.tx} with\n| None => {self.raise_(node, env, EXN[self.ctx.module]['TypeError'])}\n"
                f"| Some {z} =>\n{ind(k(V('Z', z), e2))}\nend")

    def resolved(self, v, before, after):
        """an unchecked argument read before another operand established that it is an int"""
        if v.ty == "Bound":
            for n, w in before.locals.items():
                if w.ty == "Bound" and w.tx == v.tx and n in after.locals and after.locals[n].ty == "Z":
                    return after.locals[n]
        return v

    # ------------------------------------------------------------------ expressions (CPS; k(value, env))
    def exprs(self, es, env, k, acc=()):
        if not es:
            return k(list(acc), env)
        return self.expr(es[0], env, lambda v, e2: self.exprs(es[1:], e2, k, acc + (v,)))

    def expr(self, e, env, k):
        if isinstance(e, ast.Constant):
            c = e.value
            if c is None:
                return k(V("None", "tt"), env)
            if isinstance(c, bool):
                return k(V("B", const=c), env)
            if isinstance(c, int):
                return k(V("Z", const=c), env)
            if isinstance(c, str):
                return k(V("Str", "[" + "; ".join(str(ord(ch)) for ch in c) + "]" if c else "(@nil Z)"), env)
            if isinstance(c, float):
                if c != c or c in (float("inf"), float("-inf")):
                    self.fail(e, f"float literal {c!r}")
                n = Fraction(c) * TWO53
                if n.denominator != 1:
                    self.fail(e, f"float literal {c!r} is not a multiple of 2^-53")
                return k(V("F", const=int(n)), env)
            self.fail(e, f"literal {c!r}")
        if isinstance(e, ast.Name):
            if e.id in env.locals:
                return k(env.locals[e.id], env)
            self.fail(e, f"name `{e.id}` (not a parameter or a local assigned on every path before)")
        if isinstance(e, ast.Attribute):
            if isinstance(e.value, ast.Name) and e.value.id == "self" and getattr(env, "noself", False):
                self.fail(e, "`self` inside a module-level helper")
            if isinstance(e.value, ast.Name) and e.value.id == "self" and "self" not in env.locals:
                if e.attr in env.fields:
                    return k(env.fields[e.attr], env)
                if e.attr in env.ro:
                    return k(env.ro[e.attr], env)
                self.fail(e, f"attribute self.{e.attr}, which the model state does not have")
            self.fail(e, f"attribute access `{ast.unparse(e)[:50]}`")
        if isinstance(e, ast.UnaryOp):
            if isinstance(e.op, ast.Not):
                return self.bool_value(e, env, lambda v, ft, ff, e2: k(v, e2))
            if isinstance(e.op, (ast.USub, ast.UAdd)):
                neg = isinstance(e.op, ast.USub)

                def un(v, e2):
                    def go(v, e3):
                        if v.ty not in ("Z", "F"):
                            v = self.as_int(e, v, e3)
                        if not neg:
                            return k(v, e3)
                        if v.const is not None:
                            return k(V(v.ty, const=-v.const), e3)
                        return k(V(v.ty, f"(- {v.tx})"), e3)
                    return self.with_bound(e, v, e2, go)
                return self.expr(e.operand, env, un)
            self.fail(e, f"unary operator {type(e.op).__name__}")
        if isinstance(e, ast.BinOp):
            return self.expr(e.left, env, lambda a, e1: self.expr(e.right, e1, lambda b, e2: self.arith(e, a, b, e2, k)))
        if isinstance(e, (ast.Compare, ast.BoolOp)) or (isinstance(e, ast.Call) and isinstance(e.func, ast.Name)
                                                        and e.func.id == "isinstance" and "isinstance" not in env.locals):
            return self.bool_value(e, env, lambda v, ft, ff, e2: k(v, e2))
        if isinstance(e, ast.IfExp):
            # a if c else b: c first, then only the chosen one (the rest of the statement is translated once per branch)
            return self.cond(e.test, env, lambda e1: self.expr(e.body, e1, k), lambda e1: self.expr(e.orelse, e1, k))
        if isinstance(e, ast.Dict):
            if e.keys:
                self.fail(e, "dict literal that is not empty")
            return k(V("EmptyDict"), env)
        if isinstance(e, ast.Subscript):
            return self.subscript(e, env, k)
        if isinstance(e, ast.Call):
            return self.call(e, env, k)
        self.fail(e, f"expression {type(e).__name__}")

    OPS = {ast.Add: "+", ast.Sub: "-", ast.Mult: "*", ast.BitAnd: "&", ast.RShift: ">>", ast.LShift: "<<",
           ast.FloorDiv: "//", ast.Mod: "%", ast.Pow: "**"}

    def arith(self, node, a, b, env, k):
        op = self.OPS.get(type(node.op))
        if op is None:
            self.fail(node, f"binary operator {type(node.op).__name__}")
        if a.ty == "EnvF" or b.ty == "EnvF":
            o = b if a.ty == "EnvF" else a
            if op == "*" and o.ty == "Z" and o.const is not None:
                return k(V("EnvF"), env)
            self.fail(node, "arithmetic on time.time() other than multiplication by an int literal")
        # operands that are unchecked arguments: both were evaluated (names), the operation raises TypeError

        def with_a(a2, e1):
            return self.with_bound(node, self.resolved(b, env, e1), e1, lambda b2, e2: self.arith2(node, op, a2, b2, e2, k))
        return self.with_bound(node, a, env, with_a)

    def arith2(self, node, op, a, b, env, k):
        if a.ty == "F" or b.ty == "F":
            if op != "*":
                self.fail(node, f"float arithmetic `{op}` (only int * float is modelled)")
            f, i = (a, b) if a.ty == "F" else (b, a)
            if i.ty == "F":
                self.fail(node, "float * float")
            i = self.as_int(node, i, env)
            self.effect(node, "int * float")
            x, kk = self.ctx.fresh("x"), self.ctx.fresh("k")
            return (f"match py_mul_int_float {self.text(i)} {self.text(f)} with\n| Exc {kk} => {self.raise_(node, env, kk)}\n"
                    f"| Ret {x} =>\n{ind(k(V('F', x), env))}\nend")
        a, b = self.as_int(node, a, env), self.as_int(node, b, env)
        ca, cb = a.const, b.const
        if ca is not None and cb is not None:
            if op in ("//", "%") and cb == 0:
                self.fail(node, "division by the constant 0")
            if op in (">>", "<<") and cb < 0:
                self.fail(node, "negative shift count")
            if op == "**" and not (0 <= cb <= 4096):
                self.fail(node, "power with a negative or huge exponent")
            val = {"+": lambda: ca + cb, "-": lambda: ca - cb, "*": lambda: ca * cb, "&": lambda: ca & cb,
                   ">>": lambda: ca >> cb, "<<": lambda: ca << cb, "//": lambda: ca // cb, "%": lambda: ca % cb,
                   "**": lambda: ca ** cb}[op]()
            return k(V("Z", const=val), env)
        x, y = self.text(a), self.text(b)
        if op in ("+", "-", "*"):
            return k(V("Z", f"({x} {op} {y})"), env)
        if op == "&":
            return k(V("Z", f"(Z.land {x} {y})"), env)
        if op in (">>", "<<"):
            if cb is None or cb < 0:
                self.fail(node, f"`{op}` by something else than a non-negative int literal")
            return k(V("Z", f"({'Z.shiftr' if op == '>>' else 'Z.shiftl'} {x} {y})"), env)
        if op in ("//", "%"):
            if cb is None or cb == 0:
                self.fail(node, f"`{op}` by something else than a non-zero int literal")
            return k(V("Z", f"({x} {'/' if op == '//' else 'mod'} {y})"), env)
        self.fail(node, f"`{op}` on values that are not constants")

    # ---- booleans: k(value, facts when true, facts when false, env)
    CMPOPS = {ast.Lt: "<", ast.Gt: ">", ast.LtE: "<=", ast.GtE: ">=", ast.Eq: "==", ast.NotEq: "!="}

    def bool_value(self, e, env, k):
        if isinstance(e, ast.BoolOp):
            # short circuit, left to right: `a and b` is `b if a else False`, `a or b` is `True if a else b` (operands are
            # bools here, so the value of the expression is the truth value); what follows is translated once per outcome
            is_and = isinstance(e.op, ast.And)
            first, rest = e.values[0], e.values[1:]
            more = rest[0] if len(rest) == 1 else ast.copy_location(ast.BoolOp(op=e.op, values=rest), e)

            def after_first(v, ft, ff, e1):
                if v.ty != "B":
                    self.fail(e, f"`and` / `or` on a value of kind {v.ty} (only bools)")
                decided = V("B", const=not is_and)

                def go_on(e2):
                    gained = ft if is_and else ff
                    return self.bool_value(more, e2, lambda v2, ft2, ff2, e3: k(
                        v2, (set(ft2) | set(gained)) if is_and else ft2, ff2 if is_and else (set(ff2) | set(gained)), e3))

                def stop(e2):
                    return k(decided, set(), set(), e2)
                if v.const is not None:
                    return (go_on if v.const == is_and else stop)(e1.plus(ft if v.const else ff))
                kt, kf = (go_on, stop) if is_and else (stop, go_on)
                return (f"if {v.tx} then\n{ind(block_text(kt(e1.plus(ft))))}\nelse\n{ind(block_text(kf(e1.plus(ff))))}")
            return self.bool_value(first, env, after_first)
        if isinstance(e, ast.UnaryOp) and isinstance(e.op, ast.Not):
            def neg(v, ft, ff, e2):
                if v.const is not None:
                    return k(V("B", const=not v.const), ff, ft, e2)
                ex = ("optl", v.extra[1], not v.extra[2]) if v.extra and v.extra[0] == "optl" else None
                return k(V("B", f"(negb {v.tx})", extra=ex), ff, ft, e2)
            return self.bool_value(e.operand, env, neg)
        if isinstance(e, ast.Compare):
            if len(e.ops) != 1:
                self.fail(e, "chained comparison")
            o = e.ops[0]
            if isinstance(o, (ast.Is, ast.IsNot)):
                return self.expr(e.left, env, lambda a, e1: self.expr(
                    e.comparators[0], e1, lambda b, e2: self.is_none(e, isinstance(o, ast.IsNot), a, b, e2, k)))
            op = self.CMPOPS.get(type(o))
            if op is None:
                self.fail(e, f"comparison operator {type(o).__name__}")
            return self.expr(e.left, env, lambda a, e1: self.expr(
                e.comparators[0], e1, lambda b, e2: self.cmp(e, op, a, b, e2, k)))
        if isinstance(e, ast.Call) and isinstance(e.func, ast.Name) and e.func.id == "isinstance" \
                and "isinstance" not in env.locals:
            if len(e.args) != 2 or e.keywords:
                self.fail(e, "isinstance with other than two arguments")
            if not isinstance(e.args[0], ast.Name) or e.args[0].id not in env.locals:
                self.fail(e, "isinstance of something else than a parameter")
            p = env.locals[e.args[0].id]
            t = e.args[1]
            if isinstance(t, ast.Tuple) and t.elts and all(isinstance(x, ast.Name) for x in t.elts):
                ids = {x.id for x in t.elts}
                if "int" in ids:
                    ids.discard("bool")                   # bool is a subclass of int
                if len(ids) != 1:
                    self.fail(e, f"isinstance against the classes {sorted(ids)} (one class of the model's universe is decided)")
                t = ast.copy_location(ast.Name(id=next(iter(ids)), ctx=ast.Load()), t)
            if not isinstance(t, ast.Name):
                self.fail(e, "isinstance against something else than class names")
            if t.id in env.locals:
                self.fail(e, f"the class name `{t.id}` is shadowed by a local")
            if t.id == "StreamInterface" and "StreamInterface" not in self.classes:
                self.fail(e, "class StreamInterface is not defined in the module")
            fn = ISINSTANCE.get((p.ty, t.id))
            if fn is None or p.tx is None or not (p.tx.startswith("p_") or p.tx.startswith("st_")):
                self.fail(e, f"isinstance test `{ast.unparse(e)}` cannot be decided on the model's value universe ({p.ty})")
            return k(V("B", f"({fn} {p.tx})"), {(p.tx, "inst")}, set(), env)
        return self.expr(e, env, lambda v, e2: self.truth(e, v, e2, k))

    def truth(self, node, v, env, k):
        if v.ty == "B":
            return k(v, set(), set(), env)
        self.fail(node, f"truth value of a value of kind {v.ty} (only bools are tested)")

    def is_none(self, node, negated, a, b, env, k):
        if b.ty != "None":
            a, b = b, a
        if b.ty != "None":
            self.fail(node, "`is` between values that are not None")

        def out(v, ft, ff):
            if not negated:
                return k(v, ft, ff, env)
            if v.const is not None:
                return k(V("B", const=not v.const), ff, ft, env)
            ex = ("optl", v.extra[1], not v.extra[2]) if v.extra and v.extra[0] == "optl" else None
            return k(V("B", f"(negb {v.tx})", extra=ex), ff, ft, env)
        if a.ty == "None":
            return out(V("B", const=True), set(), set())
        if a.ty == "SeedArg":
            return out(V("B", f"(py_seed_is_none {a.tx})"), set(), set())
        if a.ty == "ObjArg":
            return out(V("B", f"(py_obj_is_none {a.tx})"), set(), set())
        if a.ty == "OptL":
            return out(V("B", f"(match {a.tx} with None => true | Some _ => false end)", extra=("optl", a, False)), set(), set())
        if a.ty in ("Z", "F", "B", "Str", "L", "G", "GS"):
            return out(V("B", const=False), set(), set())
        self.fail(node, f"`is None` on a value of kind {a.ty}")

    def cmp(self, node, op, a, b, env, k):
        def with_a(a2, e1):
            return self.with_bound(node, self.resolved(b, env, e1), e1, lambda b2, e2: self.cmp2(node, op, a2, b2, e2, k))
        return self.with_bound(node, a, env, with_a)

    def cmp2(self, node, op, a, b, env, k):
        if a.ty == "F" or b.ty == "F":
            def tof(v):
                if v.ty == "F":
                    return v
                if v.ty == "Z" and v.const is not None and abs(v.const) <= TWO53:
                    return V("F", const=v.const * TWO53)
                self.fail(node, f"comparison of a float with a value of kind {v.ty} that is not a small int literal")
            a, b = tof(a), tof(b)
        else:
            a, b = self.as_int(node, a, env), self.as_int(node, b, env)
        if a.const is not None and b.const is not None:
            val = {"<": a.const < b.const, ">": a.const > b.const, "<=": a.const <= b.const, ">=": a.const >= b.const,
                   "==": a.const == b.const, "!=": a.const != b.const}[op]
            return k(V("B", const=val), set(), set(), env)
        x, y = self.text(a), self.text(b)
        t = {"<": f"({x} <? {y})", ">": f"({y} <? {x})", "<=": f"({x} <=? {y})", ">=": f"({y} <=? {x})",
             "==": f"({x} =? {y})", "!=": f"(negb ({x} =? {y}))"}[op]
        ft, ff = set(), set()
        if a.ty == "Z" and b.ty == "Z":
            # bounds a later list index relies on
            if b.const == 0 and a.const is None:
                if op == "<":
                    ff.add(("ge0", a.tx))
                elif op == ">=":
                    ft.add(("ge0", a.tx))
            if a.const == 0 and b.const is None:
                if op == ">":
                    ff.add(("ge0", b.tx))
                elif op == "<=":
                    ft.add(("ge0", b.tx))
            if b.extra and b.extra[0] == "len" and a.const is None:
                if op == ">=":
                    ff.add(("ltlen", a.tx, b.extra[1]))
                elif op == "<":
                    ft.add(("ltlen", a.tx, b.extra[1]))
            if a.extra and a.extra[0] == "len" and b.const is None:
                if op == "<=":
                    ff.add(("ltlen", b.tx, a.extra[1]))
                elif op == ">":
                    ft.add(("ltlen", b.tx, a.extra[1]))
        return k(V("B", t), ft, ff, env)

    def cond(self, e, env, kt, kf):
        def branch(v, ft, ff, e2):
            if v.const is not None:
                return kt(e2.plus(ft)) if v.const else kf(e2.plus(ff))
            inner = v
            # `d.get(k) is None`: the branches learn what the dict holds
            if v.extra and v.extra[0] == "optl":
                o, neg = v.extra[1], v.extra[2]
                lv = self.ctx.fresh("l")
                e_some = e2.clone()
                if o.extra:
                    e_some.memo[o.extra] = lv
                for nme, w in e2.locals.items():
                    if w.ty == "OptL" and w.tx == o.tx:
                        e_some.locals[nme] = V("L", lv)
                none_b, some_b = (kf, kt) if neg else (kt, kf)
                return (f"match {o.tx} with\n| None =>\n{ind(block_text(none_b(e2)))}\n"
                        f"| Some {lv} =>\n{ind(block_text(some_b(e_some)))}\nend")
            return (f"if {inner.tx} then\n{ind(block_text(kt(e2.plus(ft))))}\nelse\n{ind(block_text(kf(e2.plus(ff))))}")
        return self.bool_value(e, env, branch)

    # ------------------------------------------------------------------ subscripts
    def subscript(self, e, env, k):
        if isinstance(e.slice, (ast.Slice, ast.Tuple)):
            self.fail(e, "slice / tuple subscript")
        # d[k] inside `for k in d.keys()`: the value of the current item
        if env.entry is not None and isinstance(e.value, ast.Name) and e.value.id == env.entry[3] \
                and isinstance(e.slice, ast.Name) and e.slice.id == env.entry[0]:
            return k(V("EStream", f"(stream_of {env.entry[2]})"), env)

        def go(d, e1):
            def with_key(key, e2):
                if d.ty == "Tbl":
                    nm = self.as_name(e, key, e2)
                    mk = (d.tx, nm.tx)
                    if mk in e2.memo:
                        return k(V("L", e2.memo[mk]), e2)
                    self.effect(e, "dict subscript")
                    lv = self.ctx.fresh("l")
                    e3 = e2.clone()
                    e3.memo[mk] = lv
                    table = EXN[self.ctx.module]
                    if "KeyError" not in table:
                        self.fail(e, "dict subscript (the model has no KeyError)")
                    return (f"match lookup {d.tx} {nm.tx} with\n| None => {self.raise_(e, e2, table['KeyError'])}\n"
                            f"| Some {lv} =>\n{ind(k(V('L', lv), e3))}\nend")
                if d.ty == "Info":
                    nm = self.as_name(e, key, e2)
                    self.effect(e, "dict subscript")
                    iv = self.ctx.fresh("i")
                    table = EXN[self.ctx.module]
                    return (f"match info_get {d.tx} {nm.tx} with\n| None => {self.raise_(e, e2, table['KeyError'])}\n"
                            f"| Some {iv} =>\n{ind(k(V('Ref', iv), e2))}\nend")
                if d.ty == "L":
                    i = self.as_int(e, key, e2)
                    if i.const is not None:
                        self.fail(e, "list index by a literal")
                    if ("ge0", i.tx) not in e2.facts or ("ltlen", i.tx, d.tx) not in e2.facts:
                        self.fail(e, f"list index `{ast.unparse(e)[:60]}` not known to lie within the bounds of the list "
                                     "(guards `i < 0` and `i >= len(list)` raising in front establish that)")
                    return k(V("Z", f"(nth (Z.to_nat {i.tx}) {d.tx} 0)"), e2)
                self.fail(e, f"subscript of a value of kind {d.ty}")
            return self.expr(e.slice, e1, with_key)
        return self.expr(e.value, env, go)

    # ------------------------------------------------------------------ calls
    def call(self, e, env, k):
        if e.keywords:
            self.fail(e, "keyword arguments")
        if any(isinstance(a, ast.Starred) for a in e.args):
            self.fail(e, "starred argument")
        f = e.func
        if isinstance(f, ast.Name):
            if f.id in env.locals:
                self.fail(e, f"call of the local `{f.id}`")
            if f.id in self.functions and f.id not in BUILTINS_USED and f.id not in CLASSES:
                return self.inline_call(e, f.id, self.functions[f.id], False, env, k)
            if f.id in self.rebound:
                self.fail(e, f"call of `{f.id}`, which the module binds more than once")
            return self.builtin(e, f.id, env, k)
        if not isinstance(f, ast.Attribute):
            self.fail(e, f"call `{ast.unparse(e)[:60]}`")
        recv = f.value
        # modules
        if isinstance(recv, ast.Name) and recv.id in ("math", "time") and recv.id not in env.locals:
            if self.imports.get(recv.id) != recv.id:
                self.fail(e, f"`{recv.id}` is not imported")
            return self.module_call(e, recv.id, f.attr, env, k)
        # self.m(..)
        if isinstance(recv, ast.Name) and recv.id == "self" and "self" not in env.locals:
            return self.self_call(e, f.attr, env, k)
        # super().__init__(..)
        if isinstance(recv, ast.Call) and isinstance(recv.func, ast.Name) and recv.func.id == "super" and "super" not in env.locals \
                and not recv.args and not recv.keywords and f.attr == "__init__":
            return self.super_init(e, env, k)
        # methods of objects: evaluate the receiver
        if isinstance(recv, ast.Name) and recv.id in env.locals and env.locals[recv.id].ty == "Dict" and f.attr == "keys":
            self.fail(e, "dict.keys() outside `for k in d.keys()`")
        return self.expr(recv, env, lambda r, e1: self.exprs(e.args, e1, lambda args, e2: self.method_call(e, recv, r, f.attr, args, e2, k)))

    def construct(self, e, cname, env, k):
        """C(args) for a translated class whose state is a record: a blank object goes through the generated
        __init__ and is appended to the store; the value is its index"""
        if CLASSES[self.ctx.cls]["frame"][0] != "wself":
            self.fail(e, f"{cname}(..) where the model has no store of objects")
        if cname not in self.classes or CLASSES[cname]["frame"][0] != "self":
            self.fail(e, f"constructor call {cname}(..)")
        if self.ctx.loop:
            self.fail(e, "constructor call inside a loop body")
        self.effect(e, "constructor call")
        sig = self.method(cname, "__init__", e)
        mod = sig["module"]
        if len(e.args) > len(sig["params"]):
            self.fail(e, f"{cname}() called with {len(e.args)} arguments")

        def with_args(args, e2):
            argtx = []
            for i, (pn, ty) in enumerate(sig["params"]):
                if i >= len(args):
                    if i - (len(sig["params"]) - len(sig["defaults"])) < 0:
                        self.fail(e, f"{cname}() called without a value for `{pn}`")
                    argtx.append(f"{mod}.{sig['defaults'][i - (len(sig['params']) - len(sig['defaults']))]}")
                elif ty == "SeedArg" and args[i].ty == "Z":
                    argtx.append(f"({mod}.SeedInt {self.text(args[i])})")
                elif ty == "SeedArg" and args[i].ty == "None":
                    argtx.append(f"{mod}.SeedNone")
                else:
                    self.fail(e, f"argument of kind {args[i].ty} passed for the parameter `{pn}` of {cname}()")
            bs = []
            for b, t in sig["binders"]:
                if b == "raw":
                    self.ctx.need("raw", t)
                    bs.append("raw")
                else:
                    bs.append(self.ctx.env_binder(e, b.rsplit("_", 1)[0], t))
            g = self.ctx.env_binder(e, "env_blank", "gstate")
            o, r1, kk, w1, iv = (self.ctx.fresh(x) for x in ("o", "r", "k", "w", "i"))
            e3 = e2.clone()
            e3.store = w1
            callt = " ".join([f"{mod}.{sig['name']}"] + bs + [f"(mkS {g} 0 0 [])"] + argtx)
            inner = f"let '({w1}, {iv}) := py_alloc {e2.store} {o} in\n" + k(V("Ref", iv), e3)
            return (f"let '({o}, {r1}) := {callt} in\n"
                    f"match {r1} with\n| {mod}.Exc {kk} => " + self.raise_(e, e2, f"(py_exn_of_mt {kk})") + "\n"
                    f"| {mod}.Ret _ =>\n{ind(inner)}\nend")
        return self.exprs(e.args, env, with_args)

    def super_init(self, e, env, k):
        """super().__init__(args) in a class whose base is translated (frame wself)"""
        spec = CLASSES[self.ctx.cls]
        sup = spec.get("super")
        if not sup or self.ctx.name != "__init__":
            self.fail(e, "super() call (only super().__init__(..) of a translated base class, inside __init__)")
        if self.ctx.loop:
            self.fail(e, "super() call inside a loop body")
        self.effect(e, "super().__init__")
        sig = self.method(sup[0], "__init__", e)
        if len(e.args) != len(sig["params"]):
            self.fail(e, f"super().__init__ called with {len(e.args)} arguments, it has {len(sig['params'])} parameters")

        def with_args(args, e2):
            argtx = []
            for (pn, ty), v in zip(sig["params"], args):
                if ty == v.ty and v.tx is not None and v.tx.startswith("p_"):
                    argtx.append(v.tx)
                else:
                    self.fail(e, f"argument of kind {v.ty} passed for the parameter `{pn}` of kind {ty}")
            for b, t in sig["binders"]:
                self.ctx.need(b, t)
            w1, b1, r1, kk = (self.ctx.fresh(x) for x in ("w", "b", "r", "k"))
            e3 = e2.clone()
            e3.store, e3.sup, e3.dirty = w1, b1, True
            callt = " ".join([sig["name"]] + [b for b, _t in sig["binders"]] + [e2.store, e2.sup] + argtx)
            return (f"let '(({w1}, {b1}), {r1}) := {callt} in\n"
                    f"match {r1} with\n| Exc {kk} => {self.raise_(e, e3, kk)}\n| Ret _ =>\n{ind(k(V('None', 'tt'), e3))}\nend")
        return self.exprs(e.args, env, with_args)

    def builtin(self, e, name, env, k):
        n = len(e.args)
        if name in CLASSES and name != "Random":
            return self.construct(e, name, env, k)
        if name == "Random":
            if self.imports.get("Random") != "random.Random":
                self.fail(e, "`Random` is not imported from random")
            if n != 0:
                self.fail(e, "Random(..) with arguments")
            self.effect(e, "Random()")
            g = self.ctx.env_binder(e, "env_newgen", "gstate")
            return k(V("G", g), env)
        if name == "int" and n == 1:
            def go(v, e1):
                if v.ty == "F":
                    return k(V("Z", f"(py_trunc {self.text(v)})"), e1)
                if v.ty == "Z":
                    return k(v, e1)
                self.fail(e, f"int() of a value of kind {v.ty}")
            return self.expr(e.args[0], env, go)
        if name == "len" and n == 1:
            def go(v, e1):
                if v.ty == "L":
                    return k(V("Z", f"(Z.of_nat (length {v.tx}))", extra=("len", v.tx)), e1)
                if v.ty in ("Str", "Key"):
                    nm = self.as_name(e, v, e1)
                    return k(V("Z", f"(Z.of_nat (length {nm.tx}))"), e1)
                self.fail(e, f"len() of a value of kind {v.ty}")
            return self.expr(e.args[0], env, go)
        if name == "ord" and n == 1:
            def go(v, e1):
                if v.ty == "Char":
                    return k(V("Z", v.tx), e1)
                self.fail(e, f"ord() of a value of kind {v.ty}")
            return self.expr(e.args[0], env, go)
        if name == "round" and n == 1:
            def go(v, e1):
                if v.ty == "EnvF":
                    self.effect(e, "reading the clock")
                    c = self.ctx.env_binder(e, "env_clock", "Z")
                    return k(V("Z", c), e1)
                self.fail(e, f"round() of a value of kind {v.ty}")
            return self.expr(e.args[0], env, go)
        self.fail(e, f"call of `{name}` with {n} arguments")

    def module_call(self, e, mod, attr, env, k):
        if mod == "math" and attr == "floor" and len(e.args) == 1:
            def go(v, e1):
                if v.ty == "F":
                    return k(V("Z", f"(py_floor {self.text(v)})"), e1)
                if v.ty == "Z":
                    return k(v, e1)
                self.fail(e, f"math.floor of a value of kind {v.ty}")
            return self.expr(e.args[0], env, go)
        if mod == "time" and attr == "time" and not e.args:
            return k(V("EnvF"), env)
        if mod == "time" and attr == "sleep" and len(e.args) == 1 and isinstance(e.args[0], ast.Constant) \
                and type(e.args[0].value) in (int, float) and e.args[0].value >= 0:
            return k(V("None", "tt"), env)
        self.fail(e, f"{mod}.{attr}()")

    def inline_call(self, e, name, fdef, is_method, env, k):
        """a call of a helper that is not part of the translated interface (a module-level function, a method of the
        same class): its body is translated at the call site.  The arguments are evaluated first, left to right, and
        bound to the parameters in a scope of their own; `return` inside the helper continues after the call with the
        returned value; what the helper's guards established about the arguments holds after the call."""
        label = ("self." if is_method else "") + name
        if isinstance(fdef, ast.AsyncFunctionDef) or fdef.decorator_list:
            self.fail(e, f"call of the async / decorated helper {label}")
        a = fdef.args
        if a.vararg or a.kwarg or a.kwonlyargs or a.posonlyargs or a.defaults or a.kw_defaults:
            self.fail(e, f"helper {label} (line {fdef.lineno}) takes *args / **kwargs / keyword-only / default arguments")
        params = [p.arg for p in a.args]
        if is_method:
            if not params or params[0] != "self":
                self.fail(e, f"helper {label} (line {fdef.lineno}): first parameter is not `self`")
            params = params[1:]
        elif "self" in params:
            self.fail(e, f"module-level helper {label} has a parameter `self`")
        if len(params) != len(e.args):
            self.fail(e, f"{label}() called with {len(e.args)} arguments, it has {len(params)} parameters")
        if any(r[0] == label for r in self.ctx.returns):
            self.fail(e, f"recursion in the helper {label} (line {fdef.lineno})")
        if len(self.ctx.returns) >= 4:
            self.fail(e, "helpers nested more than 4 deep")
        for n in ast.walk(fdef):
            if isinstance(n, (ast.FunctionDef, ast.AsyncFunctionDef, ast.Lambda, ast.ClassDef)) and n is not fdef:
                self.fail(n, f"nested function / class / lambda in the helper {label}")
            if isinstance(n, (ast.Yield, ast.YieldFrom, ast.Await, ast.Global, ast.Nonlocal)):
                self.fail(n, f"{type(n).__name__} in the helper {label}")
        src = "\n".join(self.lines[fdef.lineno - 1:fdef.end_lineno])
        rec = (label, fdef.lineno, fdef.end_lineno, hashlib.sha1(src.encode("utf-8")).hexdigest())
        if rec not in self.ctx.inlined:
            self.ctx.inlined.append(rec)

        def with_args(args, e1):
            for v in args:
                if v.ty in ("EmptyDict", "EnvF", "G"):
                    self.fail(e, f"argument of kind {v.ty} passed to the helper {label}")
            caller = e1
            inner = e1.clone()
            inner.locals = dict(zip(params, args))
            inner.noself = not is_method
            depth = len(self.ctx.returns)

            def back(node, v, e2):
                """the helper returns: the caller's scope again, with what happened to the state and to the arguments"""
                del self.ctx.returns[depth:]
                out = e2.clone()
                out.locals = dict(caller.locals)
                out.noself = getattr(caller, "noself", False)
                for pn, old in zip(params, args):
                    new = e2.locals.get(pn)
                    if old.ty in ("Stream", "Dict", "Bound") and new is not None and new.tx != old.tx:
                        if new.ty not in (old.ty, "Z"):
                            self.fail(node, f"the helper {label} rebinds its parameter `{pn}`")
                        for nme, w in caller.locals.items():
                            if w.ty == old.ty and w.tx == old.tx:
                                out.locals[nme] = new          # the same object / the same checked argument in the caller
                if v.ty in ("EmptyDict", "EnvF", "G"):
                    self.fail(node, f"the helper {label} returns a value of kind {v.ty}")
                try:
                    return k(v, out)
                finally:
                    self.ctx.returns.append(frame_rec)
            frame_rec = (label, back, self.ctx.loop, len(self.ctx.loop_ends))
            self.ctx.returns.append(frame_rec)
            try:
                return self.block(self.strip_doc(fdef.body), inner, lambda e2: back(fdef, V("None", "tt"), e2))
            finally:
                del self.ctx.returns[depth:]
        return self.exprs(e.args, env, with_args)

    def self_call(self, e, mname, env, k):
        cls = self.ctx.cls
        spec = CLASSES[cls]
        if mname not in spec["abstract"] and (cls, mname) not in PARAMS:
            # a private helper method of the class: translated at the call site
            fdef = self.find_method(cls, mname, allow_decorated=True)
            if fdef is None:
                self.fail(e, f"self.{mname}(): not a method of {cls} (inherited methods are not resolved)")
            return self.inline_call(e, mname, fdef, True, env, k)
        if mname in spec["abstract"]:
            # dynamic dispatch to whatever the subclass defines: a function parameter
            declared = PARAMS[(cls, mname)]
            if len(e.args) != len(declared):
                self.fail(e, f"self.{mname}() called with {len(e.args)} arguments")
            fn = "self_" + mname
            self.ctx.need(fn, " -> ".join(GTYPE[t] for _p, t in declared) + " -> pystream * pyret unit")
            return self.exprs(e.args, env, lambda args, e2: self.updater_call(e, fn, declared, args, e2, k))
        if spec["frame"][0] != "self":
            self.fail(e, f"self.{mname}() in {cls} (only the abstract update_seed is called through self there)")
        if self.find_method(cls, mname) is None:
            self.fail(e, f"self.{mname}(): not a method of {cls} (inherited methods are not resolved)")
        if self.ctx.loop:
            self.fail(e, "call of a method of self inside a loop body")
        self.effect(e, "method call")
        sig = self.method(cls, mname, e)
        if len(e.args) != len(sig["params"]):
            self.fail(e, f"{mname}() called with {len(e.args)} arguments, it has {len(sig['params'])} parameters")

        def with_args(args, e2):
            argtx = []
            for (pn, ty), v in zip(sig["params"], args):
                if ty == "Z":
                    argtx.append(self.text(self.as_int(e, v, e2)))
                elif ty == v.ty and v.tx is not None and v.tx.startswith("p_"):
                    argtx.append(v.tx)
                else:
                    self.fail(e, f"argument of kind {v.ty} passed for the parameter `{pn}` of kind {ty}")
            for b, t in sig["binders"]:
                self.ctx.need(b, t)
            s1, r1, x1, kk = self.ctx.fresh("s"), self.ctx.fresh("r"), self.ctx.fresh("y"), self.ctx.fresh("k")
            e3 = e2.clone()
            e3.base, e3.dirty = s1, False
            for attr, proj, ty in spec["frame"][3]:
                e3.fields[attr] = V(ty, f"({proj} {s1})")
            callt = " ".join([sig["name"]] + [b for b, _t in sig["binders"]] + [self.frame_term(e2)] + argtx)
            return (f"let '({s1}, {r1}) := {callt} in\n"
                    f"match {r1} with\n| Exc {kk} => {self.raise_(e, e3, kk)}\n"
                    f"| Ret {x1} =>\n{ind(k(V(sig['ret'], x1 if sig['ret'] != 'None' else 'tt'), e3))}\nend")
        return self.exprs(e.args, env, with_args)

    def updater_call(self, node, fn, declared, args, env, k):
        """fn key stream r  where the stream argument is the object the callee changes"""
        self.effect(node, "call of an updater")
        texts, target = [], None
        for (pn, ty), v in zip(declared, args):
            if ty == "Key":
                if v.ty in ("Key", "EKey"):
                    texts.append(v.tx)
                else:
                    self.fail(node, f"argument of kind {v.ty} passed as the stream id")
            elif ty == "Stream":
                if v.ty not in ("Stream", "EStream"):
                    self.fail(node, f"argument of kind {v.ty} passed as the stream")
                texts.append(v.tx)
                target = v
            elif ty == "Repl":
                if v.ty != "Repl":
                    self.fail(node, f"argument of kind {v.ty} passed as the replication number")
                texts.append(v.tx)
        return self.after_stream_call(node, f"{fn} {' '.join(texts)}", target, env, k)

    def after_stream_call(self, node, callt, target, env, k):
        """callt : pystream * pyret unit, the first component being the new version of `target`"""
        st, r1, kk = self.ctx.fresh("st"), self.ctx.fresh("r"), self.ctx.fresh("k")
        e2 = env.clone()
        if target.ty == "EStream":
            if env.entry is None:
                self.fail(node, "a dict item outside its loop")
            e2.entry = (env.entry[0], env.entry[1], f"(with_stream {env.entry[2]} {st})", env.entry[3])
            for nme, w in env.locals.items():
                if w.ty == "EStream":           # names of the item's stream see the changed object
                    e2.locals[nme] = V("EStream", f"(stream_of {e2.entry[2]})")
        else:
            hit = False
            for n, w in env.locals.items():
                if w.ty == "Stream" and w.tx == target.tx:
                    e2.locals[n] = V("Stream", st)
                    hit = True
            if not hit:
                self.fail(node, "the stream passed on is not a parameter")
            if (target.tx, "inst") in env.facts:
                e2 = e2.plus({(st, "inst")})
        return (f"let '({st}, {r1}) := {callt} in\n"
                f"match {r1} with\n| Exc {kk} => {self.raise_(node, e2, kk)}\n| Ret _ =>\n{ind(k(V('None', 'tt'), e2))}\nend")

    def method_call(self, e, recv_node, r, attr, args, env, k):
        n = len(args)
        # ---- the generator object
        if r.ty == "G":
            if not (isinstance(recv_node, ast.Attribute) and isinstance(recv_node.value, ast.Name) and recv_node.value.id == "self"):
                self.fail(e, "generator method on something else than an attribute of self")
            attr_name = recv_node.attr
            if self.ctx.loop:
                self.fail(e, "generator call inside a loop body")

            def set_gen(tx):
                e2 = env.clone()
                e2.fields[attr_name] = V("G", tx)
                e2.dirty = True
                return e2
            if attr == "random" and n == 0:
                self.effect(e, "random()")
                self.ctx.need("raw", "Z -> nat -> Z")
                u, g = self.ctx.fresh("u"), self.ctx.fresh("g")
                return f"let '({u}, {g}) := g_random raw {r.tx} in\n{k(V('F', u), set_gen(g))}"
            if attr == "seed" and n == 1:
                self.effect(e, "seed()")
                x = self.as_int(e, args[0], env)
                g = self.ctx.fresh("g")
                return f"let {g} := g_seed {r.tx} {self.text(x)} in\n{k(V('None', 'tt'), set_gen(g))}"
            if attr == "getstate" and n == 0:
                return k(V("GS", f"(g_getstate {r.tx})"), env)
            if attr == "setstate" and n == 1:
                self.effect(e, "setstate()")
                if args[0].ty == "StateArg":
                    st = args[0].tx
                elif args[0].ty == "GS":
                    st = f"(StObj {args[0].tx})"
                else:
                    self.fail(e, f"setstate of a value of kind {args[0].ty}")
                g, kk = self.ctx.fresh("g"), self.ctx.fresh("k")
                return (f"match g_setstate {r.tx} {st} with\n| Exc {kk} => {self.raise_(e, env, kk)}\n"
                        f"| Ret {g} =>\n{ind(k(V('None', 'tt'), set_gen(g)))}\nend")
            self.fail(e, f"generator method {attr}() with {n} arguments")
        # ---- a stream object (argument of update_seed)
        if r.ty == "Stream":
            r = self.as_stream(e, r, env)
            if attr == "original_seed" and n == 0:
                return k(V("Z", f"(py_stream_orig {r.tx})"), env)
            if attr == "seed" and n == 0:
                return k(V("Z", f"(py_stream_cur {r.tx})"), env)
            if attr == "set_seed" and n == 1:
                self.effect(e, "set_seed()")
                x = self.as_int(e, args[0], env)
                st = self.ctx.fresh("st")
                e2 = env.clone()
                hit = False
                for nme, w in env.locals.items():
                    if w.ty == "Stream" and w.tx == r.tx:
                        e2.locals[nme] = V("Stream", st)
                        hit = True
                if not hit:
                    self.fail(e, "set_seed on a stream that is not a parameter")
                e2 = e2.plus({(st, "inst")})
                return f"let {st} := py_stream_set_seed {r.tx} {self.text(x)} in\n{k(V('None', 'tt'), e2)}"
            self.fail(e, f"stream method {attr}() with {n} arguments")
        # ---- the seed table
        if r.ty == "Tbl":
            if attr == "get" and n == 1:
                nm = self.as_name(e, args[0], env)
                return k(V("OptL", f"(lookup {r.tx} {nm.tx})", extra=(r.tx, nm.tx)), env)
            self.fail(e, f"dict method {attr}() with {n} arguments")
        # ---- an updater object
        if r.ty == "Upd":
            if attr == "update_seed" and n == 3:
                nm = self.as_name(e, args[0], env)
                st = self.as_stream(e, args[1], env)
                rr = self.as_int(e, args[2], env)
                return self.after_stream_call(e, f"py_call_updater {r.tx} {nm.tx} {st.tx} {self.text(rr)}", st, env, k)
            self.fail(e, f"updater method {attr}() with {n} arguments")
        self.fail(e, f"method {attr}() of a value of kind {r.ty}")


def block_text(t: str) -> str:
    s = t.strip()
    if "\n" in s or s.startswith(("let ", "if ", "match ")):
        return "(" + s + ")"
    return s


def translate(text: str, keep_going: bool = False):
    """returns (translator, failures); without keep_going the first unsupported construct is raised.
    With keep_going a class that cannot be translated is left out and reported in failures -- the run still
    ends with a non-zero exit status."""
    tr = Translator(text)
    failures = []
    for cname, spec in CLASSES.items():
        snap = ({m: len(d) for m, d in tr.defs.items()}, dict(tr.sigs), len(tr.translated))
        try:
            tr.class_checks(cname)
            for m in spec["methods"]:
                tr.method(cname, m)
        except Unsupported as exc:
            if not keep_going:
                raise
            for m, n in snap[0].items():
                del tr.defs[m][n:]
            tr.sigs = snap[1]
            del tr.translated[snap[2]:]
            failures.append({"class": cname, "line": exc.lineno, "construct": exc.what, "error": str(exc)})
    return tr, failures


def render(tr: Translator, src_sha: str) -> str:
    out = [f"(* GENERATED by translator/py2gallina_streams.py from src/pydsol/core/streams.py -- do not edit.",
           f"   sha1 of the source file (line ends normalised): {src_sha}",
           "   Shallow embedding of the method bodies over the types of Streams/Stream.v (module MT),",
           "   Streams/Seeds.v (module Upd) and Streams/Info.v (module Inf); see the translator for the subset and its meaning.",
           "   Streams/GenAgree.v proves every definition equal to the hand-written model. *)",
           "From Coq Require Import ZArith List Bool.",
           "From PV Require Streams.Stream Streams.Seeds Streams.Info.",
           "Import ListNotations.",
           ""]
    for mod in MODULE_ORDER:
        out += [f"Module {mod}.", f"Import {MODULES[mod]}.", "Local Open Scope Z_scope.", PRELUDE[mod]]
        for d in tr.defs[mod]:
            out.append(d)
            out.append("")
        out += [f"End {mod}.", ""]
    return "\n".join(out)


def main(argv):
    out_dir = None
    keep_going = False
    i = 0
    while i < len(argv):
        if argv[i] == "--out" and i + 1 < len(argv):
            out_dir = Path(argv[i + 1])
            i += 2
        elif argv[i] == "--keep-going":
            keep_going = True
            i += 1
        else:
            print(f"usage: {sys.argv[0]} [--out DIR [--keep-going]]", file=sys.stderr)
            return 64
    keep_going = keep_going and out_dir is not None

    def report_failure(info):
        if out_dir is not None:
            out_dir.mkdir(parents=True, exist_ok=True)
            (out_dir / f"{GEN_NAME}.json").write_text(json.dumps(info, indent=1) + "\n")

    try:
        raw = SRC.read_bytes()
    except OSError as exc:
        print(f"py2gallina_streams: cannot read {SRC}: {exc}", file=sys.stderr)
        report_failure({"ok": False, "repo": str(REPO), "source": str(SRC), "methods": [],
                        "failures": [{"class": None, "line": 0, "construct": "unreadable source", "error": str(exc)}]})
        return 2
    text = raw.decode("utf-8", errors="replace").replace("\r\n", "\n").replace("\r", "\n")
    src_sha = hashlib.sha1(text.encode("utf-8")).hexdigest()
    base = {"repo": str(REPO), "source": str(SRC), "source_sha1": src_sha}
    try:
        tr, failures = translate(text, keep_going)
    except Unsupported as exc:
        print(f"py2gallina_streams: TRANSLATION FAILED\n{exc}", file=sys.stderr)
        report_failure({**base, "ok": False, "methods": [],
                        "failures": [{"class": None, "line": exc.lineno, "construct": exc.what, "error": str(exc)}]})
        return 2
    except SyntaxError as exc:
        msg = f"{SRC}:{exc.lineno}: unsupported construct: syntax error: {exc.msg}"
        print(f"py2gallina_streams: TRANSLATION FAILED\n{msg}", file=sys.stderr)
        report_failure({**base, "ok": False, "methods": [],
                        "failures": [{"class": None, "line": exc.lineno or 0, "construct": "syntax error", "error": msg}]})
        return 2
    gen = render(tr, src_sha)
    target = (out_dir or (VERIF / "coq" / "Streams")) / f"{GEN_NAME}.v"
    target.parent.mkdir(parents=True, exist_ok=True)
    if not target.exists() or target.read_text() != gen:
        target.write_text(gen)
    h = hashlib.sha1()
    for r in sorted(tr.translated, key=lambda r: (r["lines"][0], r["definition"])):
        h.update((r["definition"] + ":" + r["sha1"] + "\n").encode())
    info = {**base, "ok": not failures, "translated_text_sha1": h.hexdigest(),
            "generated_sha1": hashlib.sha1(gen.encode()).hexdigest(), "methods": tr.translated, "failures": failures}
    if out_dir is not None:
        (out_dir / f"{GEN_NAME}.json").write_text(json.dumps(info, indent=1) + "\n")
    for f in failures:
        print(f"py2gallina_streams: TRANSLATION FAILED (class {f['class']} left out)\n{f['error']}", file=sys.stderr)
    print(f"py2gallina_streams: {len(tr.translated)} definitions from {SRC} -> {target} "
          f"(translated text sha1 {info['translated_text_sha1'][:12]})")
    return 2 if failures else 0


if __name__ == "__main__":
    sys.exit(main(sys.argv[1:]))
