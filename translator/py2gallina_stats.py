#!/usr/bin/env python3
"""py2gallina_stats.py -- regenerate the Gallina text of the statistics models from the source.

Reads  $VERIF_REPO/src/pydsol/core/statistics.py  (default /repo) with Python's `ast`
module -- the module under test is never imported -- and translates the bodies of the
methods the hand-written models Stats/Tally.v, Stats/Weighted.v, Stats/Timestamp.v
transcribe (see METHODS) into Gallina definitions  gen_<Class>_<method>  over the same
arithmetic record `Num`, the same state records and the same result types
(`res`, `outcome`, `xnum`, `pyarg`, `alpha_arg`, `cobs`).  coq/Stats/GenAgree.v then
proves  gen_<Class>_<method> = <hand-written function>.

The translation is a shallow embedding and FAIL-CLOSED: every construct that is not in the
subset below ends the run with exit status 2 and a message `file:line: unsupported
construct: ...`.  Nothing is skipped or guessed.

Supported subset (anything else fails)
  statements   docstring; `self._x = e`, `self._x op= e`, `name = e`, `name op= e`
               (op in + - * /); `if / elif / else`; `raise <Exc>("text")` with <Exc> one of
               EXN; `return`, `return e`; `pass`; the calls `self.m(..)`, `super().m(..)` of
               a translated mutator as a statement
  expressions  int / integral float / bool literals; names of parameters and locals;
               `self._x`; `math.nan`, `math.inf`; unary + - on literals and `math.inf`;
               `+ - * /`; comparisons (also chained), `and`, `or`, `not`; tuples in `return`;
               `float(e)`, `max(a, b)`, `min(a, b)`, `isinstance(p, T)`, `math.isnan(e)`,
               `math.sqrt(e)`, `self.getter(consts)`, `NormalDist(0.0, 1.0).inv_cdf(e)`
Meaning given to them
  * assignments to `self._x` become let-bound new versions of the field in program order
    (SSA); the state record is rebuilt from the current versions where it is needed: at
    the end (`Ok state`), at a raise in a mutator (`Exn kind state`, i.e. with the
    assignments made so far), at a call of another method;
  * `a / b` on floats is `if eqb b zero then <raise ZeroDivisionError> else div a b`,
    `math.sqrt(a)` is `if ltb a zero then <raise ValueError> else sqrt a`, in evaluation order;
  * an int meets a float as `ofZ i` (literal 0 as `zero`); ints among themselves stay in Z;
  * `math.nan` is a STATIC value: arithmetic with it folds to NaN, comparisons to False,
    `math.isnan` to True, `max(a, nan)` to a; a returned NaN is `NaNres`, a returned tuple of
    NaNs is `NaNres`; stored in a min / max field it is `XNaN`, in a time-stamp field `None`;
  * a call of another getter yields `Val x | NaNres | Raise k`: Raise propagates, the rest
    of the method is translated once with x and once with the static NaN;
  * a parameter ranges over the model's value universe (PARAMS): it may be used as a
    number only where the guards `isinstance(..)` / `math.isnan(..)` in front of it have
    established that it is one; `isinstance` tests are decided on that universe; behind
    those guards `p = float(p)` is accepted for the value / weight parameters listed in
    FLOAT_COERCIBLE (the identity on the universe: floats, ints and bools exactly
    representable as float; a Quantity argument, which float() turns into its si-value, is
    outside the universe and covered by the correspondence runs only) and for no other
    parameter -- a timestamp may be an int beyond 2^53, which float() would change;
  * `self.m()` / `super().m()` are resolved statically in the class (or its base); a
    recursive call with constant arguments (`self.excess_kurtosis()` inside
    excess_kurtosis) becomes a call of a specialised definition `gen_.._m__biased_true`.

Trusted (joins the trusted base of C09 / C10): this file -- the subset semantics above --
and the tables SCHEMA / PARAMS that say which record field stands for which attribute.

usage: py2gallina_stats.py [--out DIR [--keep-going]]
       default DIR: <verif>/coq/Stats, file Gen_Stats.v; with --out also Gen_Stats.json (methods, source
       line ranges, hashes, failures) is written.  --keep-going (checks only): a class with an unsupported
       construct -- and a class built on it -- is left out of Gen_Stats.v and named in Gen_Stats.json, so
       that the tie of the OTHER classes can still be checked; the exit status is non-zero all the same.
"""
from __future__ import annotations

import ast
import hashlib
import json
import os
import sys
import warnings
from pathlib import Path

VERIF = Path(__file__).resolve().parent.parent
REPO = Path(os.environ.get("VERIF_REPO", "/repo"))
SRC = REPO / "src" / "pydsol" / "core" / "statistics.py"

EXN = ("ZeroDivisionError", "ValueError", "TypeError", "OverflowError", "StatisticsError")

# attribute -> (record projection, type);  Z int, F float, XF float incl. nan / +-inf (xnum),
# OF a float that is nan or a proper non-nan number (option), B bool
SCHEMA = {
    "Counter": {"state": "cstate", "ctor": "mkC", "bases": ["StatisticsInterface"], "super": None,
                "fields": [("_count", "ccount", "Z"), ("_n", "cn", "Z")], "ignored": ["_name"]},
    "Tally": {"state": "tstate N", "ctor": "mkT", "bases": ["StatisticsInterface"], "super": None,
              "fields": [("_n", "tn", "Z"), ("_sum", "tsum", "F"), ("_m1", "tm1", "F"), ("_m2", "tm2", "F"),
                         ("_m3", "tm3", "F"), ("_m4", "tm4", "F"), ("_min", "tmin", "XF"), ("_max", "tmax", "XF")],
              "ignored": ["_name"]},
    "WeightedTally": {"state": "wstate N", "ctor": "mkW", "bases": ["StatisticsInterface"], "super": None,
                      "fields": [("_n", "wn", "Z"), ("_n_nonzero", "wnz", "Z"), ("_sum_of_weights", "wsw", "F"),
                                 ("_weighted_mean", "wmean", "F"), ("_weight_times_variance", "wwtv", "F"),
                                 ("_weighted_sum", "wsum", "F"), ("_min", "wmin", "XF"), ("_max", "wmax", "XF")],
                      "ignored": ["_name"]},
    "TimestampWeightedTally": {"state": "tsstate N", "ctor": "mkTSt", "bases": ["WeightedTally"],
                               "super": ("WeightedTally", "ts_w"),
                               "fields": [("_start_time", "ts_start", "OF"), ("_last_timestamp", "ts_last", "OF"),
                                          ("_last_value", "ts_lastval", "F"), ("_active", "ts_active", "B")],
                               "ignored": []},
}

METHODS = {
    "Counter": ["__init__", "initialize", "register", "count", "n"],
    "Tally": ["__init__", "initialize", "register", "n", "sum", "min", "max", "mean", "variance", "stdev",
              "skewness", "kurtosis", "excess_kurtosis", "confidence_interval"],
    "WeightedTally": ["__init__", "initialize", "register", "n", "min", "max", "weighted_sum", "weighted_mean",
                      "weighted_variance", "weighted_stdev"],
    "TimestampWeightedTally": ["initialize", "register", "end_observations", "isactive", "last_value"],
}

# the model's value universe of every parameter
PARAMS = {
    ("Counter", "register", "value"): "CObs",
    ("Tally", "register", "value"): "Arg",
    ("Tally", "confidence_interval", "alpha"): "Alpha",
    ("WeightedTally", "register", "weight"): "Arg",
    ("WeightedTally", "register", "value"): "Arg",
    ("TimestampWeightedTally", "register", "timestamp"): "Arg",
    ("TimestampWeightedTally", "register", "value"): "Arg",
    ("TimestampWeightedTally", "end_observations", "timestamp"): "Arg",
}
PARAMS_BY_NAME = {"biased": "B", "name": "Name"}
# parameters that may be re-bound by `p = float(p)` once the guards established that p is a number and not nan
FLOAT_COERCIBLE = {
    ("Tally", "register", "value"),
    ("WeightedTally", "register", "value"), ("WeightedTally", "register", "weight"),
    ("TimestampWeightedTally", "register", "value"),
}
GTYPE = {"B": "bool", "Arg": "pyarg (F N)", "Alpha": "alpha_arg N", "CObs": "cobs", "Name": "pyname",
         "Z": "Z", "F": "F N", "XF": "xnum (F N)"}
# isinstance(p, T) on the universes: set of class names -> boolean term
ISINSTANCE = {
    ("Arg", frozenset({"int", "float"})): "py_arg_is_number",
    ("Alpha", frozenset({"float"})): "py_alpha_is_float",
    ("CObs", frozenset({"int"})): "py_cobs_is_int",
    ("Name", frozenset({"str"})): "py_name_is_str",
}
BUILTINS_USED = ("max", "min", "float", "isinstance", "int", "str", "super")

PRELUDE = r"""
(* ---- fixed prelude: Python primitives on the value universe of the models ---- *)
Inductive pyname := NameStr | NameOther.          (* the `name` argument: a str, or not *)
Definition py_name_is_str (x : pyname) : bool := match x with NameStr => true | NameOther => false end.
Definition py_cobs_is_int (o : cobs) : bool := match o with CInt _ => true | CNotInt => false end.
Definition py_cobs_int (o : cobs) : Z := match o with CInt z => z | CNotInt => 0%Z end.

Section GenPrelude.
  Variable N : Num.
  (* isinstance(x, (int, float)) *)
  Definition py_arg_is_number (o : pyarg (F N)) : bool :=
    match o with ONotNumber => false | _ => true end.
  (* math.isnan(x): the exception it raises, if any; otherwise its answer *)
  Definition py_arg_isnan_raises (o : pyarg (F N)) : option exn :=
    match o with OHugeInt => Some OverflowError | ONotNumber => Some TypeError | _ => None end.
  Definition py_arg_isnan_true (o : pyarg (F N)) : bool :=
    match o with ONum v => isnan v | ONaN => true | _ => false end.
  (* x as a float, used only where the guards established that x is a number and not nan *)
  Definition py_arg_num (o : pyarg (F N)) : F N := match o with ONum v => v | _ => zero end.
  Definition py_alpha_is_float (a : alpha_arg N) : bool :=
    match a with ANum _ => true | ANotFloat => false end.
  Definition py_alpha_num (a : alpha_arg N) : F N := match a with ANum x => x | ANotFloat => zero end.
  (* builtin min(a, b) = b if b < a else a  (max is Num.pymax) *)
  Definition pymin (a b : F N) : F N := if ltb b a then b else a.
  (* math.isnan of a time-stamp attribute (None = nan, Some x: x is not nan) *)
  Definition py_opt_isnan (o : option (F N)) : bool := match o with None => true | Some _ => false end.
End GenPrelude.
Arguments py_arg_is_number {N} o.
Arguments py_arg_isnan_raises {N} o.
Arguments py_arg_isnan_true {N} o.
Arguments py_arg_num {N} o.
Arguments py_alpha_is_float {N} a.
Arguments py_alpha_num {N} a.
Arguments pymin {N} a b.
Arguments py_opt_isnan {N} o.
"""


class Unsupported(Exception):
    def __init__(self, node, what):
        self.lineno = getattr(node, "lineno", 0)
        self.what = what
        super().__init__(f"{SRC}:{self.lineno}: unsupported construct: {what}")


class Impure(Exception):
    """raised inside pure_expr when the expression needs a bind (division, sqrt, getter call ...)"""


class NotSimple(Exception):
    pass


class V:
    """a translated value: type tag + Gallina text (atomic or parenthesised), or a constant"""
    __slots__ = ("ty", "tx", "const", "items")

    def __init__(self, ty, tx=None, const=None, items=None):
        self.ty, self.tx, self.const, self.items = ty, tx, const, items

    def key(self):
        return (self.ty, self.tx, self.const, tuple(i.key() for i in self.items) if self.items else None)


def ind(text: str, n: int = 2) -> str:
    pad = " " * n
    return "\n".join(pad + l if l else l for l in text.split("\n"))


def paren(text: str) -> str:
    t = text.strip()
    if "\n" in t or " " in t:
        return "(" + t + ")"
    return t


class Env:
    def __init__(self):
        self.fields = {}        # attr -> V
        self.sup = None         # text of the inherited part
        self.locals = {}        # name -> V
        self.facts = frozenset()
        self.base = "s"
        self.dirty = False
        self.inline = False

    def clone(self):
        e = Env()
        e.fields = dict(self.fields)
        e.sup = self.sup
        e.locals = dict(self.locals)
        e.facts = self.facts
        e.base = self.base
        e.dirty = self.dirty
        e.inline = self.inline
        return e

    def plus(self, facts):
        if not facts:
            return self
        e = self.clone()
        e.facts = self.facts | frozenset(facts)
        return e


class MethodCtx:
    def __init__(self, cls, name, node, kind, static):
        self.cls, self.name, self.node, self.kind, self.static = cls, name, node, kind, static
        self.counter = {}
        self.ret = set()
        self.uses_icdf = False

    def fresh(self, stem):
        stem = "".join(c if c.isalnum() or c == "_" else "_" for c in stem)
        self.counter[stem] = self.counter.get(stem, 0) + 1
        return f"{stem}_{self.counter[stem]}"


class Translator:
    def __init__(self, text: str):
        with warnings.catch_warnings():
            warnings.simplefilter("ignore")
            self.tree = ast.parse(text)
        self.lines = text.split("\n")
        self.classes = {}
        self.defs = []          # emitted definitions, dependency order
        self.sigs = {}          # (cls, meth, static) -> signature dict
        self.stack = []
        self.pure_depth = 0
        self.ctx = None
        self.translated = []    # evidence records
        self.module_checks()

    # ------------------------------------------------------------------ module level
    def fail(self, node, what):
        raise Unsupported(node, what)

    def module_checks(self):
        has_math = has_nd = False
        for st in self.tree.body:
            names = []
            if isinstance(st, ast.Import):
                for a in st.names:
                    bound = a.asname or a.name.split(".")[0]
                    names.append(bound)
                    if a.name == "math" and a.asname is None:
                        has_math = True
                    elif bound == "math":
                        self.fail(st, "the name `math` is bound to something else than the math module")
            elif isinstance(st, ast.ImportFrom):
                for a in st.names:
                    bound = a.asname or a.name
                    names.append(bound)
                    if a.name == "*":
                        self.fail(st, "star import (could rebind math / NormalDist / builtins)")
                    if bound == "NormalDist":
                        if st.module == "statistics" and a.name == "NormalDist":
                            has_nd = True
                        else:
                            self.fail(st, "the name `NormalDist` is not statistics.NormalDist")
                    elif bound == "math":
                        self.fail(st, "the name `math` is bound to something else than the math module")
            elif isinstance(st, (ast.FunctionDef, ast.AsyncFunctionDef, ast.ClassDef)):
                names.append(st.name)
                if isinstance(st, ast.ClassDef):
                    if st.name in self.classes:
                        self.fail(st, f"class {st.name} defined twice")
                    self.classes[st.name] = st
            elif isinstance(st, (ast.Assign, ast.AnnAssign, ast.AugAssign)):
                tg = st.targets if isinstance(st, ast.Assign) else [st.target]
                for t in tg:
                    for n in ast.walk(t):
                        if isinstance(n, ast.Name):
                            names.append(n.id)
            elif isinstance(st, ast.Expr) and isinstance(st.value, ast.Constant):
                pass
            else:
                self.fail(st, f"module-level statement {type(st).__name__}")
            for n in names:
                if n in BUILTINS_USED or (n in ("math", "NormalDist") and not isinstance(st, (ast.Import, ast.ImportFrom))):
                    self.fail(st, f"module rebinds the name `{n}`")
        self.has_math, self.has_nd = has_math, has_nd

    def class_checks(self, cname):
        sch = SCHEMA[cname]
        c = self.classes.get(cname)
        if c is None:
            raise Unsupported(self.tree, f"class {cname} not found")
        bases = [ast.unparse(b) for b in c.bases]
        if bases != sch["bases"] or c.keywords:
            self.fail(c, f"class {cname} has bases {bases}, the model assumes {sch['bases']}")
        if c.decorator_list:
            self.fail(c, f"decorated class {cname}")

    def find_method(self, cname, mname, node=None):
        c = self.classes[cname]
        found = [f for f in c.body if isinstance(f, (ast.FunctionDef, ast.AsyncFunctionDef)) and f.name == mname]
        if len(found) > 1:
            self.fail(found[1], f"{cname}.{mname} defined twice")
        if not found:
            for st in c.body:
                if isinstance(st, (ast.Assign, ast.AnnAssign)) and any(
                        isinstance(n, ast.Name) and n.id == mname for n in ast.walk(st)):
                    self.fail(st, f"{cname}.{mname} is bound by an assignment in the class body")
            return None
        f = found[0]
        if isinstance(f, ast.AsyncFunctionDef):
            self.fail(f, "async method")
        if f.decorator_list:
            self.fail(f, f"decorated method {cname}.{mname}")
        return f

    # ------------------------------------------------------------------ methods
    def method(self, cname, mname, static=(), node=None):
        """translate (once) and return the signature of gen_<cname>_<mname>[__static]"""
        key = (cname, mname, tuple(static))
        if key in self.sigs:
            return self.sigs[key]
        if key in self.stack:
            self.fail(node, f"recursion in {cname}.{mname} that is not resolved by constant arguments")
        f = self.find_method(cname, mname, node)
        if f is None:
            self.fail(node or self.classes[cname], f"method {cname}.{mname} not found")
        a = f.args
        if a.vararg or a.kwarg or a.kwonlyargs or a.posonlyargs:
            self.fail(f, f"{cname}.{mname}: *args / **kwargs / keyword-only / positional-only parameters")
        if not a.args or a.args[0].arg != "self":
            self.fail(f, f"{cname}.{mname}: first parameter is not `self`")
        params = []
        ndef = len(a.defaults)
        for i, p in enumerate(a.args[1:]):
            ty = PARAMS.get((cname, mname, p.arg)) or PARAMS_BY_NAME.get(p.arg)
            if ty is None:
                self.fail(p, f"parameter `{p.arg}` of {cname}.{mname} has no declared value universe")
            di = i - (len(a.args) - 1 - ndef)
            default = None
            if di >= 0:
                d = a.defaults[di]
                if not (isinstance(d, ast.Constant) and isinstance(d.value, bool) and ty == "B"):
                    self.fail(d, f"default value of `{p.arg}` is not a bool literal")
                default = d.value
            params.append((p.arg, ty, default))
        body = list(f.body)
        if body and isinstance(body[0], ast.Expr) and isinstance(body[0].value, ast.Constant) \
                and isinstance(body[0].value.value, str):
            body = body[1:]
        kind = "get" if any(isinstance(n, ast.Return) and n.value is not None for n in ast.walk(f)) else "mut"
        for n in ast.walk(f):
            if isinstance(n, (ast.FunctionDef, ast.AsyncFunctionDef, ast.Lambda, ast.ClassDef)) and n is not f:
                self.fail(n, "nested function / class / lambda")
            if isinstance(n, (ast.Yield, ast.YieldFrom, ast.Await, ast.Global, ast.Nonlocal)):
                self.fail(n, type(n).__name__)
        sdict = dict(static)
        ctx = MethodCtx(cname, mname, f, kind, sdict)
        saved_ctx, saved_pure = self.ctx, self.pure_depth
        self.ctx, self.pure_depth = ctx, 0
        self.stack.append(key)
        try:
            sch = SCHEMA[cname]
            env = Env()
            for attr, proj, ty in sch["fields"]:
                env.fields[attr] = V(ty, f"({proj} s)")
            if sch["super"]:
                env.sup = f"({sch['super'][1]} s)"
            gparams = []
            for pn, ty, _d in params:
                if pn in sdict:
                    env.locals[pn] = V("B", const=sdict[pn])
                else:
                    env.locals[pn] = V(ty, "p_" + pn)
                    gparams.append((pn, ty))
            name = f"gen_{cname}_{mname}" + "".join(f"__{k}_{str(v).lower()}" for k, v in static)
            bare = None
            if kind == "get" and len(body) == 1 and isinstance(body[0], ast.Return):
                try:
                    v = self.pure_expr(body[0].value, env)
                    if v.ty in ("Z", "F", "XF", "B") and v.const is None:
                        bare = v
                except Impure:
                    bare = None
            if bare is not None:
                text, rty = bare.tx, GTYPE[bare.ty]
                result = ("bare", bare.ty)
            elif kind == "get":
                text = self.block(body, env, lambda e: self.fail(f, f"getter {cname}.{mname} can end without `return`"))
                if ctx.ret == {"F"}:
                    rty, result = "res (F N)", ("res", "F")
                elif ctx.ret == {"Pair"}:
                    rty, result = "res (xnum (F N) * xnum (F N))", ("res", "Pair")
                else:
                    self.fail(f, f"getter {cname}.{mname} returns values of kinds {sorted(ctx.ret)}")
            else:
                text = self.block(body, env, lambda e: "Ok " + self.state_term(e))
                rty, result = f"outcome ({sch['state']})", ("outcome",)
            binders = ("(icdf : F N -> res (F N)) " if ctx.uses_icdf else "") + f"(s : {sch['state']})" + \
                "".join(f" (p_{pn} : {GTYPE[ty]})" for pn, ty in gparams)
            src_lines = self.lines[f.lineno - 1:f.end_lineno]
            header = f"(* {cname}.{mname}" + (" with " + ", ".join(f"{k} = {v}" for k, v in static) if static else "") + \
                f"  -- statistics.py lines {f.lineno}-{f.end_lineno} *)"
            self.defs.append(f"{header}\nDefinition {name} {binders} : {rty} :=\n{ind(text)}.")
            sig = {"name": name, "params": gparams, "all_params": params, "result": result, "icdf": ctx.uses_icdf,
                   "kind": kind, "cls": cname}
            self.sigs[key] = sig
            self.translated.append({"class": cname, "method": mname, "static": dict(static), "definition": name,
                                    "lines": [f.lineno, f.end_lineno],
                                    "sha1": hashlib.sha1("\n".join(src_lines).encode("utf-8")).hexdigest()})
            return sig
        finally:
            self.stack.pop()
            self.ctx, self.pure_depth = saved_ctx, saved_pure

    # ------------------------------------------------------------------ state / raise
    def state_term(self, env):
        if not env.dirty:
            return env.base
        sch = SCHEMA[self.ctx.cls]
        parts = ([env.sup] if sch["super"] else []) + [env.fields[a].tx for a, _p, _t in sch["fields"]]
        return "(" + sch["ctor"] + " " + " ".join(parts) + ")"

    def raise_(self, env, kind):
        """kind: an exception constructor or a bound Gallina variable"""
        if self.ctx.kind == "get":
            return f"Raise {kind}"
        return f"Exn {kind} {self.state_term(env)}"

    def effect(self):
        if self.pure_depth:
            raise Impure()

    # ------------------------------------------------------------------ statements
    def block(self, stmts, env, k):
        if not stmts:
            return k(env)
        s, rest = stmts[0], stmts[1:]
        return self.stmt(s, env, lambda e2: self.block(rest, e2, k))

    def stmt(self, s, env, k):
        if isinstance(s, ast.Pass):
            return k(env)
        if isinstance(s, ast.Raise):
            return self.raise_(env, self.exc_name(s))
        if isinstance(s, ast.Return):
            if self.ctx.kind == "mut":
                if s.value is not None:
                    self.fail(s, "return with a value in a mutator")
                return "Ok " + self.state_term(env)
            if s.value is None:
                self.fail(s, "bare return in a getter")
            return self.expr(s.value, env, lambda v: self.ret(s, v))
        if isinstance(s, ast.Assign):
            if len(s.targets) != 1:
                self.fail(s, "multiple assignment targets")
            return self.expr(s.value, env, lambda v: self.assign(s, s.targets[0], v, env, k))
        if isinstance(s, ast.AugAssign):
            load = ast.copy_location(ast.Attribute(value=s.target.value, attr=s.target.attr, ctx=ast.Load()), s.target) \
                if isinstance(s.target, ast.Attribute) else \
                (ast.copy_location(ast.Name(id=s.target.id, ctx=ast.Load()), s.target) if isinstance(s.target, ast.Name) else None)
            if load is None:
                self.fail(s, f"augmented assignment to {type(s.target).__name__}")
            e = ast.copy_location(ast.BinOp(left=load, op=s.op, right=s.value), s)
            return self.expr(e, env, lambda v: self.assign(s, s.target, v, env, k))
        if isinstance(s, ast.If):
            return self.if_(s, env, k)
        if isinstance(s, ast.Expr):
            if isinstance(s.value, ast.Call):
                return self.call_stmt(s.value, env, k)
            self.fail(s, f"expression statement {type(s.value).__name__}")
        self.fail(s, f"statement {type(s).__name__}")

    def exc_name(self, s):
        e = s.exc
        if s.cause is not None or e is None:
            self.fail(s, "raise without exception / raise ... from")
        if isinstance(e, ast.Call) and isinstance(e.func, ast.Name) and not e.keywords:
            for a in e.args:
                if isinstance(a, ast.Constant) and isinstance(a.value, str):
                    continue
                if isinstance(a, ast.JoinedStr) and all(
                        isinstance(p, ast.Constant) or (isinstance(p, ast.FormattedValue) and isinstance(p.value, ast.Name)
                                                         and p.format_spec is None and p.conversion == -1)
                        for p in a.values):
                    continue
                self.fail(a, "exception argument that is not a string literal")
            nm = e.func.id
        elif isinstance(e, ast.Name):
            nm = e.id
        else:
            self.fail(s, "raise of something else than `Exc(..)`")
        if nm not in EXN:
            self.fail(s, f"raise {nm} (the models know {', '.join(EXN)})")
        return nm

    def assign(self, node, target, v, env, k):
        if isinstance(target, ast.Attribute):
            if not (isinstance(target.value, ast.Name) and target.value.id == "self"):
                self.fail(node, "assignment to an attribute of something else than self")
            sch = SCHEMA[self.ctx.cls]
            if target.attr in sch["ignored"]:
                if v.ty not in ("Name",):
                    self.fail(node, f"assignment to self.{target.attr} of a value that is not the name argument")
                return k(env)
            ft = {a: t for a, _p, t in sch["fields"]}.get(target.attr)
            if ft is None:
                self.fail(node, f"assignment to attribute self.{target.attr}, which the model state does not have")
            cv = self.coerce_field(node, ft, v, env)
            e2 = env.clone()
            e2.dirty = True
            if env.inline:
                e2.fields[target.attr] = cv
                return k(e2)
            nm = self.ctx.fresh("f" + target.attr)
            e2.fields[target.attr] = V(ft, nm)
            return f"let {nm} := {cv.tx} in\n{k(e2)}"
        if isinstance(target, ast.Name):
            if target.id == "self":
                self.fail(node, "assignment to self")
            old = env.locals.get(target.id)
            if old is not None and old.ty in ("Arg", "Alpha", "CObs", "Name") and old.tx == "p_" + target.id:
                # `p = float(p)` behind the guards: on the model's value universe (floats, ints / bools exactly
                # representable as float) this is the identity, p simply becomes a float-valued local.  (What it
                # does to a Quantity -- its si-value -- is outside this universe: the correspondence run covers it.)  Only for the parameters in FLOAT_COERCIBLE: a timestamp may be an int
                # beyond 2^53, which float() changes -- coercing one is refused like any other assignment.
                if (self.ctx.cls, self.ctx.name, target.id) in FLOAT_COERCIBLE and old.ty == "Arg" \
                        and v.ty == "F" and v.tx == f"(py_arg_num {old.tx})":
                    e2 = env.clone()
                    e2.locals[target.id] = v
                    return k(e2)
                self.fail(node, f"assignment to the parameter `{target.id}`")
            e2 = env.clone()
            if v.ty == "Pair":
                self.fail(node, "tuple assigned to a local")
            if env.inline or v.tx is None or v.tx.isidentifier():
                e2.locals[target.id] = v
                return k(e2)
            nm = self.ctx.fresh("v_" + target.id)
            e2.locals[target.id] = V(v.ty, nm)
            return f"let {nm} := {v.tx} in\n{k(e2)}"
        self.fail(node, f"assignment target {type(target).__name__}")

    def coerce_field(self, node, ft, v, env):
        if ft == "Z":
            v = self.numeric(node, v, env)
            if v.ty == "Z":
                return V("Z", self.ztext(v))
        elif ft == "F":
            v = self.numeric(node, v, env)
            if v.ty in ("Z", "F"):
                return V("F", self.ftext(v))
        elif ft == "XF":
            if v.ty == "XF":
                return v
            if v.ty == "NaN":
                return V("XF", "XNaN")
            if v.ty == "PInf":
                return V("XF", "XPInf")
            if v.ty == "NInf":
                return V("XF", "XNInf")
            v = self.numeric(node, v, env)
            if v.ty in ("Z", "F"):
                return V("XF", f"(XFin {self.ftext(v)})")
        elif ft == "OF":
            if v.ty == "NaN":
                return V("OF", "None")
            if v.ty == "OF":
                return v
            if v.ty == "Arg" and (v.tx, "inst") in env.facts and (v.tx, "notnan") in env.facts:
                return V("OF", f"(Some (py_arg_num {v.tx}))")
            self.fail(node, "a time-stamp attribute (nan or a proper number) is assigned a value that is not known to be a non-nan number")
        elif ft == "B":
            if v.ty == "B":
                return V("B", self.btext(v))
        self.fail(node, f"value of kind {v.ty} stored in a field of kind {ft}")

    # ---- if
    def if_(self, s, env, k):
        # join form: both branches only assign pure values -> one `let x := if c then a else b` per changed name
        plan = None
        try:
            c, ft, ff = self.pure_cond(s.test, env)
            if c.const is None:
                et = self.simple_block(s.body, env.plus(ft))
                ef = self.simple_block(s.orelse, env.plus(ff))
                plan = self.join(s, c, env, et, ef)
        except (Impure, NotSimple):
            plan = None
        if plan is not None:
            lets, e2 = plan
            return "\n".join(lets + [k(e2)])
        return self.cond(s.test, env,
                         lambda e1: self.block(s.body, e1, k),
                         lambda e1: self.block(s.orelse, e1, k))

    def simple_block(self, stmts, env):
        e = env.clone()
        e.inline = True
        box = [e]
        for st in stmts:
            if isinstance(st, ast.Pass):
                continue
            if not isinstance(st, (ast.Assign, ast.AugAssign)):
                raise NotSimple()
            self.pure_depth += 1
            try:
                out = []
                self.stmt(st, box[0], lambda e2: (out.append(e2), "")[1])
            finally:
                self.pure_depth -= 1
            if len(out) != 1:
                raise NotSimple()
            box[0] = out[0]
        return box[0]

    def join(self, node, c, env, et, ef):
        e2 = env.clone()
        lets = []
        sch = SCHEMA[self.ctx.cls]
        for attr, _p, ty in sch["fields"]:
            a, b = et.fields[attr], ef.fields[attr]
            if a.key() != b.key():
                nm = self.ctx.fresh("f" + attr)
                lets.append(f"let {nm} := if {c.tx} then {a.tx} else {b.tx} in")
                e2.fields[attr] = V(ty, nm)
                e2.dirty = True
        for nme in sorted(set(et.locals) | set(ef.locals)):
            a, b = et.locals.get(nme), ef.locals.get(nme)
            if a is None or b is None:
                raise NotSimple()
            if a.key() != b.key():
                if a.ty != b.ty or a.ty not in ("Z", "F", "B", "XF") or a.tx is None or b.tx is None:
                    raise NotSimple()
                nm = self.ctx.fresh("v_" + nme)
                lets.append(f"let {nm} := if {c.tx} then {a.tx} else {b.tx} in")
                e2.locals[nme] = V(a.ty, nm)
        return lets, e2

    # ---- calls as statements: self.m(..), super().m(..)
    def call_stmt(self, c, env, k):
        if c.keywords:
            self.fail(c, "keyword arguments")
        f = c.func
        if isinstance(f, ast.Attribute) and isinstance(f.value, ast.Name) and f.value.id == "self":
            target_cls, on_super = self.ctx.cls, False
            if self.find_method(target_cls, f.attr, c) is None:
                self.fail(c, f"self.{f.attr}(): not a method of {target_cls} (inherited methods are not resolved)")
        elif isinstance(f, ast.Attribute) and isinstance(f.value, ast.Call) and isinstance(f.value.func, ast.Name) \
                and f.value.func.id == "super" and not f.value.args and not f.value.keywords:
            sup = SCHEMA[self.ctx.cls]["super"]
            if not sup:
                self.fail(c, "super() call in a class whose base is not modelled")
            target_cls, on_super = sup[0], True
        else:
            self.fail(c, f"call statement `{ast.unparse(c)[:60]}`")
        if f.attr == "__init__":
            self.fail(c, "call of __init__ (dynamic dispatch of initialize in the base constructor is not modelled)")
        if self.ctx.kind != "mut":
            self.fail(c, "call of a mutator inside a getter")
        sig = self.method(target_cls, f.attr, (), c)
        if sig["kind"] != "mut":
            self.fail(c, f"result of {f.attr}() is discarded")
        if sig["icdf"]:
            self.fail(c, "mutator using inv_cdf")
        if len(c.args) != len(sig["params"]):
            self.fail(c, f"{f.attr}() called with {len(c.args)} arguments, it has {len(sig['params'])} parameters")

        def with_args(args):
            self.effect()
            argtx = []
            for (pn, ty), v in zip(sig["params"], args):
                argtx.append(self.as_param(c, ty, v, env))
            if on_super:
                w, kk = self.ctx.fresh("w"), self.ctx.fresh("k")
                e2 = env.clone()
                e2.sup, e2.dirty = w, True
                e3 = env.clone()
                e3.sup, e3.dirty = w, True
                return (f"match {sig['name']} {env.sup} {' '.join(argtx)} with\n"
                        f"| Ok {w} =>\n{ind(k(e2))}\n"
                        f"| Exn {kk} {w} => Exn {kk} {self.state_term(e3)}\nend")
            s1, kk = self.ctx.fresh("s"), self.ctx.fresh("k")
            sch = SCHEMA[self.ctx.cls]
            e2 = env.clone()
            e2.base, e2.dirty = s1, False
            for attr, proj, ty in sch["fields"]:
                e2.fields[attr] = V(ty, f"({proj} {s1})")
            if sch["super"]:
                e2.sup = f"({sch['super'][1]} {s1})"
            return (f"match {sig['name']} {self.state_term(env)} {' '.join(argtx)} with\n"
                    + f"| Ok {s1} =>\n{ind(k(e2))}\n"
                    f"| Exn {kk} {s1} => Exn {kk} {s1}\nend")

        return self.exprs(c.args, env, with_args)

    def as_param(self, node, ty, v, env):
        if ty == v.ty and ty in ("Arg", "Alpha", "CObs", "Name"):
            return v.tx
        if ty == "Arg":
            if v.ty == "NaN":
                return "ONaN"
            v = self.numeric(node, v, env)
            if v.ty in ("Z", "F"):
                return f"(ONum {self.ftext(v)})"
        if ty == "B" and v.ty == "B":
            return self.btext(v)
        self.fail(node, f"argument of kind {v.ty} passed for a parameter of kind {ty}")

    def exprs(self, es, env, k, acc=()):
        if not es:
            return k(list(acc))
        return self.expr(es[0], env, lambda v: self.exprs(es[1:], env, k, acc + (v,)))

    # ------------------------------------------------------------------ return
    def ret(self, node, v):
        if v.ty == "NaN":
            self.ctx.ret.add("F")
            return "NaNres"
        if v.ty == "F":
            self.ctx.ret.add("F")
            return f"Val {v.tx if v.const is None else self.ftext(v)}"
        if v.ty == "Pair":
            self.ctx.ret.add("Pair")
            if len(v.items) != 2:
                self.fail(node, "returned tuple is not a pair")
            if all(i.ty == "NaN" for i in v.items):
                return "NaNres"
            xs = [self.coerce_field(node, "XF", i, Env()).tx for i in v.items]
            return f"Val ({xs[0]}, {xs[1]})"
        self.fail(node, f"return of a value of kind {v.ty} in a getter that can also raise / answer nan")

    # ------------------------------------------------------------------ texts
    def ztext(self, v):
        if v.const is not None:
            return f"{v.const}%Z" if v.const >= 0 else f"({v.const})%Z"
        return v.tx

    def ftext(self, v):
        """Gallina float term of a Z or F value"""
        if v.const is not None:
            return "zero" if v.const == 0 else (f"#{v.const}" if v.const > 0 else f"#({v.const})")
        if v.ty == "Z":
            t = v.tx
            if t.endswith(")%Z"):
                t = t[:-2]
            return "#" + (t if t.startswith("(") else f"({t})")
        return v.tx

    def btext(self, v):
        if v.const is not None:
            return "true" if v.const else "false"
        return v.tx

    def numeric(self, node, v, env):
        """a value used as a number: Z, F, NaN or OF"""
        if v.ty in ("Z", "F", "NaN", "OF"):
            return v
        if v.ty == "Arg":
            if (v.tx, "inst") in env.facts and (v.tx, "notnan") in env.facts:
                return V("F", f"(py_arg_num {v.tx})")
            self.fail(node, f"parameter {v.tx[2:]} used as a number where the isinstance / isnan guards do not establish that it is one")
        if v.ty == "Alpha":
            if (v.tx, "inst") in env.facts:
                return V("F", f"(py_alpha_num {v.tx})")
            self.fail(node, f"parameter {v.tx[2:]} used as a number without an isinstance guard")
        if v.ty == "CObs":
            if (v.tx, "inst") in env.facts:
                return V("Z", f"(py_cobs_int {v.tx})")
            self.fail(node, f"parameter {v.tx[2:]} used as a number without an isinstance guard")
        self.fail(node, f"value of kind {v.ty} used as a number")

    # ------------------------------------------------------------------ expressions (CPS)
    def pure_expr(self, e, env):
        box = []
        self.pure_depth += 1
        try:
            self.expr(e, env, lambda v: (box.append(v), "")[1])
        finally:
            self.pure_depth -= 1
        if len(box) != 1:
            raise Impure()
        return box[0]

    def expr(self, e, env, k):
        if isinstance(e, ast.Constant):
            c = e.value
            if isinstance(c, bool):
                return k(V("B", const=c))
            if isinstance(c, int):
                return k(V("Z", const=c))
            if isinstance(c, float):
                if c != c or c in (float("inf"), float("-inf")) or c != int(c):
                    self.fail(e, f"float literal {c!r} that is not integral (Num has only ofZ)")
                return k(V("F", const=int(c)))
            self.fail(e, f"literal {c!r}")
        if isinstance(e, ast.Name):
            if e.id in env.locals:
                return k(env.locals[e.id])
            self.fail(e, f"name `{e.id}` (not a parameter or a local assigned on every path before)")
        if isinstance(e, ast.Attribute):
            if isinstance(e.value, ast.Name) and e.value.id == "self":
                if e.attr in env.fields:
                    return k(env.fields[e.attr])
                sch = SCHEMA[self.ctx.cls]
                if sch["super"]:
                    for a, p, t in SCHEMA[sch["super"][0]]["fields"]:
                        if a == e.attr:
                            return k(V(t, f"({p} {env.sup})"))
                self.fail(e, f"attribute self.{e.attr}, which the model state does not have")
            if isinstance(e.value, ast.Name) and e.value.id == "math" and "math" not in env.locals:
                if not self.has_math:
                    self.fail(e, "`math` is not imported")
                if e.attr == "nan":
                    return k(V("NaN"))
                if e.attr == "inf":
                    return k(V("PInf"))
                self.fail(e, f"math.{e.attr}")
            self.fail(e, f"attribute access `{ast.unparse(e)[:50]}`")
        if isinstance(e, ast.UnaryOp):
            if isinstance(e.op, ast.Not):
                return k(self.bool_value(e, env))
            if isinstance(e.op, (ast.USub, ast.UAdd)):
                neg = isinstance(e.op, ast.USub)

                def un(v):
                    if v.ty in ("Z", "F") and v.const is not None:
                        return k(V(v.ty, const=-v.const if neg else v.const))
                    if v.ty in ("PInf", "NInf"):
                        return k(V({"PInf": "NInf", "NInf": "PInf"}[v.ty]) if neg else v)
                    if v.ty == "NaN":
                        return k(v)
                    if not neg and v.ty in ("Z", "F"):
                        return k(v)
                    self.fail(e, "unary minus on something else than a literal or math.inf (Num has no negation)")
                return self.expr(e.operand, env, un)
            self.fail(e, f"unary operator {type(e.op).__name__}")
        if isinstance(e, ast.BinOp):
            op = {ast.Add: "+", ast.Sub: "-", ast.Mult: "*", ast.Div: "/"}.get(type(e.op))
            if op is None:
                self.fail(e, f"binary operator {type(e.op).__name__}")
            return self.expr(e.left, env, lambda a: self.expr(e.right, env, lambda b: self.arith(e, op, a, b, env, k)))
        if isinstance(e, (ast.Compare, ast.BoolOp)):
            return k(self.bool_value(e, env))
        if isinstance(e, ast.Tuple):
            return self.exprs(e.elts, env, lambda vs: k(V("Pair", items=vs)))
        if isinstance(e, ast.Call):
            return self.call(e, env, k)
        self.fail(e, f"expression {type(e).__name__}")

    def bool_value(self, e, env):
        """a boolean expression used as a value (not as the test of an `if`): only without binds"""
        if self.pure_depth:
            return self.pure_cond(e, env)[0]
        try:
            return self.pure_cond(e, env)[0]
        except Impure:
            self.fail(e, "boolean expression that needs a bind (division, sqrt, call) used as a value")

    def arith(self, node, op, a, b, env, k):
        a, b = self.numeric(node, a, env), self.numeric(node, b, env)
        for which, x in (("a", a), ("b", b)):
            if x.ty == "OF":
                self.effect()
                y = self.ctx.fresh("t")
                some = self.arith(node, op, V("F", y) if which == "a" else a, V("F", y) if which == "b" else b, env, k)
                none = self.arith(node, op, V("NaN") if which == "a" else a, V("NaN") if which == "b" else b, env, k)
                return f"match {x.tx} with\n| Some {y} =>\n{ind(some)}\n| None =>\n{ind(none)}\nend"
        if a.ty == "Z" and b.ty == "Z":
            if op == "/":
                self.fail(node, "int / int")
            if a.const is not None and b.const is not None:
                return k(V("Z", const={"+": a.const + b.const, "-": a.const - b.const, "*": a.const * b.const}[op]))
            return k(V("Z", f"({self.ztext(a)} {op} {self.ztext(b)})%Z"))
        if a.ty == "NaN" or b.ty == "NaN":
            if op == "/" and b.ty != "NaN":
                self.effect()
                bt = self.ftext(b)
                return f"if eqb {bt} zero then {self.raise_(env, 'ZeroDivisionError')} else\n{k(V('NaN'))}"
            return k(V("NaN"))
        at, bt = self.ftext(a), self.ftext(b)
        if op == "/":
            self.effect()
            return f"if eqb {bt} zero then {self.raise_(env, 'ZeroDivisionError')} else\n{k(V('F', f'({at} / {bt})'))}"
        return k(V("F", f"({at} {op} {bt})"))

    # ---- comparisons
    def cmp(self, node, op, a, b, env):
        def prep(v):
            if v.ty in ("XF", "OF", "NaN"):
                return v
            return self.numeric(node, v, env)
        a, b = prep(a), prep(b)
        if a.ty == "NaN" or b.ty == "NaN":
            return V("B", const=(op == "!="))
        if a.ty == "Z" and b.ty == "Z":
            if a.const is not None and b.const is not None:
                return V("B", const=eval(f"{a.const} {op} {b.const}"))
            x, y = self.ztext(a), self.ztext(b)
            t = {"<": f"({x} <? {y})%Z", ">": f"({y} <? {x})%Z", "<=": f"({x} <=? {y})%Z", ">=": f"({y} <=? {x})%Z",
                 "==": f"({x} =? {y})%Z", "!=": f"(negb ({x} =? {y})%Z)"}[op]
            return V("B", t)
        if a.ty in ("Z", "F") and b.ty in ("Z", "F"):
            x, y = self.ftext(a), self.ftext(b)
            t = {"<": f"(ltb {x} {y})", ">": f"(ltb {y} {x})", "<=": f"(leb {x} {y})", ">=": f"(leb {y} {x})",
                 "==": f"(eqb {x} {y})", "!=": f"(negb (eqb {x} {y}))"}[op]
            return V("B", t)
        flip = {"<": ">", ">": "<", "<=": ">=", ">=": "<=", "==": "==", "!=": "!="}
        if a.ty in ("XF", "OF") and b.ty in ("Z", "F"):
            a, b, op = b, a, flip[op]
        if a.ty in ("Z", "F") and b.ty == "XF":
            x = self.ftext(a)
            if op == "<":
                return V("B", f"(x_gt_val {b.tx} {x})")
            if op == ">":
                return V("B", f"(x_lt_val {b.tx} {x})")
            self.fail(node, f"comparison `{op}` with a min / max attribute (only < and > are modelled)")
        if a.ty in ("Z", "F") and b.ty == "OF":
            x, y = self.ftext(a), self.ctx.fresh("t")
            body = {"<": f"ltb {x} {y}", ">": f"ltb {y} {x}", "<=": f"leb {x} {y}", ">=": f"leb {y} {x}",
                    "==": f"eqb {x} {y}"}.get(op)
            if body is None:
                self.fail(node, "`!=` with a time-stamp attribute")
            return V("B", f"(match {b.tx} with Some {y} => {body} | None => false end)")
        self.fail(node, f"comparison between values of kinds {a.ty} and {b.ty}")

    CMPOPS = {ast.Lt: "<", ast.Gt: ">", ast.LtE: "<=", ast.GtE: ">=", ast.Eq: "==", ast.NotEq: "!="}

    def isnan_value(self, node, v, env):
        if v.ty == "NaN":
            return V("B", const=True)
        if v.ty == "F":
            return V("B", f"(isnan {v.tx})") if v.const is None else V("B", const=False)
        if v.ty == "Z":
            return V("B", const=False)
        if v.ty == "XF":
            return V("B", f"(x_isnan {v.tx})")
        if v.ty == "OF":
            return V("B", f"(py_opt_isnan {v.tx})")
        self.fail(node, f"math.isnan of a value of kind {v.ty}")

    def is_math_call(self, e, name, env):
        return (isinstance(e, ast.Call) and isinstance(e.func, ast.Attribute) and isinstance(e.func.value, ast.Name)
                and e.func.value.id == "math" and "math" not in env.locals and e.func.attr == name)

    def pure_cond(self, e, env):
        """(boolean V, facts when true, facts when false); raises Impure when a bind is needed"""
        if isinstance(e, ast.BoolOp):
            is_and = isinstance(e.op, ast.And)
            acc, facts, cur = None, set(), env
            for x in e.values:
                v, ft, ff = self.pure_cond(x, cur)
                gained = set(ft if is_and else ff)
                if v.const is not None and v.const != is_and:
                    # False in `and` / True in `or` decides; the operands before it are pure
                    return V("B", const=v.const), set(), set()
                facts |= gained
                cur = cur.plus(gained)
                if v.const is None:
                    acc = v if acc is None else V("B", f"({acc.tx} {'&&' if is_and else '||'} {v.tx})")
            if acc is None:
                acc = V("B", const=is_and)
            return acc, (facts if is_and else set()), (set() if is_and else facts)
        if isinstance(e, ast.UnaryOp) and isinstance(e.op, ast.Not):
            v, ft, ff = self.pure_cond(e.operand, env)
            if v.const is not None:
                return V("B", const=not v.const), ff, ft
            return V("B", f"(negb {v.tx})"), ff, ft
        if isinstance(e, ast.Compare):
            vals = [self.pure_expr(x, env) for x in [e.left] + list(e.comparators)]
            parts = []
            for i, o in enumerate(e.ops):
                op = self.CMPOPS.get(type(o))
                if op is None:
                    self.fail(e, f"comparison operator {type(o).__name__}")
                parts.append(self.cmp(e, op, vals[i], vals[i + 1], env))
            if any(p.const is False for p in parts):
                return V("B", const=False), set(), set()
            dyn = [p for p in parts if p.const is None]
            if not dyn:
                return V("B", const=True), set(), set()
            t = dyn[0].tx
            for p in dyn[1:]:
                t = f"({t} && {p.tx})"
            return V("B", t), set(), set()
        if isinstance(e, ast.Call) and isinstance(e.func, ast.Name) and e.func.id == "isinstance" \
                and "isinstance" not in env.locals:
            if len(e.args) != 2 or e.keywords:
                self.fail(e, "isinstance with other than two arguments")
            p = self.pure_expr(e.args[0], env)
            t = e.args[1]
            names = [t] if isinstance(t, ast.Name) else (list(t.elts) if isinstance(t, ast.Tuple) else None)
            if names is None or not all(isinstance(n, ast.Name) for n in names):
                self.fail(e, "isinstance against something else than builtin type names")
            fn = ISINSTANCE.get((p.ty, frozenset(n.id for n in names)))
            if fn is None or p.tx is None or not p.tx.startswith("p_"):
                self.fail(e, f"isinstance test `{ast.unparse(e)}` cannot be decided on the model's value universe ({p.ty})")
            return V("B", f"({fn} {p.tx})"), {(p.tx, "inst")}, set()
        if self.is_math_call(e, "isnan", env):
            if len(e.args) != 1 or e.keywords:
                self.fail(e, "math.isnan with other than one argument")
            v = self.pure_expr(e.args[0], env)
            if v.ty == "Arg":
                raise Impure()
            return self.isnan_value(e, v, env), set(), set()
        if isinstance(e, (ast.Name, ast.Attribute, ast.Constant)):
            v = self.pure_expr(e, env)
            if v.ty == "B":
                return v, set(), set()
            self.fail(e, f"truth value of a value of kind {v.ty} (only bools are tested)")
        self.fail(e, f"condition {type(e).__name__}")

    def cond(self, e, env, kt, kf):
        def branch(v, ft=(), ff=()):
            if v.const is not None:
                return kt(env.plus(ft)) if v.const else kf(env.plus(ff))
            return f"if {v.tx} then\n{ind(paren_block(kt(env.plus(ft))))}\nelse\n{ind(paren_block(kf(env.plus(ff))))}"
        try:
            decided = self.pure_cond(e, env)
        except Impure:
            decided = None
        if decided is not None:
            return branch(*decided)
        self.effect()
        if isinstance(e, ast.BoolOp):
            first, rest = e.values[0], e.values[1:]
            more = rest[0] if len(rest) == 1 else ast.copy_location(ast.BoolOp(op=e.op, values=rest), e)
            if isinstance(e.op, ast.And):
                return self.cond(first, env, lambda e1: self.cond(more, e1, kt, kf), kf)
            return self.cond(first, env, kt, lambda e1: self.cond(more, e1, kt, kf))
        if isinstance(e, ast.UnaryOp) and isinstance(e.op, ast.Not):
            return self.cond(e.operand, env, kf, kt)
        if isinstance(e, ast.Compare):
            if len(e.ops) != 1:
                self.fail(e, "chained comparison whose operands need a bind")
            op = self.CMPOPS.get(type(e.ops[0]))
            if op is None:
                self.fail(e, f"comparison operator {type(e.ops[0]).__name__}")
            return self.expr(e.left, env, lambda a: self.expr(e.comparators[0], env,
                                                               lambda b: branch(self.cmp(e, op, a, b, env))))
        if self.is_math_call(e, "isnan", env):
            def after(v):
                if v.ty == "Arg":
                    if (v.tx, "inst") not in env.facts:
                        self.fail(e, f"math.isnan({v.tx[2:]}) without an isinstance guard in front")
                    kk = self.ctx.fresh("k")
                    return (f"match py_arg_isnan_raises {v.tx} with\n| Some {kk} => {self.raise_(env, kk)}\n| None =>\n"
                            + ind(f"if py_arg_isnan_true {v.tx} then\n{ind(paren_block(kt(env)))}\nelse\n"
                                  f"{ind(paren_block(kf(env.plus([(v.tx, 'notnan')]))))}") + "\nend")
                return branch(self.isnan_value(e, v, env))
            return self.expr(e.args[0], env, after)
        self.fail(e, f"condition {type(e).__name__} that needs a bind")

    # ---- calls in expressions
    def call(self, e, env, k):
        if e.keywords:
            self.fail(e, "keyword arguments")
        f = e.func
        if any(isinstance(a, ast.Starred) for a in e.args):
            self.fail(e, "starred argument")
        if isinstance(f, ast.Name) and f.id not in env.locals:
            if f.id == "isinstance":
                return k(self.bool_value(e, env))
            if f.id == "float" and len(e.args) == 1:
                def fl(v):
                    v = self.numeric(e, v, env)
                    if v.ty == "Z":
                        return k(V("F", self.ftext(v)) if v.const is None else V("F", const=v.const))
                    if v.ty in ("F", "NaN"):
                        return k(v)
                    self.fail(e, f"float() of a value of kind {v.ty}")
                return self.expr(e.args[0], env, fl)
            if f.id in ("max", "min") and len(e.args) == 2:
                return self.exprs(e.args, env, lambda vs: self.minmax(e, f.id, vs[0], vs[1], env, k))
            self.fail(e, f"call of `{f.id}` with {len(e.args)} arguments")
        if isinstance(f, ast.Attribute) and isinstance(f.value, ast.Name) and f.value.id == "math" and "math" not in env.locals:
            if not self.has_math:
                self.fail(e, "`math` is not imported")
            if f.attr == "isnan":
                return k(self.bool_value(e, env))
            if f.attr == "sqrt" and len(e.args) == 1:
                def sq(v):
                    v = self.numeric(e, v, env)
                    if v.ty == "NaN":
                        return k(v)
                    if v.ty not in ("Z", "F"):
                        self.fail(e, f"math.sqrt of a value of kind {v.ty}")
                    self.effect()
                    t = self.ftext(v)
                    return f"if ltb {t} zero then {self.raise_(env, 'ValueError')} else\n{k(V('F', f'(sqrt {t})'))}"
                return self.expr(e.args[0], env, sq)
            self.fail(e, f"math.{f.attr}()")
        if isinstance(f, ast.Attribute) and isinstance(f.value, ast.Name) and f.value.id == "self":
            return self.getter_call(e, f.attr, env, k)
        if isinstance(f, ast.Attribute) and f.attr == "inv_cdf" and isinstance(f.value, ast.Call) \
                and isinstance(f.value.func, ast.Name) and f.value.func.id == "NormalDist" and "NormalDist" not in env.locals:
            nd = f.value
            if not self.has_nd:
                self.fail(e, "`NormalDist` is not imported from statistics")
            if nd.keywords or len(nd.args) != 2 or not all(
                    isinstance(a, ast.Constant) and type(a.value) in (int, float) for a in nd.args) \
                    or float(nd.args[0].value) != 0.0 or float(nd.args[1].value) != 1.0 or len(e.args) != 1:
                self.fail(e, "NormalDist(..).inv_cdf other than NormalDist(0.0, 1.0).inv_cdf(p)")

            def icdf(v):
                v = self.numeric(e, v, env)
                if v.ty != "F":
                    self.fail(e, f"inv_cdf of a value of kind {v.ty}")
                self.effect()
                self.ctx.uses_icdf = True
                x, kk = self.ctx.fresh("z"), self.ctx.fresh("k")
                return (f"match icdf {self.ftext(v)} with\n| Raise {kk} => {self.raise_(env, kk)}\n"
                        f"| NaNres =>\n{ind(k(V('NaN')))}\n| Val {x} =>\n{ind(k(V('F', x)))}\nend")
            return self.expr(e.args[0], env, icdf)
        self.fail(e, f"call `{ast.unparse(e)[:60]}`")

    def minmax(self, node, which, a, b, env, k):
        def prep(v):
            return v if v.ty in ("XF", "NaN") else self.numeric(node, v, env)
        a, b = prep(a), prep(b)
        if b.ty == "NaN":                       # b > a / b < a is False: the first argument
            return k(a)
        if a.ty == "NaN":                       # nan first: the second only if it compares, never
            return k(a)
        if a.ty in ("Z", "F") and b.ty in ("Z", "F"):
            return k(V("F", f"({'pymax' if which == 'max' else 'pymin'} {self.ftext(a)} {self.ftext(b)})"))
        if a.ty == "XF" and b.ty in ("Z", "F"):
            return k(V("XF", f"({'pymax_x' if which == 'max' else 'pymin_x'} {a.tx} {self.ftext(b)})"))
        self.fail(node, f"{which}() of values of kinds {a.ty} and {b.ty}")

    def getter_call(self, e, mname, env, k):
        cls = self.ctx.cls
        if self.find_method(cls, mname, e) is None:
            self.fail(e, f"self.{mname}(): not a method of {cls} (inherited methods are not resolved)")

        def with_args(args):
            fdef = self.find_method(cls, mname, e)
            npar = len(fdef.args.args) - 1
            if len(args) > npar:
                self.fail(e, f"{mname}() called with too many arguments")
            consts = all(a.ty == "B" and a.const is not None for a in args)
            key_general = (cls, mname, ())
            recursive = any(kk[0] == cls and kk[1] == mname for kk in self.stack)
            static = ()
            if recursive:
                if not consts:
                    self.fail(e, f"recursive call of {mname} with non-constant arguments")
                names = [p.arg for p in fdef.args.args[1:]]
                defaults = fdef.args.defaults
                vals = {}
                for i, nme in enumerate(names):
                    if i < len(args):
                        vals[nme] = args[i].const
                    else:
                        di = i - (len(names) - len(defaults))
                        if di < 0 or not isinstance(defaults[di], ast.Constant) or not isinstance(defaults[di].value, bool):
                            self.fail(e, f"recursive call of {mname} without a constant for `{nme}`")
                        vals[nme] = defaults[di].value
                static = tuple(sorted(vals.items()))
                sig = self.method(cls, mname, static, e)
                argtx = []
            else:
                sig = self.method(*key_general, e)
                argtx = []
                for i, (pn, ty, default) in enumerate(sig["all_params"]):
                    if i < len(args):
                        argtx.append(self.as_param(e, ty, args[i], env))
                    elif default is not None:
                        argtx.append("true" if default else "false")
                    else:
                        self.fail(e, f"{mname}() called without a value for `{pn}`")
            if sig["kind"] != "get":
                self.fail(e, f"value of the mutator {mname}() used")
            if sig["icdf"]:
                self.ctx.uses_icdf = True
            callt = (sig["name"] + (" icdf" if sig["icdf"] else "") + " " + self.state_term(env) + "".join(" " + a for a in argtx))
            if sig["result"][0] == "bare":
                return k(V(sig["result"][1], f"({callt})"))
            if sig["result"] != ("res", "F"):
                self.fail(e, f"call of {mname}(), which answers a tuple")
            self.effect()
            x, kk = self.ctx.fresh("r"), self.ctx.fresh("k")
            return (f"match {callt} with\n| Raise {kk} => {self.raise_(env, kk)}\n"
                    f"| NaNres =>\n{ind(k(V('NaN')))}\n| Val {x} =>\n{ind(k(V('F', x)))}\nend")
        return self.exprs(e.args, env, with_args)


def paren_block(t: str) -> str:
    s = t.strip()
    if "\n" in s or s.startswith(("let ", "if ")):
        return "(" + s + ")"
    return s


def translate(text: str, keep_going: bool = False):
    """returns (translator, failures); without keep_going the first unsupported construct is raised.
    With keep_going a class that cannot be translated (and a class built on it) is left out and
    reported in failures -- the run still ends with a non-zero exit status."""
    tr = Translator(text)
    failures, failed = [], set()
    for cname, ms in METHODS.items():
        snap = (len(tr.defs), dict(tr.sigs), len(tr.translated))
        try:
            sup = SCHEMA[cname]["super"]
            if sup and sup[0] in failed:
                raise Unsupported(tr.classes.get(cname, tr.tree), f"class {cname} is built on {sup[0]}, which could not be translated")
            tr.class_checks(cname)
            for m in ms:
                tr.method(cname, m, ())
        except Unsupported as exc:
            if not keep_going:
                raise
            del tr.defs[snap[0]:]
            tr.sigs = snap[1]
            del tr.translated[snap[2]:]
            failed.add(cname)
            failures.append({"class": cname, "line": exc.lineno, "construct": exc.what, "error": str(exc)})
    return tr, failures


def render(tr: Translator, src_sha: str) -> str:
    out = ["(* GENERATED by translator/py2gallina_stats.py from src/pydsol/core/statistics.py -- do not edit.",
           f"   sha1 of the source file (line ends normalised): {src_sha}",
           "   Shallow embedding of the method bodies over Stats.Num; see the translator for the subset and",
           "   its meaning.  Stats/GenAgree.v proves every definition equal to the hand-written model. *)",
           "From Coq Require Import ZArith QArith Bool List.",
           "From PV Require Import Stats.Num Stats.Tally Stats.Weighted Stats.Timestamp.",
           PRELUDE,
           "Section Gen.",
           "  Variable N : Num.",
           "  Local Open Scope num_scope.",
           '  Local Notation "# z" := (@ofZ N z%Z) (at level 5, z at level 0, format "# z").',
           ""]
    for d in tr.defs:
        out.append(ind(d))
        out.append("")
    out.append("End Gen.")
    return "\n".join(out) + "\n"


def main(argv):
    out_dir = None
    keep_going = False
    i = 0
    while i < len(argv):
        if argv[i] == "--out" and i + 1 < len(argv):
            out_dir = Path(argv[i + 1])
            i += 2
        elif argv[i] == "--keep-going":
            keep_going = True
            i += 1
        else:
            print(f"usage: {sys.argv[0]} [--out DIR [--keep-going]]", file=sys.stderr)
            return 64
    keep_going = keep_going and out_dir is not None

    def report_failure(info):
        if out_dir is not None:
            out_dir.mkdir(parents=True, exist_ok=True)
            (out_dir / "Gen_Stats.json").write_text(json.dumps(info, indent=1) + "\n")

    try:
        raw = SRC.read_bytes()
    except OSError as exc:
        print(f"py2gallina_stats: cannot read {SRC}: {exc}", file=sys.stderr)
        report_failure({"ok": False, "repo": str(REPO), "source": str(SRC), "methods": [],
                        "failures": [{"class": None, "line": 0, "construct": "unreadable source", "error": str(exc)}]})
        return 2
    text = raw.decode("utf-8", errors="replace").replace("\r\n", "\n").replace("\r", "\n")
    src_sha = hashlib.sha1(text.encode("utf-8")).hexdigest()
    base = {"repo": str(REPO), "source": str(SRC), "source_sha1": src_sha}
    try:
        tr, failures = translate(text, keep_going)
    except Unsupported as exc:
        print(f"py2gallina_stats: TRANSLATION FAILED\n{exc}", file=sys.stderr)
        report_failure({**base, "ok": False, "methods": [],
                        "failures": [{"class": None, "line": exc.lineno, "construct": exc.what, "error": str(exc)}]})
        return 2
    except SyntaxError as exc:
        msg = f"{SRC}:{exc.lineno}: unsupported construct: syntax error: {exc.msg}"
        print(f"py2gallina_stats: TRANSLATION FAILED\n{msg}", file=sys.stderr)
        report_failure({**base, "ok": False, "methods": [],
                        "failures": [{"class": None, "line": exc.lineno or 0, "construct": "syntax error", "error": msg}]})
        return 2
    gen = render(tr, src_sha)
    target = (out_dir or (VERIF / "coq" / "Stats")) / "Gen_Stats.v"
    target.parent.mkdir(parents=True, exist_ok=True)
    if not target.exists() or target.read_text() != gen:
        target.write_text(gen)
    h = hashlib.sha1()
    for r in sorted(tr.translated, key=lambda r: (r["lines"][0], r["definition"])):
        h.update((r["definition"] + ":" + r["sha1"] + "\n").encode())
    info = {**base, "ok": not failures, "translated_text_sha1": h.hexdigest(),
            "generated_sha1": hashlib.sha1(gen.encode()).hexdigest(), "methods": tr.translated, "failures": failures}
    if out_dir is not None:
        (out_dir / "Gen_Stats.json").write_text(json.dumps(info, indent=1) + "\n")
    for f in failures:
        print(f"py2gallina_stats: TRANSLATION FAILED (class {f['class']} left out)\n{f['error']}", file=sys.stderr)
    print(f"py2gallina_stats: {len(tr.translated)} definitions from {SRC} -> {target} "
          f"(translated text sha1 {info['translated_text_sha1'][:12]})")
    return 2 if failures else 0


if __name__ == "__main__":
    sys.exit(main(sys.argv[1:]))
