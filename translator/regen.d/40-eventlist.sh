# coq/EventList/Gen_EventList.v  event list + SimEvent method bodies for C01
env PYTHONDONTWRITEBYTECODE=1 timeout 120 "$PY" translator/py2gallina_eventlist.py
