# coq/Dist/Gen_Dist.v  distribution constructors / draws / densities for C14/C15
env PYTHONDONTWRITEBYTECODE=1 timeout 120 "$PY" translator/py2gallina_dist.py
