# coq/Units/Gen_Methods.v  Quantity / SI method bodies for C16/C17
env PYTHONDONTWRITEBYTECODE=1 timeout 120 "$PY" translator/py2gallina_units.py
