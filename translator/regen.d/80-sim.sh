# coq/Sim/Gen_Sim.v  sequential logic of the simulator methods for C02-C05
env PYTHONDONTWRITEBYTECODE=1 timeout 120 "$PY" translator/py2gallina_sim.py
