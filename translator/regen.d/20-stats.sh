# coq/Stats/Gen_Stats.v  statistics method bodies for C09/C10
env PYTHONDONTWRITEBYTECODE=1 timeout 120 "$PY" translator/py2gallina_stats.py
