# coq/Params/Gen_Params.v  input-parameter method bodies for C18
env PYTHONDONTWRITEBYTECODE=1 timeout 120 "$PY" translator/py2gallina_params.py
