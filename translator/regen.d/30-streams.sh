# coq/Streams/Gen_Streams.v  stream / seed-updater method bodies for C12/C13
env PYTHONDONTWRITEBYTECODE=1 timeout 120 "$PY" translator/py2gallina_streams.py
