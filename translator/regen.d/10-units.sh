# coq/Units/Gen_*.v   unit tables for C16/C17
env PYTHONDONTWRITEBYTECODE=1 timeout 120 "$PY" translator/dump_units.py
