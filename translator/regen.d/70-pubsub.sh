# coq/PubSub/Gen_PubSub.v  publish/subscribe method bodies for C08
env PYTHONDONTWRITEBYTECODE=1 timeout 120 "$PY" translator/py2gallina_pubsub.py
