# coq/Stats/Gen_SimStats.v  simulation statistics (EventBased* / Sim* methods, DSOLModel's dictionary) for C11
env PYTHONDONTWRITEBYTECODE=1 timeout 120 "$PY" translator/py2gallina_simstats.py
