#!/usr/bin/env python3
"""py2gallina_sim.py -- regenerate the Gallina text of the SEQUENTIAL logic of the simulator from the source.

Reads  $VERIF_REPO/src/pydsol/core/simulator.py  (default /repo) with Python's `ast` module -- the module
under test is never imported; CRLF line ends are normalised -- and translates the bodies of the methods
listed in METHODS into Gallina definitions  gen_<Class>_<method>  over the state record `sim` of the
hand-written model coq/Sim/Model.v.  coq/Sim/GenAgree.v then proves every generated definition equal to the
corresponding function of the hand-written model.

The translation is a shallow embedding and FAIL-CLOSED: a construct outside the subset below ends the run
with exit status 2 and `file:line: unsupported construct: ...`.  Nothing is skipped or guessed.  With
--keep-going (checks only) the method concerned -- and every method that calls it -- is left out and listed
("hand-transcribed only"); the exit status is non-zero all the same.

Shape of a translated method
  gen_<C>_<m> [fuel] [p] (w : bool) (st : sim) <params> : gres
  gres = GRet (return value) w st | GExc (EDSOL | EOther | EExit) w st     -- state at the moment of the raise
  st   the simulator object (Model.sim);  w  "the worker thread's wake-up flag is set" (the woken worker's body
  runs when the command has returned: Model's "commands run to quiescence");  fuel  only for the run loop;
  p  the model program (event.execute() / construct_model() run its handlers: hand-written interpreter).
  Pure `return <bool>` methods become  gen_<C>_<m> (st : sim) : bool.

Supported subset
  helpers      a method of the simulator / worker class or a module-level function that is not in METHODS is translated
               at its call site (arguments evaluated first, in the caller's state; its `return` continues the caller,
               its `raise` is the caller's raise there); inside an expression only helpers that are `return <expr>`.
               Refused: recursive helpers, *args / **kwargs / keyword-only parameters, loops inside a helper.
  statements   docstring, `pass`; `if / elif / else`; `raise DSOLError(..)` (-> EDSOL), `raise <OtherError>(..)`
               (-> EOther); `return`, `return <event>`, `return self.m(..)`; `x = e`, `x: T = e`;
               assignments to the attributes of the table FIELDS (`self._simulator_time = t` -> set_clock ...);
               `self.m(..)` / `super().m(..)` resolved statically along DEVSSimulator -> Simulator (the worker's
               `self._job` is that simulator); `self.fire_timed(t, <TYPE>, c)`, `self.fire(<TYPE>, c)`;
               `self._eventlist.add / remove / clear`, `x = <eventlist>.pop_first()`; `SimEvent(t, target, method,
               priority, **kwargs)` as an argument; `event.execute()`; `model.construct_model()`;
               `self.__worker.wakeup() / .cleanup()`, `self.__worker = None | SimulatorWorkerThread(..)`;
               `try: .. except Exception [as e]: .. [finally: ..]` (no return inside); `sys.exit()` (-> EExit);
               one `while <cond>:` loop at the top level of a method (-> Fixpoint on fuel; `return` inside ends
               the method; out of fuel while the condition holds = Model's flag);
               `print(..)`, `logger.<level>(..)`, `traceback.print_exc()`: no effect, but every argument must be
               evidently a str (constant, f-string, str(..), `+` of those) -- `"text" + e` is refused;
  expressions  parameters, locals, True / False / None, int and str constants; the attributes of FIELDS and the
               properties / getters that are `return self._x`; `RunState.X`, `ReplicationState.X`,
               `ErrorStrategy.X`, `SimEventInterface.*_PRIORITY` (values read from the class bodies);
               `<`, `<=`, `>`, `>=`, `==`, `!=` on times (NaN: every comparison false, `!=` true), `+` / `-` on
               times; `==` / `!=` on states, `is` / `==` None; comparisons of ints; `and` / `or` / `not`;
               `isinstance(x, C)`, `hasattr(model, '_simulator')` on the argument universes below;
               `<eventlist>.is_empty()`, `.peek_first()`, `<event>.time`; calls of the pure methods.
  An expression that raises in Python (attribute of None: `self._replication.end_sim_time` without a
  replication, `.time` of the None that peek_first / pop_first return on an empty list, `self.__worker.wakeup()`
  without a worker) carries its definedness condition; the statement it occurs in becomes
  `if <defined> then .. else GExc EOther ..`, respecting the short-circuit of and / or.
Meaning given to them
  * clock, run bound, event times are Z (Model's exact dyadic times); a time ARGUMENT is a `tmv` (TNum z | TNaN).
    Storing a tmv into the clock / the bound / an event goes through py_with_num / py_new_SimEvent: a NaN there
    is outside Model's value universe and raises Model's "not covered" flag.
  * the event list is Model's sorted pending list: add = ins, remove = "if contains: rem" (+ Model's ghost log
    `cancelled`), peek_first / pop_first = head, clear = [] (eventlist.py itself is C01's business);
  * `SimEvent(t, target, method, prio, **kwargs)`: (target, method) together are one `hkind` (the handler of the
    model program, or (self, "warmup") = HWarm), **kwargs is the creation index the harness passes;
    the new event takes the next id (nid);
  * fire / fire_timed of the eight lifecycle event types = Model's emit (N...) (+ the ghost obs entries of
    WARMUP / END_REPLICATION); the payload argument is not part of Model's notification stream;
  * NOT translated (threading machinery, by design): Thread start / join, Event wait / set / clear, the attributes
    _runflag / _running, wait loops (`while ..: sleep(..)` whose body only sleeps / counts) and the wall-clock
    locals they use.  Statements about things outside the `sim` record are accepted verbatim only, with no effect:
    IGNORED_STATEMENTS (listeners of the simulator, the model's statistics dict, the always-empty
    _initial_methods); assignments to IGNORED_FIELDS.

Trusted (joins the trusted base of C02-C05): this file -- the subset semantics above -- and its tables
(SIG: value universe and default of every parameter; FIELDS; EVENT_TYPES; the fixed Gallina blocks PRELUDE,
MIDLUDE (the model-program interpreter, Model's exec_actions with the generated scheduling methods plugged in)
and POSTLUDE (command dispatch)).

usage: py2gallina_sim.py [--out DIR [--keep-going]]
       default DIR: <verif>/coq/Sim, file Gen_Sim.v; with --out also Gen_Sim.json.
"""
from __future__ import annotations

import ast
import hashlib
import json
import os
import sys
import warnings
from pathlib import Path

VERIF = Path(__file__).resolve().parent.parent
REPO = Path(os.environ.get("VERIF_REPO", "/repo"))
SRC = REPO / "src" / "pydsol" / "core" / "simulator.py"
SRC_EVENT = REPO / "src" / "pydsol" / "core" / "simevent.py"
REL = "src/pydsol/core/simulator.py"

SIM_MRO = ["DEVSSimulator", "Simulator"]
WORKER = "SimulatorWorkerThread"
BASES = {"Simulator": ["EventProducer", "SimulatorInterface", "Generic[TIME]"],
         "DEVSSimulator": ["Simulator[TIME]", "Generic[TIME]"],
         WORKER: ["Thread"], "RunState": ["enum.Enum"], "ReplicationState": ["enum.Enum"], "ErrorStrategy": []}
RUNST = {"NOT_INITIALIZED": "RNotInit", "INITIALIZED": "RInit", "STARTING": "RStarting", "STARTED": "RStarted",
         "STOPPING": "RStopping", "STOPPED": "RStopped", "ENDED": "REnded"}
REPLST = {"NOT_INITIALIZED": "PNotInit", "INITIALIZED": "PInit", "STARTED": "PStarted", "ENDING": "PEnding",
          "ENDED": "PEnded"}
STRATEGIES = ["LOG_AND_CONTINUE", "WARN_AND_CONTINUE", "WARN_AND_PAUSE", "WARN_AND_END", "WARN_AND_EXIT"]
# lifecycle event types: attribute name -> (constructor of the prelude's evtype, timed?)
EVENT_TYPES = {"START_REPLICATION_EVENT": "ET_START_REPLICATION", "STARTING_EVENT": "ET_STARTING",
               "START_EVENT": "ET_START", "TIME_CHANGED_EVENT": "ET_TIME_CHANGED", "WARMUP_EVENT": "ET_WARMUP",
               "STOPPING_EVENT": "ET_STOPPING", "STOP_EVENT": "ET_STOP", "END_REPLICATION_EVENT": "ET_END_REPLICATION"}
EVENT_TYPE_HOLDERS = ("Simulator", "SimulatorInterface", "ReplicationInterface", "DEVSSimulator")
# attributes of the simulator object: name -> kind
FIELDS = {"_simulator_time": "Time", "_run_until_time": "Time", "_run_until_including": "Bool", "_run_state": "RunSt",
          "_replication_state": "ReplSt", "_replication": "OptRepl", "_error_strategy": "Z", "_eventlist": "EvList",
          "__worker": "Worker", "_name": "Str", "_error_log_level": "Opaque"}
IGNORED_FIELDS = {"Simulator": {"_runflag", "_model"}, WORKER: {"_running"}}
# statements about things outside the `sim` record, accepted only in exactly this form (ast.unparse), no effect
IGNORED_STATEMENTS = {
    "if self.has_listeners():\n    self.remove_all_listeners()": "the listeners of the simulator (C08's model, not in the sim record)",
    "model.output_statistics().clear()": "the model's dict of output statistics (C06 / C11, not in the sim record)",
    "for initial_event in self._initial_methods:\n    initial_event.execute()":
        "the initial methods (add_initial_method is not used by the harness: the list is empty)",
    "self.__wakeup_flag.wait()": "threading: the worker waits for its wake-up",
    "self.__wakeup_flag.clear()": "threading: the worker clears its wake-up flag",
}
THREAD_PRIMITIVES = {"wakeup": "self.__wakeup_flag.set()"}     # worker method -> the body it must have
NOEFFECT_CALLS = ("print", "sleep")

# (class, method, kind).  kind: query | cmd | worker_run
METHODS = [
    ("Simulator", "is_initialized", "query"),
    ("Simulator", "is_starting_or_running", "query"),
    ("Simulator", "is_stopping_or_stopped", "query"),
    ("Simulator", "warmup", "cmd"),
    ("DEVSSimulator", "schedule_event", "cmd"),
    ("DEVSSimulator", "schedule_event_now", "cmd"),
    ("DEVSSimulator", "schedule_event_rel", "cmd"),
    ("DEVSSimulator", "schedule_event_abs", "cmd"),
    ("DEVSSimulator", "cancel_event", "cmd"),
    ("Simulator", "stop", "cmd"),
    ("Simulator", "cleanup", "cmd"),
    ("DEVSSimulator", "_step_impl", "cmd"),
    ("Simulator", "step", "cmd"),
    ("DEVSSimulator", "_run", "cmd"),
    (WORKER, "run", "worker_run"),
    ("Simulator", "_start_impl", "cmd"),
    ("Simulator", "start", "cmd"),
    ("Simulator", "run_up_to", "cmd"),
    ("Simulator", "run_up_to_including", "cmd"),
    ("Simulator", "end_replication", "cmd"),
    ("DEVSSimulator", "end_replication", "cmd"),
    ("Simulator", "initialize", "cmd"),
    ("DEVSSimulator", "initialize", "cmd"),
]
KIND = {(c, m): k for c, m, k in METHODS}
HMODE = {("DEVSSimulator", "_run"): "InRun", ("DEVSSimulator", "_step_impl"): "InStep"}
PRIO_DEFAULT = "SimEventInterface.NORMAL_PRIORITY"
# value universe and required default of every parameter (after self); "**" = the **kwargs parameter
SIG = {
    ("DEVSSimulator", "schedule_event"): [("event", "Ev", None)],
    ("DEVSSimulator", "schedule_event_now"): [("target", "CallT", None), ("method", "CallM", None),
                                              ("priority", "Z", PRIO_DEFAULT), ("**", "Kwargs", None)],
    ("DEVSSimulator", "schedule_event_rel"): [("delay", "Time", None), ("target", "CallT", None), ("method", "CallM", None),
                                              ("priority", "Z", PRIO_DEFAULT), ("**", "Kwargs", None)],
    ("DEVSSimulator", "schedule_event_abs"): [("time", "Time", None), ("target", "CallT", None), ("method", "CallM", None),
                                              ("priority", "Z", PRIO_DEFAULT), ("**", "Kwargs", None)],
    ("DEVSSimulator", "cancel_event"): [("event", "Ev", None)],
    ("Simulator", "_start_impl"): [("run_until_time", "Time", None), ("run_until_including", "Bool", None)],
    ("Simulator", "run_up_to"): [("stop_time", "Time", None)],
    ("Simulator", "run_up_to_including"): [("stop_time", "Time", None)],
    ("Simulator", "initialize"): [("model", "Model", None), ("replication", "Repl", None)],
    ("DEVSSimulator", "initialize"): [("model", "Model", None), ("replication", "Repl", None)],
}
GTYPE = {"Time": "tmv", "Bool": "bool", "Z": "Z", "Ev": "ev", "Model": "marg", "Repl": "rarg", "Kwargs": "nat", "Call": "hkind"}
BUILTINS_USED = ("isinstance", "hasattr", "print", "str", "int", "super", "len", "bool", "float", "type", "object")
OTHER_EXCEPTIONS = ("ValueError", "TypeError", "RuntimeError", "AttributeError", "KeyError", "Exception")
HAND_ONLY = [
    "the model-program interpreter (Model.exec_action / exec_actions / exec_event: the harness's generic DSOLModel; MIDLUDE "
    "mirrors it with the generated schedule_event_* / cancel_event / stop / warmup plugged in) and SimEvent.execute "
    "(any exception of the handler becomes a DSOLError)",
    "commands issued from inside a handler other than stop() (Model.inner_cmd: refused without effect while running, "
    "otherwise the model's 'not covered' flag)",
    "the threading machinery: Thread start / join, Event wait / set / clear, _runflag / _running, the one-second wait loops, "
    "SimulatorWorkerThread.__init__ / wakeup / is_waiting / is_finalized; a woken worker runs when the command has "
    "returned (POSTLUDE settle); interleavings: Sim/Overlap.v (C04)",
    "the event list operations (Model.ins / rem / head: eventlist.py is tied by C01) and SimEvent.__init__ / comparison "
    "(prelude py_new_SimEvent: next id, Model.ev_key)",
    "Simulator.__init__ / DEVSSimulator.__init__ (Model.init_sim), set_error_strategy, add_initial_method, the DEVSSimulatorFloat / "
    "Int / Duration constructors; listeners of the simulator and the payload of notifications (C08); the model's statistics (C06, C11)",
    "the command dispatch and the snapshots of a case (POSTLUDE gen_do_cmd / gen_run_cmds mirror Model.do_cmd / run_cmds)",
]

PRELUDE = r"""
(* ---- fixed prelude: Python primitives on the state record and value universe of Sim/Model.v ---- *)
(* how a method ends: normally (return value, wake-up flag of the worker, simulator object) or by an exception
   (DSOLError / another Exception / SystemExit) with the state at the moment of the raise *)
Inductive exn := EDSOL | EOther | EExit.
Inductive rv := RNone | REv (e : ev).
Inductive gres := GRet (v : rv) (w : bool) (s : sim) | GExc (k : exn) (w : bool) (s : sim).
Definition sim_of (r : gres) : sim := match r with GRet _ _ s => s | GExc _ _ s => s end.
Definition gbind (r : gres) (k : rv -> bool -> sim -> gres) : gres :=
  match r with GRet v w s => k v w s | GExc _ _ _ => r end.
Definition exn_is_exception (k : exn) : bool := match k with EExit => false | _ => true end.   (* except Exception *)
Definition exn_is_dsol (k : exn) : bool := match k with EDSOL => true | _ => false end.       (* except DSOLError *)
Definition exn_any (k : exn) : bool := true.                                                     (* bare except *)
Definition gtry (catch : exn -> bool) (r : gres) (h : bool -> sim -> gres) : gres :=
  match r with GExc k w s => if catch k then h w s else r | GRet _ _ _ => r end.
Definition gfinally (r : gres) (f : bool -> sim -> gres) : gres :=
  match r with
  | GRet v w s => match f w s with GRet _ w' s' => GRet v w' s' | e => e end
  | GExc k w s => match f w s with GRet _ w' s' => GExc k w' s' | e => e end
  end.
(* outside the value universe of the model: Model's "not covered" flag *)
Definition py_outside_model (w : bool) (s : sim) : gres := GRet RNone w (raise_flag s).
(* times: a number or not-a-number; every comparison with NaN is False, != is True *)
Definition py_lt (a b : tmv) : bool := match a, b with TNum x, TNum y => x <? y | _, _ => false end.
Definition py_le (a b : tmv) : bool := match a, b with TNum x, TNum y => x <=? y | _, _ => false end.
Definition py_gt (a b : tmv) : bool := match a, b with TNum x, TNum y => x >? y | _, _ => false end.
Definition py_ge (a b : tmv) : bool := match a, b with TNum x, TNum y => x >=? y | _, _ => false end.
Definition py_eq (a b : tmv) : bool := match a, b with TNum x, TNum y => x =? y | _, _ => false end.
Definition py_ne (a b : tmv) : bool := negb (py_eq a b).
Definition py_add (a b : tmv) : tmv := match a, b with TNum x, TNum y => TNum (x + y) | _, _ => TNaN end.
Definition py_sub (a b : tmv) : tmv := match a, b with TNum x, TNum y => TNum (x - y) | _, _ => TNaN end.
Definition py_with_num (t : tmv) (w : bool) (s : sim) (k : Z -> gres) : gres :=
  match t with TNum z => k z | TNaN => py_outside_model w s end.
(* the two state enums, the error strategy as the int it is *)
Definition py_runst_eqb (a b : runst) : bool :=
  match a, b with
  | RNotInit, RNotInit | RInit, RInit | RStarting, RStarting | RStarted, RStarted
  | RStopping, RStopping | RStopped, RStopped | REnded, REnded => true
  | _, _ => false
  end.
Definition py_replst_eqb (a b : replst) : bool :=
  match a, b with
  | PNotInit, PNotInit | PInit, PInit | PStarted, PStarted | PEnding, PEnding | PEnded, PEnded => true
  | _, _ => false
  end.
Definition py_strategy_code (x : strategy) : Z := match x with SLog => 1 | SWarnCont => 2 | SWarnPause => 3 end.
(* the replication: self._replication is None or a replication *)
Definition py_is_some {A : Type} (o : option A) : bool := match o with Some _ => true | None => false end.
Definition py_opt_start (o : option repl) : Z := match o with Some r => r_start r | None => 0 end.
Definition py_opt_warm (o : option repl) : Z := match o with Some r => r_warm r | None => 0 end.
Definition py_opt_end (o : option repl) : Z := match o with Some r => r_end r | None => 0 end.
(* the arguments of initialize: a model (with / without the _simulator attribute) or something else; a replication or not *)
Inductive marg := ModelOk | ModelNoSimulator | ModelBad.
Inductive rarg := ReplOk (r : repl) | ReplBad.
Definition py_model_is_model (m : marg) : bool := match m with ModelBad => false | _ => true end.
Definition py_model_has_simulator (m : marg) : bool := match m with ModelOk => true | _ => false end.
Definition py_repl_is_repl (r : rarg) : bool := match r with ReplOk _ => true | ReplBad => false end.
Definition py_repl (r : rarg) : option repl := match r with ReplOk x => Some x | ReplBad => None end.
(* the worker thread object: self.__worker is None / alive / finalized *)
Definition py_worker_is_none (x : wstate) : bool := match x with WNone => true | _ => false end.
Definition py_finalized (x : wstate) : bool := match x with WAlive => false | _ => true end.
(* the event list at specification level *)
Definition py_dflt_ev : ev := mkEv 0 0 0 HWarm 0.
Definition py_is_empty (l : list ev) : bool := match l with [] => true | _ => false end.
Definition py_first (l : list ev) : option ev := hd_error l.                       (* peek_first(): None when empty *)
Definition py_the (o : option ev) : ev := match o with Some e => e | None => py_dflt_ev end.
Definition py_eventlist_add (e : ev) (s : sim) : sim := set_pend (ins e (pend s)) s.
Definition py_eventlist_pop (s : sim) : sim := set_pend (tl (pend s)) s.           (* pop_first(): the list without its head *)
Definition py_eventlist_clear (s : sim) : sim := set_pend [] s.
Definition py_eventlist_remove (e : ev) (s : sim) : sim :=                         (* remove: "if contains: remove" + ghost log *)
  if ev_mem e (pend s) then set_cancelled (e :: cancelled s) (set_pend (rem e (pend s)) s) else s.
(* SimEvent(time, target, method, priority, **kwargs): the next id; a NaN time is outside the model *)
Definition py_new_SimEvent (t : tmv) (c : hkind) (prio : Z) (k : nat) (w : bool) (s : sim)
  (cont : ev -> sim -> gres) : gres :=
  match t with
  | TNum z => cont (mkEv z prio (nid s) c k) (set_nid (nid s + 1) s)
  | TNaN => py_outside_model w s
  end.
(* fire_timed / fire of the lifecycle event types: the notification stream (+ what the statistics see) *)
Inductive evtype := ET_START_REPLICATION | ET_STARTING | ET_START | ET_TIME_CHANGED | ET_WARMUP | ET_STOPPING
                  | ET_STOP | ET_END_REPLICATION.
Definition py_fire_timed (t : evtype) (z : Z) (s : sim) : sim :=
  match t with
  | ET_START_REPLICATION => emit (NStartRepl z) s
  | ET_START => emit (NStart z) s
  | ET_TIME_CHANGED => emit (NTime z) s
  | ET_WARMUP => set_obs (ObsWarm z :: obs s) (emit (NWarmup z) s)
  | ET_STOP => emit (NStop z) s
  | ET_END_REPLICATION => set_obs (ObsEnd z :: obs s) (emit (NEndRepl z) s)
  | ET_STARTING | ET_STOPPING => raise_flag s          (* untimed in the model's stream *)
  end.
Definition py_fire (t : evtype) (s : sim) : sim :=
  match t with ET_STARTING => emit NStarting s | ET_STOPPING => emit NStopping s | _ => raise_flag s end.
"""

# after schedule_event_*, cancel_event, stop, warmup: the interpreter of model programs (Model.exec_actions) on them
MIDLUDE_REQUIRES = ["gen_DEVSSimulator_schedule_event_now", "gen_DEVSSimulator_schedule_event_rel",
                    "gen_DEVSSimulator_schedule_event_abs", "gen_DEVSSimulator_cancel_event", "gen_Simulator_stop",
                    "gen_Simulator_warmup"]
MIDLUDE = r"""
(* ---- fixed: the interpreter of model programs (the harness's generic DSOLModel), Model.exec_actions with the
   generated methods plugged in ---- *)
Definition gen_sched (s : sim) (m : smode) (prio : Z) (h : nat) : sim :=
  let k := length (created s) in
  let r := match m with
           | MNow => gen_DEVSSimulator_schedule_event_now false s (HUser h) prio k
           | MRel d => gen_DEVSSimulator_schedule_event_rel false s d (HUser h) prio k
           | MAbs t => gen_DEVSSimulator_schedule_event_abs false s t (HUser h) prio k
           end in
  match r with
  | GRet (REv e) _ s1 => out OAccepted (set_created (created s1 ++ [e]) s1)
  | GRet RNone _ s1 => raise_flag s1
  | GExc EDSOL _ s1 => out ORefused s1
  | GExc _ _ s1 => raise_flag s1
  end.
Definition gen_cancel (s : sim) (k : nat) : sim :=
  match nth_error (created s) k with
  | Some e => match gen_DEVSSimulator_cancel_event false s e with GRet _ _ s1 => s1 | GExc _ _ s1 => raise_flag s1 end
  | None => s
  end.
Definition gen_inner_cmd (md : hmode) (s : sim) (c : cmd) : sim :=
  match md, c with
  | InConstruct, _ => inner_cmd md s c
  | _, CStop => match gen_Simulator_stop false s with
                | GRet _ _ s1 => out OCmdOk s1
                | GExc EDSOL _ s1 => out OCmdRefused s1
                | GExc _ _ s1 => raise_flag s1
                end
  | _, _ => inner_cmd md s c
  end.
Definition gen_exec_action (md : hmode) (s : sim) (a : action) : sim * bool :=
  match a with
  | ASched m prio h => (gen_sched s m prio h, false)
  | ACancel k => (gen_cancel s k, false)
  | AFail => (s, true)
  | ACmd c => (gen_inner_cmd md s c, false)
  | AObs sid v => (set_obs (ObsV sid v (clock s) :: obs s) s, false)
  end.
Fixpoint gen_exec_actions (md : hmode) (s : sim) (acts : list action) : sim * bool :=
  match acts with
  | [] => (s, false)
  | a :: r => let '(s1, failed) := gen_exec_action md s a in
              if failed then (s1, true) else gen_exec_actions md s1 r
  end.
Definition gen_exec_event (md : hmode) (p : program) (s : sim) (e : ev) : sim * bool :=
  let s1 := set_trace ((e, clock s) :: trace s) s in
  match ev_h e with
  | HWarm => (sim_of (gen_Simulator_warmup false s1), false)
  | HUser h => gen_exec_actions md s1 (body p h)
  end.
(* event.execute(): whatever the handler raises reaches the caller as a DSOLError *)
Definition py_execute (md : hmode) (p : program) (w : bool) (s : sim) (e : ev) : gres :=
  let '(s1, failed) := gen_exec_event md p s e in
  if failed then GExc EDSOL w s1 else GRet RNone w s1.
(* model.construct_model(): handler 0; what it raises is not a DSOLError and propagates *)
Definition py_construct_model (p : program) (w : bool) (s : sim) : gres :=
  let '(s1, failed) := gen_exec_actions InConstruct (set_created [] s) (body p 0) in
  if failed then GExc EOther w s1 else GRet RNone w s1.
"""

POSTLUDE_REQUIRES = ["gen_SimulatorWorkerThread_run", "gen_DEVSSimulator_initialize", "gen_Simulator_start", "gen_Simulator_step",
                     "gen_Simulator_stop", "gen_Simulator_run_up_to", "gen_Simulator_run_up_to_including",
                     "gen_DEVSSimulator_end_replication", "gen_Simulator_cleanup"]
POSTLUDE = r"""
(* ---- fixed: a command issued at quiescence; when it has returned, a woken worker runs (Model.do_cmd / run_cmds) ---- *)
Definition gen_worker (fuel : nat) (p : program) (s : sim) : sim := sim_of (gen_SimulatorWorkerThread_run fuel p false s).
Definition gen_settle (fuel : nat) (p : program) (r : gres) : sim * cres :=
  match r with
  | GRet _ w s1 => ((if w then gen_worker fuel p s1 else s1), ResOk)
  | GExc EDSOL w s1 => ((if w then gen_worker fuel p s1 else s1), ResRefused)
  | GExc _ _ s1 => (raise_flag s1, ResRefused)
  end.
Definition gen_do_cmd (fuel : nat) (p : program) (s : sim) (c : cmd) : sim * cres :=
  match c with
  | CInit r =>
      (* a DSOLError out of initialize() of a simulator that is not running is the refused warm-up event
         (warm-up before the start): outside the model *)
      match gen_DEVSSimulator_initialize p false s ModelOk (ReplOk r) with
      | GRet _ _ s1 => (s1, ResOk)
      | GExc EDSOL _ s1 => if running s then (s1, ResRefused) else (raise_flag s1, ResOk)
      | GExc EOther _ s1 => (s1, ResRaised)       (* construct_model raised: initialize aborted, the exception escapes *)
      | GExc EExit _ s1 => (raise_flag s1, ResRefused)
      end
  | CInitBad => gen_settle fuel p (gen_DEVSSimulator_initialize p false s ModelBad (ReplOk (mkRepl 0 0 40)))
  | CStart => gen_settle fuel p (gen_Simulator_start false s)
  | CStep => gen_settle fuel p (gen_Simulator_step p false s)
  | CStop => gen_settle fuel p (gen_Simulator_stop false s)
  | CRunUpTo t => gen_settle fuel p (gen_Simulator_run_up_to false s t)
  | CRunUpToIncl t => gen_settle fuel p (gen_Simulator_run_up_to_including false s t)
  | CEndRepl => gen_settle fuel p (gen_DEVSSimulator_end_replication false s)
  | CCleanup => gen_settle fuel p (gen_Simulator_cleanup false s)
  end.
Fixpoint gen_run_cmds (fuel : nat) (p : program) (s : sim) (cs : list cmd) : sim * list snap :=
  match cs with
  | [] => (s, [])
  | c :: r =>
      let '(s1, res) := gen_do_cmd fuel p s c in
      let '(s2, sn) := gen_run_cmds fuel p s1 r in
      (s2, mkSnap res (rs s1) (ps s1) (clock s1) (length (pend s1)) :: sn)
  end.
"""


class Unsupported(Exception):
    def __init__(self, node, what, src=None):
        self.lineno = getattr(node, "lineno", 0) or 0
        self.what = what
        super().__init__(f"{src or SRC}:{self.lineno}: unsupported construct: {what}")


class V:
    """a translated value: kind, Gallina text, definedness conditions (bool texts that must all hold for the Python
    expression not to raise), for a time its Z text when it is known to be a number"""

    def __init__(self, ty, tx=None, defd=(), z=None, **extra):
        self.ty, self.tx, self.defd, self.z, self.x = ty, tx, list(defd), z, extra

    def get(self, k, d=None):
        return self.x.get(k, d)


class Env:
    def __init__(self, st="st", w="w"):
        self.locals = {}
        self.st, self.w = st, w
        self.known = set()          # definedness conditions already established on this path

    def clone(self, st=None, w=None):
        """the same path continues (the established conditions are shared)"""
        e = Env(st or self.st, w or self.w)
        e.locals = dict(self.locals)
        e.known = self.known
        return e

    def fork(self, st=None, w=None):
        """a branch: what it establishes is not known on the other branches"""
        e = self.clone(st, w)
        e.known = set(self.known)
        return e


class Ctx:
    def __init__(self, cls, name, kind, node):
        self.cls, self.name, self.kind, self.node = cls, name, kind, node
        self.counter = {}
        self.needs_p = False
        self.needs_fuel = False
        self.loop = None            # inside the loop body: (function name, text of the smaller fuel)
        self.in_try = 0
        self.has_loop = False
        self.ignored = []
        self.try_ends_loop_body = False
        self.ret_k = None           # inside an inlined helper: what its `return` continues with
        self.inline_stack = []      # helpers being inlined (a recursive helper is refused)
        self.hmode = HMODE.get((cls, name))
        self.inlined = []

    def fresh(self, stem):
        self.counter[stem] = self.counter.get(stem, 0) + 1
        return f"{stem}_{self.counter[stem]}"


def ind(text: str, n: int = 2) -> str:
    pad = " " * n
    return "\n".join(pad + l if l else l for l in text.split("\n"))


def blk(t: str) -> str:
    s = t.strip()
    if "\n" in s or s.startswith(("let ", "if ", "match ", "gbind", "gtry", "gfinally", "py_")):
        return "(" + s + ")"
    return s


def conj(conds):
    conds = list(dict.fromkeys(conds))
    if not conds:
        return "true"
    if len(conds) == 1:
        return conds[0]
    return "(" + " && ".join(conds) + ")"


class Translator:
    def __init__(self, text: str, event_text: str):
        with warnings.catch_warnings():
            warnings.simplefilter("ignore")
            self.tree = ast.parse(text)
            self.event_tree = ast.parse(event_text)
        self.lines = text.split("\n")
        self.classes = {}
        self.defs = []              # (name, text)
        self.sigs = {}              # (cls, meth) -> signature dict
        self.failed = {}            # (cls, meth) -> Unsupported
        self.translated = []
        self.stack = []
        self.ctx = None
        self.consts = {}            # "ErrorStrategy.X" / "SimEventInterface.X_PRIORITY" -> int
        self.blocks_done = set()
        self.module_funcs = {}
        self.ignored_used = {}
        self.module_checks()

    def fail(self, node, what):
        raise Unsupported(node, what)

    # ------------------------------------------------------------------ module level
    def module_checks(self):
        bound = {}
        for st in self.tree.body:
            names = []
            if isinstance(st, ast.Import):
                for a in st.names:
                    names.append((a.asname or a.name.split(".")[0], "import " + a.name))
            elif isinstance(st, ast.ImportFrom):
                for a in st.names:
                    if a.name == "*":
                        self.fail(st, "star import (could rebind builtins / class names)")
                    names.append((a.asname or a.name, f"from {st.module} import {a.name}"))
            elif isinstance(st, (ast.FunctionDef, ast.AsyncFunctionDef)):
                names.append((st.name, "def"))
                self.module_funcs[st.name] = st
            elif isinstance(st, ast.ClassDef):
                names.append((st.name, "class"))
                if st.name in self.classes:
                    self.fail(st, f"class {st.name} defined twice")
                self.classes[st.name] = st
            elif isinstance(st, (ast.Assign, ast.AnnAssign, ast.AugAssign)):
                tg = st.targets if isinstance(st, ast.Assign) else [st.target]
                for t in tg:
                    for n in ast.walk(t):
                        if isinstance(n, ast.Name):
                            names.append((n.id, "= " + (ast.unparse(st.value)[:60] if st.value is not None else "")))
            elif isinstance(st, ast.Expr) and isinstance(st.value, ast.Constant):
                pass
            else:
                self.fail(st, f"module-level statement {type(st).__name__}")
            for n, how in names:
                if n in bound and n not in ("time",):
                    self.fail(st, f"module binds the name `{n}` twice")
                if n in BUILTINS_USED or n == "self":
                    self.fail(st, f"module rebinds the name `{n}`")
                bound[n] = how
        want = {"sys": "import sys", "traceback": "import traceback", "sleep": "from time import sleep",
                "DSOLError": "from pydsol.core.utils import DSOLError", "SimEvent": "from pydsol.core.simevent import SimEvent",
                "SimEventInterface": "from pydsol.core.simevent import SimEventInterface",
                "EventListHeap": "from pydsol.core.eventlist import EventListHeap",
                "ReplicationInterface": "from pydsol.core.interfaces import ReplicationInterface",
                "ModelInterface": "from pydsol.core.interfaces import ModelInterface",
                "SimulatorInterface": "from pydsol.core.interfaces import SimulatorInterface",
                "Thread": "from threading import Thread", "logger": "= get_module_logger('simulator')"}
        for n, how in want.items():
            if bound.get(n) != how:
                self.fail(self.tree, f"the name `{n}` is bound by `{bound.get(n)}`, the translator assumes `{how}`")
        self.bound = bound
        for cname, bases in BASES.items():
            c = self.classes.get(cname)
            if c is None:
                self.fail(self.tree, f"class {cname} not found")
            got = [ast.unparse(b) for b in c.bases]
            if got != bases or c.keywords:
                self.fail(c, f"class {cname} has bases {got}, the model assumes {bases}")
            if c.decorator_list:
                self.fail(c, f"decorated class {cname}")
            for st in c.body:
                if isinstance(st, (ast.FunctionDef, ast.AsyncFunctionDef)) and st.name in (
                        "__getattribute__", "__getattr__", "__setattr__", "__new__", "__init_subclass__",
                        "__class_getitem__", "__set_name__", "__delattr__"):
                    self.fail(st, f"class {cname} defines {st.name}")
        self.enum_check("RunState", RUNST)
        self.enum_check("ReplicationState", REPLST)
        es = self.class_ints(self.classes["ErrorStrategy"], self.tree)
        if [k for k in es if k in STRATEGIES] != STRATEGIES or len({es[k] for k in STRATEGIES}) != 5:
            self.fail(self.classes["ErrorStrategy"], "ErrorStrategy does not define the five strategies as distinct ints")
        if [es[k] for k in STRATEGIES] != [1, 2, 3, 4, 5]:
            self.fail(self.classes["ErrorStrategy"], "the ErrorStrategy values are not 1..5 (prelude py_strategy_code)")
        for k in STRATEGIES:
            self.consts["ErrorStrategy." + k] = es[k]
        sei = [c for c in self.event_tree.body if isinstance(c, ast.ClassDef) and c.name == "SimEventInterface"]
        if len(sei) != 1:
            raise Unsupported(self.event_tree, "class SimEventInterface not found once in simevent.py", SRC_EVENT)
        for k, v in self.class_ints(sei[0], self.event_tree).items():
            if k.endswith("_PRIORITY"):
                self.consts["SimEventInterface." + k] = v
        for k in ("MIN_PRIORITY", "NORMAL_PRIORITY", "MAX_PRIORITY"):
            if "SimEventInterface." + k not in self.consts:
                raise Unsupported(sei[0], f"SimEventInterface.{k} is not an int constant", SRC_EVENT)
        # SimEvent.execute must wrap every exception of the handler in a DSOLError (that is what py_execute assumes)
        se = [c for c in self.event_tree.body if isinstance(c, ast.ClassDef) and c.name == "SimEvent"]
        ex = [f for c in se for f in c.body if isinstance(f, ast.FunctionDef) and f.name == "execute"]
        ok = False
        if len(se) == 1 and len(ex) == 1:
            body = self.strip_doc(ex[0].body)
            if len(body) == 1 and isinstance(body[0], ast.Try) and len(body[0].handlers) == 1 and not body[0].orelse \
                    and not body[0].finalbody and body[0].handlers[0].type is None \
                    and ast.unparse(body[0].body[0]) == "self._method(**self._kwargs)" and len(body[0].body) == 1:
                h = body[0].handlers[0].body
                ok = len(h) == 1 and isinstance(h[0], ast.Raise) and ast.unparse(h[0].exc).lstrip("(").startswith("DSOLError(")
        if not ok:
            raise Unsupported(ex[0] if ex else self.event_tree,
                              "SimEvent.execute is not `try: self._method(**self._kwargs)  except: raise DSOLError(..)`", SRC_EVENT)

    def class_ints(self, c, tree):
        out = {}
        for st in c.body:
            if isinstance(st, ast.Assign) and len(st.targets) == 1 and isinstance(st.targets[0], ast.Name):
                name, val = st.targets[0].id, st.value
            elif isinstance(st, ast.AnnAssign) and isinstance(st.target, ast.Name) and st.value is not None:
                name, val = st.target.id, st.value
            else:
                continue
            if name in out:
                self.fail(st, f"{c.name}.{name} bound twice")
            if isinstance(val, ast.Constant) and isinstance(val.value, int) and not isinstance(val.value, bool):
                out[name] = val.value
        return out

    def enum_check(self, cname, table):
        vals = self.class_ints(self.classes[cname], self.tree)
        if set(vals) != set(table) or len(set(vals.values())) != len(vals):
            self.fail(self.classes[cname], f"{cname} members {sorted(vals)} are not the distinct members {sorted(table)} of the model")
        for st in self.classes[cname].body:
            if isinstance(st, (ast.FunctionDef, ast.AsyncFunctionDef)):
                self.fail(st, f"{cname} defines a method ({st.name})")

    @staticmethod
    def strip_doc(body):
        body = list(body)
        while body and isinstance(body[0], ast.Expr) and isinstance(body[0].value, ast.Constant) and isinstance(body[0].value.value, str):
            body = body[1:]
        return body

    def find_method(self, cname, mname):
        c = self.classes[cname]
        found = [f for f in c.body if isinstance(f, (ast.FunctionDef, ast.AsyncFunctionDef)) and f.name == mname]
        if len(found) > 1:
            self.fail(found[1], f"{cname}.{mname} defined twice")
        for st in c.body:
            if isinstance(st, (ast.Assign, ast.AnnAssign)):
                t = st.targets[0] if isinstance(st, ast.Assign) else st.target
                if any(isinstance(n, ast.Name) and n.id == mname for n in ast.walk(t)):
                    self.fail(st, f"{cname}.{mname} is bound by an assignment in the class body")
        if not found:
            return None
        if isinstance(found[0], ast.AsyncFunctionDef):
            self.fail(found[0], "async method")
        return found[0]

    def resolve(self, start_cls, mname, node, after=None):
        """the class along the MRO of the simulator (or the worker class) that defines mname"""
        mro = [WORKER] if start_cls == WORKER else SIM_MRO
        if after is not None:
            mro = mro[mro.index(after) + 1:]
        for c in mro:
            f = self.find_method(c, mname)
            if f is not None:
                return c, f
        return None, None

    def getter_field(self, owner, attr, node, called):
        """`x.attr` (property) or `x.attr()` (plain method) whose body is `return self._f`: the attribute name _f"""
        c, f = self.resolve(owner, attr, node)
        if f is None:
            return None
        decos = [ast.unparse(d) for d in f.decorator_list]
        if (decos == ["property"]) == called:
            self.fail(node, f"{c}.{attr} is {'a property' if not called else 'not a property'} but is used the other way")
        if decos not in ([], ["property"]):
            self.fail(f, f"decorated method {c}.{attr}")
        body = self.strip_doc(f.body)
        if len(f.args.args) != 1 or len(body) != 1 or not isinstance(body[0], ast.Return) or body[0].value is None:
            return None
        r = body[0].value
        if isinstance(r, ast.Attribute) and isinstance(r.value, ast.Name) and r.value.id == f.args.args[0].arg:
            return self.mangle(c, r.attr)
        return None

    @staticmethod
    def mangle(cls, attr):
        return attr

    # ------------------------------------------------------------------ one method
    def method(self, cname, mname, node=None):
        key = (cname, mname)
        if key in self.sigs:
            return self.sigs[key]
        if key in self.failed:
            e = self.failed[key]
            raise Unsupported(node or self.tree, f"call of {cname}.{mname}, which could not be translated ({e.what} at line {e.lineno})")
        if key not in KIND:
            self.fail(node or self.tree, f"method {cname}.{mname} is not in the translator's table of methods")
        if key in self.stack:
            self.fail(node or self.tree, f"recursive call of {cname}.{mname}")
        kind = KIND[key]
        f = self.find_method(cname, mname)
        if f is None:
            self.fail(self.classes[cname], f"method {cname}.{mname} not found")
        if f.decorator_list:
            self.fail(f, f"decorated method {cname}.{mname}")
        a = f.args
        if a.vararg or a.kwonlyargs or a.posonlyargs or a.kw_defaults:
            self.fail(f, f"{cname}.{mname}: *args / keyword-only / positional-only parameters")
        if not a.args or a.args[0].arg != "self":
            self.fail(f, f"{cname}.{mname}: first parameter is not `self`")
        sig = SIG.get(key, [])
        pos = [s for s in sig if s[0] != "**"]
        kw = [s for s in sig if s[0] == "**"]
        if len(a.args) - 1 != len(pos) or bool(a.kwarg) != bool(kw):
            self.fail(f, f"{cname}.{mname} has parameters ({ast.unparse(a)}), the model knows {[s[0] for s in sig]}")
        for n in ast.walk(f):
            if isinstance(n, (ast.FunctionDef, ast.AsyncFunctionDef, ast.Lambda, ast.ClassDef)) and n is not f:
                self.fail(n, "nested function / class / lambda")
            if isinstance(n, (ast.Yield, ast.YieldFrom, ast.Await, ast.Global, ast.Nonlocal, ast.NamedExpr, ast.With, ast.Match)):
                self.fail(n, type(n).__name__)
        ctx = Ctx(cname, mname, kind, f)
        saved = self.ctx
        self.ctx = ctx
        self.stack.append(key)
        ndefs = len(self.defs)
        try:
            env = Env()
            binders, params = [], []
            ndef = len(a.defaults)
            for i, (p, (pname, ty, dflt)) in enumerate(zip(a.args[1:], pos)):
                if p.arg != pname:
                    self.fail(p, f"parameter `{p.arg}` of {cname}.{mname}: the model knows it as `{pname}`")
                di = i - (len(a.args) - 1 - ndef)
                have = ast.unparse(a.defaults[di]) if di >= 0 else None
                if have != dflt:
                    self.fail(p, f"parameter `{p.arg}` of {cname}.{mname} has default {have}, the model assumes {dflt}")
                if ty in ("CallT", "CallM"):
                    env.locals[p.arg] = V(ty, "p_call")
                    if ty == "CallT":
                        binders.append("(p_call : hkind)")
                        params.append(("call", "Call"))
                else:
                    tx = "p_" + p.arg
                    env.locals[p.arg] = V(ty, tx)
                    binders.append(f"({tx} : {GTYPE[ty]})")
                    params.append((p.arg, ty))
            if kw:
                env.locals[a.kwarg.arg] = V("Kwargs", "p_kwargs")
                binders.append("(p_kwargs : nat)")
                params.append(("**", "Kwargs"))
            if ("CallT" in [s[1] for s in pos]) != ("CallM" in [s[1] for s in pos]):
                self.fail(f, "target without method")
            body = self.strip_doc(f.body)
            name = f"gen_{cname}_{mname}"
            header = f"(* {cname}.{mname}  -- simulator.py lines {f.lineno}-{f.end_lineno} *)"
            if kind == "query":
                if len(body) != 1 or not isinstance(body[0], ast.Return) or body[0].value is None:
                    self.fail(f, f"{cname}.{mname}: the body is more than one `return <expression>`")
                v = self.ex(body[0].value, env)
                if v.ty != "Bool" or v.defd:
                    self.fail(body[0], f"{cname}.{mname} does not return a bool that is always defined")
                self.defs.append((name, f"{header}\nDefinition {name} (st : sim) : bool :=\n{ind(v.tx)}."))
            else:
                if kind == "worker_run":
                    # the thread's loop `while not self._finalized: <wait>; <one wake-up>`: one wake-up is translated
                    pre = body[:-1]
                    loop = body[-1] if body else None
                    if not isinstance(loop, ast.While) or loop.orelse or ast.unparse(loop.test) != "not self._finalized":
                        self.fail(f, "the worker's run() does not end in `while not self._finalized: ...`")
                    for st0 in pre:     # only bindings of aliases / constants may precede the loop
                        if not isinstance(st0, (ast.Assign, ast.AnnAssign)) or st0.value is None:
                            self.fail(st0, "a statement before the worker's loop that is not a local binding")
                        tg = st0.targets[0] if isinstance(st0, ast.Assign) else st0.target
                        if not isinstance(tg, ast.Name):
                            self.fail(st0, "a statement before the worker's loop that is not a local binding")
                        v0 = self.ex(st0.value, env)
                        if v0.ty not in ("Job", "WorkerSelf", "Str", "Opaque", "EvType") or v0.defd:
                            self.fail(st0, f"a local of kind {v0.ty} bound before the worker's loop (it would be stale in later wake-ups)")
                    lb = list(loop.body)
                    if not lb or ast.unparse(lb[0]) != "self.__wakeup_flag.wait()":
                        self.fail(f, "the worker's loop does not start with the wait for the wake-up")
                    body = pre + lb
                text = self.method_body(body, env, name)
                pre = (["(fuel : nat)"] if ctx.needs_fuel else []) + (["(p : program)"] if ctx.needs_p else []) + ["(w : bool)", "(st : sim)"]
                self.defs.append((name, f"{header}\n{text[0]}Definition {name} {' '.join(pre + binders)} : gres :=\n{ind(text[1])}."))
            s = {"name": name, "kind": kind, "params": params, "needs_p": ctx.needs_p, "needs_fuel": ctx.needs_fuel, "cls": cname}
            self.sigs[key] = s
            src_lines = self.lines[f.lineno - 1:f.end_lineno]
            self.translated.append({"class": cname, "method": mname, "definition": name, "lines": [f.lineno, f.end_lineno],
                                    "sha1": hashlib.sha1("\n".join(src_lines).encode("utf-8")).hexdigest(),
                                    "ignored_statements": [i for n, i in enumerate(ctx.ignored) if i not in ctx.ignored[:n]],
                                    "inlined_helpers": ctx.inlined})
            return s
        except Unsupported as exc:
            self.failed[key] = exc
            raise
        finally:
            self.ctx = saved
            self.stack.pop()

    def method_body(self, body, env, name):
        """returns (text of an auxiliary Fixpoint or '', text of the body)"""
        c = self.ctx
        loops = [i for i, s in enumerate(body) if isinstance(s, ast.While) and not self.is_wait_loop(s)]
        for s in body:
            for n in ast.walk(s):
                if isinstance(n, ast.While) and n not in body and not self.is_wait_loop(n):
                    self.fail(n, "a loop that is not at the top level of the method")
                if isinstance(n, (ast.For, ast.AsyncFor)) and ast.unparse(n) not in IGNORED_STATEMENTS and not self.is_wait_loop(n):
                    self.fail(n, "for loop")
            self.no_stray_break(s)
        if not loops:
            return "", self.block(body, env, self.finish)
        if len(loops) > 1:
            self.fail(body[loops[1]], "more than one loop in a method")
        i = loops[0]
        loop = body[i]
        if loop.orelse:
            self.fail(loop, "while ... else")
        c.needs_fuel = True
        c.has_loop = True
        lname = name + "_loop"
        # the loop function sees no locals of the method
        lenv = Env("st", "w")
        for k, v in env.locals.items():
            if v.tx and v.tx.startswith("p_"):
                lenv.locals[k] = v
        # locals bound before the loop to things that do not depend on the state stay visible in it
        probe = []
        self.block(body[:i], env, lambda e: probe.append(e) or "")
        if len(probe) == 1:
            for k, v in probe[0].locals.items():
                if k not in lenv.locals and v.ty in ("Job", "WorkerSelf", "AliasEvList", "Str", "Opaque", "EvType"):
                    lenv.locals[k] = v
        cond = self.ex_bool(loop.test, lenv)
        after = self.block(body[i + 1:], lenv, self.finish)
        c.loop = (lname, "fuel'")
        inner = self.block(loop.body, lenv, self.loop_continue)
        c.loop = None
        # the binders must be known before the text is final: needs_p may have been set while translating the body
        pp = " p" if c.needs_p else ""
        inner = inner.replace("@LOOP@", f"{lname} fuel'{pp}")
        sig = self.sigs_binders_of_current()
        ptxt = " (p : program)" if c.needs_p else ""
        bind = "".join(" " + b for b in sig)
        args = "".join(" " + b.split(" ")[0][1:] for b in sig)

        def guarded(body_text, fuel_out):
            t = f"if {cond.tx} then\n{ind(blk(body_text))}\nelse\n{ind(blk(after))}"
            return self.guard(cond.defd, lenv, t)
        fix = (f"Fixpoint {lname} (fuel : nat){ptxt} (w : bool) (st : sim){bind} {{struct fuel}} : gres :=\n"
               f"  match fuel with\n"
               f"  | O =>\n{ind(guarded('py_outside_model w st', True), 6)}\n"
               f"  | S fuel' =>\n{ind(guarded(inner, False), 6)}\n"
               f"  end.\n")
        fix = fix.replace("@LOOPARGS@", args)
        pre = self.block(body[:i], env, lambda e: f"{lname} fuel{pp} {e.w} {e.st}{args}")
        return fix, pre

    def sigs_binders_of_current(self):
        c = self.ctx
        sig = SIG.get((c.cls, c.name), [])
        out, seen = [], False
        for pname, ty, _ in sig:
            if ty in ("CallT", "CallM"):
                if not seen:
                    out.append("(p_call : hkind)")
                    seen = True
            elif ty == "Kwargs":
                out.append("(p_kwargs : nat)")
            else:
                out.append(f"(p_{pname} : {GTYPE[ty]})")
        return out

    def loop_continue(self, env):
        return f"@LOOP@ {env.w} {env.st}@LOOPARGS@"

    def finish(self, env, value=None):
        if value is None:
            return f"GRet RNone {env.w} {env.st}"
        return f"GRet (REv {value}) {env.w} {env.st}"

    def exc(self, env, kind):
        return f"GExc {kind} {env.w} {env.st}"

    def guard(self, defd, env, text):
        """Python raises (not a DSOLError) when one of the conditions fails; text may be a thunk that is evaluated
        with the conditions recorded as established (env.known is shared by the clones made afterwards)"""
        defd = [d for d in dict.fromkeys(defd) if d not in env.known]
        env.known |= set(defd)
        if callable(text):
            text = text()
        if not defd:
            return text
        return f"if negb {conj(defd)} then {self.exc(env, 'EOther')}\nelse\n{ind(blk(text))}"

    @staticmethod
    def is_wait_loop(s):
        """`while <cond>: sleep(..) [; count += 1]`, also as `for _ in range(..): [if <cond>: break;] sleep(..)` --
        waiting for another thread: a loop whose body only sleeps, counts in a local and leaves by `break`; never
        translated (no effect on the simulator object; its tests are not evaluated)"""
        if isinstance(s, ast.For):
            it = s.iter
            if not (isinstance(s.target, ast.Name) and isinstance(it, ast.Call) and isinstance(it.func, ast.Name)
                    and it.func.id == "range" and not it.keywords
                    and all(isinstance(a, ast.Constant) and isinstance(a.value, int) for a in it.args)):
                return False
        elif not isinstance(s, ast.While):
            return False
        elif not Translator.pure_wait_test(s.test):
            return False
        if s.orelse or not s.body:
            return False
        for b in s.body:
            if isinstance(b, ast.Expr) and isinstance(b.value, ast.Call) and isinstance(b.value.func, ast.Name) \
                    and b.value.func.id == "sleep":
                continue
            if isinstance(b, ast.AugAssign) and isinstance(b.target, ast.Name) and isinstance(b.op, ast.Add):
                continue
            if isinstance(b, ast.Pass):
                continue
            if isinstance(b, ast.If) and not b.orelse and len(b.body) == 1 and isinstance(b.body[0], ast.Break) \
                    and Translator.pure_wait_test(b.test):
                continue
            return False
        return any(isinstance(b, ast.Expr) for b in s.body)

    @staticmethod
    def pure_wait_test(t):
        """the test of a wait loop is not evaluated by the translation: it may only read (worker.is_waiting(),
        .is_finalized(), time.time(), int(..), attributes, locals, constants)"""
        for n in ast.walk(t):
            if isinstance(n, (ast.NamedExpr, ast.Await, ast.Yield, ast.YieldFrom, ast.Lambda)):
                return False
            if isinstance(n, ast.Call):
                f = n.func
                if isinstance(f, ast.Attribute) and f.attr in ("is_waiting", "is_finalized", "time") and not n.args and not n.keywords:
                    continue
                if isinstance(f, ast.Name) and f.id == "int" and len(n.args) == 1 and not n.keywords:
                    continue
                return False
        return True

    def no_stray_break(self, s):
        """`break` only leaves a wait loop"""
        def walk(n, inside):
            if isinstance(n, ast.Break) and not inside:
                self.fail(n, "break")
            ins = inside or self.is_wait_loop(n)
            for ch in ast.iter_child_nodes(n):
                walk(ch, ins)
        walk(s, False)

    # ------------------------------------------------------------------ expressions (pure; may carry definedness)
    def self_kind(self, e, env):
        """'sim' when e denotes the simulator object, 'worker' for the worker thread object (inside its class), else None"""
        c = self.ctx
        if isinstance(e, ast.Name) and e.id == "self" and "self" not in env.locals:
            return "worker" if c.cls == WORKER else "sim"
        if isinstance(e, ast.Name) and e.id in env.locals and env.locals[e.id].ty in ("Job", "WorkerSelf"):
            # a local / parameter bound to the simulator object (self._job, self passed on) or to the worker object;
            # neither attribute is ever re-assigned, so the alias and the attribute denote the same object
            return "sim" if env.locals[e.id].ty == "Job" else "worker"
        if isinstance(e, ast.Attribute) and e.attr == "_job" and self.self_kind(e.value, env) == "worker":
            return "sim"
        return None

    def sim_attr(self, e, attr, env, called=False):
        """attribute / getter of the simulator object"""
        st = env.st
        if not called and attr in FIELDS:
            fld = attr
        else:
            fld = self.getter_field("DEVSSimulator", attr, e, called)
            if fld is None or fld not in FIELDS:
                return None
        ty = FIELDS[fld]
        if fld == "_simulator_time":
            return V("Time", f"(TNum (clock {st}))", z=f"(clock {st})")
        if fld == "_run_until_time":
            return V("Time", f"(TNum (bound {st}))", z=f"(bound {st})")
        if fld == "_run_until_including":
            return V("Bool", f"(incl {st})")
        if fld == "_run_state":
            return V("RunSt", f"(rs {st})")
        if fld == "_replication_state":
            return V("ReplSt", f"(ps {st})")
        if fld == "_replication":
            return V("OptRepl", f"(rep {st})")
        if fld == "_error_strategy":
            return V("Z", f"(py_strategy_code (strat {st}))")
        if fld == "_eventlist":
            return V("EvList", f"(pend {st})")
        if fld == "__worker":
            return V("Worker", f"(worker {st})")
        if fld == "_name":
            return V("Str")
        return V(ty)

    def ex(self, e, env) -> V:
        c = self.ctx
        if isinstance(e, ast.Constant):
            if e.value is None:
                return V("None")
            if isinstance(e.value, bool):
                return V("Bool", "true" if e.value else "false")
            if isinstance(e.value, int):
                return V("Z", str(e.value) if e.value >= 0 else f"({e.value})")
            if isinstance(e.value, str):
                return V("Str", const=e.value)
            self.fail(e, f"literal {e.value!r}")
        if isinstance(e, ast.JoinedStr):
            return V("Str")
        if isinstance(e, ast.Name):
            if e.id in env.locals:
                v = env.locals[e.id]
                if v.ty == "AliasEvList":       # the event list OBJECT: read as it is now, not as it was at the binding
                    return V("EvList", f"(pend {env.st})")
                return v
            if e.id == "self":
                return V("WorkerSelf" if c.cls == WORKER else "Job")
            self.fail(e, f"name `{e.id}` (not a parameter or a local assigned on every path before)")
        if isinstance(e, ast.IfExp):
            cd = self.ex_bool(e.test, env)
            a, b = self.ex(e.body, env), self.ex(e.orelse, env)
            if a.ty != b.ty or a.tx is None or b.tx is None or a.ty not in ("Time", "Bool", "Z", "RunSt", "ReplSt"):
                self.fail(e, f"conditional expression between values of kinds {a.ty} and {b.ty}")
            defd = list(cd.defd)
            if a.defd:
                defd.append(f"(negb {cd.tx} || {conj(a.defd)})")
            if b.defd:
                defd.append(f"({cd.tx} || {conj(b.defd)})")
            z = f"(if {cd.tx} then {a.z} else {b.z})" if (a.ty == "Time" and a.z and b.z) else None
            tx = f"(TNum {z})" if z else f"(if {cd.tx} then {a.tx} else {b.tx})"
            return V(a.ty, tx, defd=defd, z=z)
        if isinstance(e, ast.Attribute):
            sk = self.self_kind(e.value, env)
            if sk == "sim":
                v = self.sim_attr(e, e.attr, env)
                if v is not None:
                    return v
                self.fail(e, f"attribute `.{e.attr}` of the simulator (not in the model's state record)")
            if sk == "worker":
                if e.attr == "_finalized":
                    return V("Bool", f"(py_finalized (worker {env.st}))")
                if e.attr == "_job":
                    return V("Job")
                self.fail(e, f"attribute `.{e.attr}` of the worker thread")
            if isinstance(e.value, ast.Name) and e.value.id not in env.locals:
                full = f"{e.value.id}.{e.attr}"
                if e.value.id == "RunState" and e.attr in RUNST:
                    return V("RunSt", RUNST[e.attr])
                if e.value.id == "ReplicationState" and e.attr in REPLST:
                    return V("ReplSt", REPLST[e.attr])
                if full in self.consts:
                    n = self.consts[full]
                    return V("Z", str(n) if n >= 0 else f"({n})")
                if e.value.id in EVENT_TYPE_HOLDERS and e.attr in EVENT_TYPES:
                    return V("EvType", EVENT_TYPES[e.attr])
            base = self.ex(e.value, env)
            if base.ty in ("OptRepl", "Repl") and e.attr in ("start_sim_time", "warmup_sim_time", "end_sim_time"):
                fn = {"start_sim_time": "py_opt_start", "warmup_sim_time": "py_opt_warm", "end_sim_time": "py_opt_end"}[e.attr]
                o = base.tx if base.ty == "OptRepl" else f"(py_repl {base.tx})"
                z = f"({fn} {o})"
                return V("Time", f"(TNum {z})", defd=base.defd + [f"(py_is_some {o})"], z=z)
            if base.ty == "Ev" and e.attr == "time":
                z = f"(ev_time {base.tx})"
                return V("Time", f"(TNum {z})", defd=base.defd, z=z)
            if base.ty == "OptEv" and e.attr == "time":
                z = f"(ev_time (py_the {base.tx}))"
                return V("Time", f"(TNum {z})", defd=base.defd + [f"(py_is_some {base.tx})"], z=z)
            self.fail(e, f"attribute access `{ast.unparse(e)[:60]}` (a value of kind {base.ty})")
        if isinstance(e, ast.BinOp) and isinstance(e.op, (ast.Add, ast.Sub)):
            a, b = self.ex(e.left, env), self.ex(e.right, env)
            if a.ty == "Time" and b.ty == "Time":
                fn = "py_add" if isinstance(e.op, ast.Add) else "py_sub"
                op = "+" if isinstance(e.op, ast.Add) else "-"
                z = f"({a.z} {op} {b.z})" if a.z and b.z else None
                return V("Time", f"(TNum {z})" if z else f"({fn} {a.tx} {b.tx})", defd=a.defd + b.defd, z=z)
            if a.ty == "Str" and b.ty == "Str" and isinstance(e.op, ast.Add):
                return V("Str", defd=a.defd + b.defd)
            self.fail(e, f"`{ast.unparse(e)[:60]}`: + / - between values of kinds {a.ty} and {b.ty}")
        if isinstance(e, (ast.Compare, ast.BoolOp)) or (isinstance(e, ast.UnaryOp) and isinstance(e.op, ast.Not)):
            return self.boolean(e, env)
        if isinstance(e, ast.Call):
            return self.call_expr(e, env)
        self.fail(e, f"expression {type(e).__name__}")

    def ex_bool(self, e, env) -> V:
        v = self.ex(e, env)
        if v.ty != "Bool":
            self.fail(e, f"truth value of a value of kind {v.ty}")
        return v

    def boolean(self, e, env) -> V:
        if isinstance(e, ast.BoolOp):
            is_and = isinstance(e.op, ast.And)
            vs = [self.ex_bool(x, env) for x in e.values]
            tx = vs[0].tx
            defd = conj(vs[0].defd)
            for v in vs[1:]:
                # the next operand is evaluated only if the result is still open
                reach = tx if is_and else f"(negb {tx})"
                if v.defd:
                    d2 = f"(negb {reach} || {conj(v.defd)})"
                    defd = d2 if defd == "true" else f"({defd} && {d2})"
                tx = f"({tx} && {v.tx})" if is_and else f"({tx} || {v.tx})"
            return V("Bool", tx, defd=[] if defd == "true" else [defd])
        if isinstance(e, ast.UnaryOp):
            v = self.ex_bool(e.operand, env)
            return V("Bool", f"(negb {v.tx})", defd=v.defd)
        if len(e.ops) != 1:
            self.fail(e, "chained comparison")
        op = e.ops[0]
        if isinstance(op, (ast.In, ast.NotIn)):
            # membership in a literal tuple / list / set of states or ints: a disjunction of equalities (not for times:
            # `nan in (nan,)` is decided by identity)
            lit = e.comparators[0]
            if not isinstance(lit, (ast.Tuple, ast.List, ast.Set)) or not lit.elts:
                self.fail(e, "`in` with something else than a non-empty literal tuple / list / set")
            a = self.ex(e.left, env)
            if a.ty not in ("RunSt", "ReplSt", "Z"):
                self.fail(e, f"`in` on a value of kind {a.ty}")
            parts, defd = [], list(a.defd)
            for x in lit.elts:
                one = ast.copy_location(ast.Compare(left=e.left, ops=[ast.Eq()], comparators=[x]), e)
                v = self.boolean(one, env)
                parts.append(v.tx)
                defd += [d for d in v.defd if d not in defd]
            tx = parts[0]
            for q in parts[1:]:
                tx = f"({tx} || {q})"
            return V("Bool", f"(negb {tx})" if isinstance(op, ast.NotIn) else tx, defd=defd)
        a, b = self.ex(e.left, env), self.ex(e.comparators[0], env)
        defd = a.defd + b.defd
        neg = isinstance(op, (ast.NotEq, ast.IsNot))

        def out(tx):
            return V("Bool", f"(negb {tx})" if neg else tx, defd=defd)
        if a.ty == "None" or b.ty == "None":
            if not isinstance(op, (ast.Eq, ast.NotEq, ast.Is, ast.IsNot)):
                self.fail(e, "ordering comparison with None")
            v = b if a.ty == "None" else a
            if v.ty == "OptRepl":
                return out(f"(negb (py_is_some {v.tx}))")
            if v.ty == "Worker":
                return out(f"(py_worker_is_none {v.tx})")
            if v.ty == "OptEv":
                return out(f"(negb (py_is_some {v.tx}))")
            self.fail(e, f"comparison of a value of kind {v.ty} with None")
        if a.ty == "Time" and b.ty == "Time":
            fn = {ast.Lt: "py_lt", ast.LtE: "py_le", ast.Gt: "py_gt", ast.GtE: "py_ge", ast.Eq: "py_eq", ast.NotEq: "py_ne"}.get(type(op))
            if fn is None:
                self.fail(e, f"comparison {type(op).__name__} of times")
            return V("Bool", f"({fn} {a.tx} {b.tx})", defd=defd)
        if a.ty == b.ty and a.ty in ("RunSt", "ReplSt") and isinstance(op, (ast.Eq, ast.NotEq)):
            fn = "py_runst_eqb" if a.ty == "RunSt" else "py_replst_eqb"
            return out(f"({fn} {a.tx} {b.tx})")
        if a.ty == "Z" and b.ty == "Z":
            t = {ast.Eq: f"({a.tx} =? {b.tx})", ast.NotEq: f"(negb ({a.tx} =? {b.tx}))", ast.Lt: f"({a.tx} <? {b.tx})",
                 ast.Gt: f"({a.tx} >? {b.tx})", ast.LtE: f"({a.tx} <=? {b.tx})", ast.GtE: f"({a.tx} >=? {b.tx})"}.get(type(op))
            if t is None:
                self.fail(e, f"comparison {type(op).__name__} of ints")
            return V("Bool", t, defd=defd)
        self.fail(e, f"comparison {type(op).__name__} between values of kinds {a.ty} and {b.ty}")

    def call_expr(self, e, env) -> V:
        """calls that are expressions: no effect on the state"""
        if any(isinstance(a, ast.Starred) for a in e.args) or any(k.arg is None for k in e.keywords):
            self.fail(e, "starred / ** arguments")
        f = e.func
        if isinstance(f, ast.Name) and f.id not in env.locals:
            if f.id == "isinstance" and len(e.args) == 2 and not e.keywords and isinstance(e.args[1], ast.Tuple):
                if not e.args[1].elts:
                    self.fail(e, "isinstance with an empty tuple")
                parts = []
                for t in e.args[1].elts:
                    one = ast.copy_location(ast.Call(func=e.func, args=[e.args[0], t], keywords=[]), e)
                    parts.append(self.call_expr(one, env))
                tx = parts[0].tx
                for q in parts[1:]:
                    tx = f"({tx} || {q.tx})"
                return V("Bool", tx, defd=parts[0].defd)
            if f.id == "isinstance" and len(e.args) == 2 and not e.keywords:
                v = self.ex(e.args[0], env)
                t = e.args[1]
                tn = t.id if isinstance(t, ast.Name) and t.id not in env.locals else None
                if v.ty == "Model" and tn == "ModelInterface":
                    return V("Bool", f"(py_model_is_model {v.tx})", defd=v.defd)
                if v.ty == "Repl" and tn == "ReplicationInterface":
                    return V("Bool", f"(py_repl_is_repl {v.tx})", defd=v.defd)
                if v.ty == "OptEv" and tn == "SimEventInterface":
                    return V("Bool", f"(py_is_some {v.tx})", defd=v.defd)
                if v.ty == "Ev" and tn == "SimEventInterface":
                    return V("Bool", "true", defd=v.defd)
                self.fail(e, f"`{ast.unparse(e)[:70]}` cannot be decided on the model's value universe ({v.ty})")
            if f.id == "hasattr" and len(e.args) == 2 and not e.keywords:
                v = self.ex(e.args[0], env)
                if v.ty == "Model" and isinstance(e.args[1], ast.Constant) and e.args[1].value == "_simulator":
                    return V("Bool", f"(py_model_has_simulator {v.tx})", defd=v.defd)
                self.fail(e, f"`{ast.unparse(e)[:70]}` cannot be decided on the model's value universe")
            if f.id == "str" and len(e.args) == 1 and not e.keywords:
                v = self.ex(e.args[0], env)
                return V("Str", defd=v.defd)
            if f.id == "int" and len(e.args) == 1 and ast.unparse(e) == "int(time.time() * 1000)":
                return V("Opaque")
            if f.id in self.module_funcs:
                return self.pure_helper(e, None, self.module_funcs[f.id], env, False)
            self.fail(e, f"call of `{f.id}` in an expression")
        if isinstance(f, ast.Attribute):
            sk = self.self_kind(f.value, env)
            if sk == "sim":
                if not e.args and not e.keywords:
                    v = self.sim_attr(e, f.attr, env, called=True)
                    if v is not None:
                        return v
                cls, fn = self.resolve("DEVSSimulator", f.attr, e)
                if fn is not None and KIND.get((cls, f.attr)) == "query":
                    if e.args or e.keywords:
                        self.fail(e, "arguments to a pure method")
                    s = self.method(cls, f.attr, e)
                    return V("Bool", f"({s['name']} {env.st})")
                if fn is not None and (cls, f.attr) not in KIND:
                    return self.pure_helper(e, cls, fn, env, True)
                self.fail(e, f"call of `{ast.unparse(f)}` in an expression (only the pure methods, getters and helpers that are `return <expression>`)")
            if sk == "worker":
                cls, fn = self.resolve(WORKER, f.attr, e)
                if fn is not None and (cls, f.attr) not in KIND and f.attr not in THREAD_PRIMITIVES:
                    return self.pure_helper(e, cls, fn, env, True)
                self.fail(e, f"call of `{ast.unparse(f)}` of the worker thread in an expression")
            base = self.ex(f.value, env)
            if base.ty == "EvList" and not e.args and not e.keywords:
                if f.attr == "is_empty":
                    return V("Bool", f"(py_is_empty {base.tx})", defd=base.defd)
                if f.attr == "peek_first":
                    return V("OptEv", f"(py_first {base.tx})", defd=base.defd)
            self.fail(e, f"call `.{f.attr}()` on a value of kind {base.ty} in an expression")
        self.fail(e, f"call `{ast.unparse(e)[:60]}`")

    def check_str(self, e, env):
        """an argument of print / logger: must evidently be a str"""
        v = self.ex(e, env)
        if v.ty != "Str" or v.defd:
            self.fail(e, f"`{ast.unparse(e)[:60]}` is not evidently a str (kind {v.ty}): a TypeError is possible")

    # ------------------------------------------------------------------ statements (continuation passing)
    def block(self, stmts, env, k):
        if not stmts:
            return k(env)
        if len(stmts) == 1:
            return self.stmt(stmts[0], env, k)      # the continuation itself: a try that ends the loop body can see it
        return self.stmt(stmts[0], env, lambda e2: self.block(stmts[1:], e2, k))

    def new_state(self, env, text, k):
        """let st_n := <text> in <rest>"""
        nm = self.ctx.fresh("st")
        return f"let {nm} := {text} in\n{k(env.clone(st=nm))}"

    def stmt(self, s, env, k):
        c = self.ctx
        src = ast.unparse(s)
        if src in IGNORED_STATEMENTS:
            if src.startswith("self.__wakeup_flag") and c.cls != WORKER:
                self.fail(s, "wake-up flag outside the worker class")
            c.ignored.append({"line": s.lineno, "statement": src.replace("\n", " "), "why": IGNORED_STATEMENTS[src]})
            return k(env)
        if isinstance(s, ast.Pass):
            return k(env)
        if isinstance(s, ast.Expr) and isinstance(s.value, ast.Constant) and isinstance(s.value.value, str):
            return k(env)
        if self.is_wait_loop(s):
            head = ("while " + ast.unparse(s.test)[:70]) if isinstance(s, ast.While) else ("for .. in " + ast.unparse(s.iter)[:40])
            c.ignored.append({"line": s.lineno, "statement": head + ": sleep(..)",
                              "why": "threading: waiting for the other thread"})
            return k(env)
        if isinstance(s, ast.Raise):
            if s.cause is not None or s.exc is None:
                self.fail(s, "raise ... from / bare raise")
            x = s.exc
            if not (isinstance(x, ast.Call) and isinstance(x.func, ast.Name) and x.func.id not in env.locals):
                self.fail(s, "raise of something else than <ExceptionClass>(..)")
            for a in x.args:
                self.check_str(a, env)
            if x.func.id == "DSOLError":
                return self.exc(env, "EDSOL")
            if x.func.id in OTHER_EXCEPTIONS and x.func.id not in self.bound:
                return self.exc(env, "EOther")
            self.fail(s, f"raise {x.func.id}")
        if isinstance(s, ast.Continue):
            if c.loop is not None and c.in_try and c.try_ends_loop_body and c.ret_k is None:
                # the try statement is the last one of the loop body: leaving its body / handler here IS the continue
                return self.finish(env)
            if c.loop is None or c.in_try or c.ret_k is not None:
                self.fail(s, "continue outside the body of the method's own loop / inside a try that does not end the loop body")
            return self.loop_continue(env)
        if isinstance(s, ast.Return):
            if c.in_try:
                self.fail(s, "return inside try / finally")
            if c.ret_k is not None:             # the return of an inlined helper: the call site goes on
                if s.value is None:
                    return c.ret_k(env, None)
                if isinstance(s.value, ast.Call) and self.is_effect_call(s.value, env):
                    self.fail(s, "a helper that returns the result of a call with an effect")
                v = self.ex(s.value, env)
                return self.guard(v.defd, env, lambda: c.ret_k(env, V(v.ty, v.tx, z=v.z, **v.x)))
            if s.value is None:
                return self.finish(env)
            if isinstance(s.value, ast.Call) and self.is_effect_call(s.value, env):
                return self.effect_call(s.value, env, None, tail=True)
            v = self.ex(s.value, env)
            if v.ty == "Ev":
                return self.guard(v.defd, env, self.finish(env, v.tx))
            self.fail(s, f"return of a value of kind {v.ty}")
        if isinstance(s, ast.If):
            return self.if_(s, env, k)
        if isinstance(s, (ast.Assign, ast.AnnAssign)):
            if isinstance(s, ast.Assign):
                if len(s.targets) != 1:
                    self.fail(s, "multiple assignment targets")
                target = s.targets[0]
            else:
                target = s.target
                if s.value is None:
                    self.fail(s, "annotation without a value")
            return self.assign(s, target, s.value, env, k)
        if isinstance(s, ast.Expr) and isinstance(s.value, ast.Call):
            return self.effect_call(s.value, env, k)
        if isinstance(s, ast.Try):
            return self.try_(s, env, k)
        self.fail(s, f"statement {type(s).__name__}")

    SENT = "@@K@@"

    def if_(self, s, env, k):
        """if / elif / else.  When both branches are straight-line (definedness tests first, then state updates and
        local bindings) and fall through, they are joined:  let '(st', x') := if c then .. else .. in <rest>;  when
        neither branch does anything the test only keeps its definedness; otherwise the rest of the method is
        translated on both paths."""
        c = self.ctx
        cd = self.ex_bool(s.test, env)

        def rest():
            saved = dict(c.counter)
            ends = []

            def probe(e):
                ends.append(e)
                return self.SENT
            n_ign = len(c.ignored)
            try:
                ta = self.block(s.body, env.fork(), probe)
                ea = list(ends)
                del ends[:]
                tb = self.block(s.orelse, env.fork(), probe)
                eb = list(ends)
                pa, pb = self.straight(ta, env), self.straight(tb, env)
            except Unsupported:
                # what the probe cannot translate may still translate with the real continuation (or fail there, for real)
                pa = pb = None
                ea = eb = []
            if pa is not None and pb is not None and len(ea) == 1 and len(eb) == 1:
                j = self.join(cd, pa, pb, ea[0], eb[0], env, k)
                if j is not None:
                    return j
            # no join: both paths carry the rest of the method
            c.counter = saved
            del c.ignored[n_ign:]
            a = self.block(s.body, env.fork(), k)
            b = self.block(s.orelse, env.fork(), k)
            return f"if {cd.tx} then\n{ind(blk(a))}\nelse\n{ind(blk(b))}"
        return self.guard(cd.defd, env, rest)

    @staticmethod
    def unparen(t):
        t = t.strip()
        while t.startswith("(") and t.endswith(")"):
            depth = 0
            for i, ch in enumerate(t):
                depth += ch == "("
                depth -= ch == ")"
                if depth == 0:
                    break
            if i != len(t) - 1:
                break
            t = t[1:-1].strip()
        return t

    def straight(self, text, env):
        """(definedness tests, let lines) when text is `[if negb C then GExc EOther w st else] [let .. in]* SENT`"""
        import re
        guards, lets = [], []
        t = self.unparen(text)
        while True:
            lines = t.split("\n")
            first = lines[0].strip()
            if t == self.SENT:
                return guards, lets
            m = re.match(r"^if negb (.*) then GExc EOther (\S+) (\S+)$", first)
            if m and len(lines) > 2 and lines[1].strip() == "else" and not lets:
                if m.group(2) != env.w or m.group(3) != env.st:
                    return None
                guards.append(m.group(1))
                t = self.unparen("\n".join(lines[2:]))
                continue
            if first.startswith("let ") and first.endswith(" in") and first.count(":=") == 1 and len(lines) > 1:
                lets.append(first)
                t = self.unparen("\n".join(lines[1:]))
                continue
            return None

    def join(self, cd, pa, pb, ea, eb, env, k):
        c = self.ctx
        (ga, la), (gb, lb) = pa, pb
        # components that differ at the join: state, wake-up flag, locals
        comps = []          # (kind, name, text in a, text in b, V for after)
        if ea.st != eb.st:
            comps.append(("st", None, ea.st, eb.st, None))
        if ea.w != eb.w:
            comps.append(("w", None, ea.w, eb.w, None))
        names = sorted(set(ea.locals) | set(eb.locals))
        for n in names:
            va, vb, v0 = ea.locals.get(n), eb.locals.get(n), env.locals.get(n)
            if va is None or vb is None:
                if v0 is None and (va is None) != (vb is None):
                    # bound on one path only: not visible afterwards in Python either unless that path was taken
                    return None
                continue
            if va is vb or (va.ty == vb.ty and va.tx == vb.tx and va.z == vb.z):
                continue
            if va.ty != vb.ty or va.tx is None or vb.tx is None or va.defd or vb.defd:
                return None
            if va.ty == "Time" and va.z and vb.z:
                comps.append(("z", n, va.z, vb.z, va))
            else:
                comps.append(("v", n, va.tx, vb.tx, va))
        impl = []
        if ga:
            impl.append(f"(negb {cd.tx} || {conj(ga)})")
        if gb:
            impl.append(f"({cd.tx} || {conj(gb)})")
        e2 = env.clone()
        if not comps:
            return self.guard(impl, env, lambda: k(e2))

        def tup(xs):
            return xs[0] if len(xs) == 1 else "(" + ", ".join(xs) + ")"
        news = []
        for kind, n, _a, _b, v in comps:
            if kind == "st":
                nm = c.fresh("st")
                e2.st = nm
            elif kind == "w":
                nm = c.fresh("w")
                e2.w = nm
            else:
                nm = c.fresh("v_" + n)
                e2.locals[n] = V("Time", f"(TNum {nm})", z=nm) if kind == "z" else V(v.ty, nm, **v.x)
            news.append(nm)

        def side(lets, xs):
            body = tup(xs)
            if not lets:
                return body
            return "(" + " ".join(lets) + " " + body + ")"
        pat = news[0] if len(news) == 1 else "'" + tup(news)
        line = f"let {pat} := if {cd.tx} then {side(la, [x[2] for x in comps])} else {side(lb, [x[3] for x in comps])} in"
        return self.guard(impl, env, lambda: line + "\n" + k(e2))

    def with_num(self, v, env, k_z):
        """use the time v as a number (clock, bound, timestamp of a notification)"""
        if v.z:
            return k_z(v.z)
        nm = self.ctx.fresh("z")
        return f"py_with_num {v.tx} {env.w} {env.st} (fun {nm} =>\n{ind(k_z(nm))})"

    def assign(self, s, target, value, env, k):
        c = self.ctx
        if isinstance(target, ast.Name):
            if target.id in ("self", "super") or target.id in self.bound or target.id in BUILTINS_USED:
                self.fail(s, f"assignment to the name `{target.id}`")
            if isinstance(value, ast.Call) and self.is_effect_call(value, env):
                return self.effect_call(value, env, k, bind=target.id)
            v = self.ex(value, env)
            if v.ty == "EvList":
                # the local names the event list OBJECT (self._eventlist is never re-assigned): an alias, not a snapshot
                if ast.unparse(value) not in ("self._eventlist", "self.eventlist()") or self.self_kind(ast.Name(id="self", ctx=ast.Load()), env) != "sim":
                    self.fail(s, "a local bound to the event list through something else than self._eventlist / self.eventlist()")
                e2 = env.clone()
                e2.locals[target.id] = V("AliasEvList")
                return self.guard(v.defd, env, lambda: k(e2))
            if v.ty == "Worker":
                self.fail(s, "a local bound to the worker thread object (self.__worker is re-assigned: the alias could go stale)")
            if v.ty in ("Str", "Opaque", "None", "EvType", "Job", "WorkerSelf", "Exc") or (v.ty == "Z" and isinstance(value, ast.Constant)):
                e2 = env.clone()
                e2.locals[target.id] = V(v.ty, v.tx, **v.x)
                return self.guard(v.defd, env, lambda: k(e2))
            if v.tx is None:
                self.fail(s, f"assignment of a value of kind {v.ty} to a local")
            nm = c.fresh("v_" + target.id)
            e2 = env.clone()
            e2.locals[target.id] = V(v.ty, nm, **v.x)
            if v.ty == "Time" and v.z:
                # a time known to be a number stays known: bind the number
                e2.locals[target.id] = V("Time", f"(TNum {nm})", z=nm)
                return self.guard(v.defd, env, lambda: f"let {nm} := {v.z} in\n{k(e2)}")
            return self.guard(v.defd, env, lambda: f"let {nm} := {v.tx} in\n{k(e2)}")
        if isinstance(target, ast.Attribute):
            sk = self.self_kind(target.value, env)
            attr = target.attr
            if sk == "worker":
                if attr in IGNORED_FIELDS[WORKER]:
                    v = self.ex(value, env)
                    return self.guard(v.defd, env, lambda: k(env))
                if attr == "_finalized":
                    v = self.ex(value, env)
                    if v.ty == "Bool" and v.tx == "true":
                        return self.new_state(env, f"set_worker WFinal {env.st}", k)
                    self.fail(s, "self._finalized = <something else than True>")
                self.fail(s, f"assignment to attribute `{attr}` of the worker thread")
            if sk != "sim":
                self.fail(s, f"assignment to `{ast.unparse(target)[:50]}`")
            if attr in IGNORED_FIELDS["Simulator"]:
                v = self.ex(value, env)
                return self.guard(v.defd, env, lambda: k(env))
            if attr == "__worker":
                if isinstance(value, ast.Constant) and value.value is None:
                    nm = c.fresh("st")
                    return f"let {nm} := set_worker WNone {env.st} in\n{k(env.clone(st=nm, w='false'))}"
                if ast.unparse(value) == f"{WORKER}(self.name, self)":
                    nm = c.fresh("st")
                    return f"let {nm} := set_worker WAlive {env.st} in\n{k(env.clone(st=nm, w='false'))}"
                self.fail(s, f"self.__worker = {ast.unparse(value)[:50]}")
            if attr not in FIELDS:
                self.fail(s, f"assignment to attribute `{attr}` of the simulator (not in the model's state record)")
            v = self.ex(value, env)
            ty = FIELDS[attr]
            if attr == "_replication" and v.ty == "Repl":
                return self.guard(v.defd, env, lambda: self.new_state(env, f"set_rep (py_repl {v.tx}) {env.st}", k))
            if v.ty != ty:
                self.fail(s, f"assignment of a value of kind {v.ty} to self.{attr} ({ty})")
            if ty == "Time":
                setter = {"_simulator_time": "set_clock", "_run_until_time": "set_bound"}[attr]
                return self.guard(v.defd, env, lambda: self.with_num(v, env, lambda z: self.new_state(env, f"{setter} {z} {env.st}", k)))
            setter = {"_run_until_including": "set_incl", "_run_state": "set_rs", "_replication_state": "set_ps"}.get(attr)
            if setter is None:
                self.fail(s, f"assignment to self.{attr}")
            return self.guard(v.defd, env, lambda: self.new_state(env, f"{setter} {v.tx} {env.st}", k))
        self.fail(s, f"assignment target {type(target).__name__}")

    # ---- calls with an effect
    def is_effect_call(self, e, env):
        f = e.func
        if isinstance(f, ast.Name):
            return f.id in NOEFFECT_CALLS or f.id == "SimEvent" or (f.id in self.module_funcs and f.id not in env.locals)
        if isinstance(f, ast.Attribute):
            if isinstance(f.value, ast.Call) and isinstance(f.value.func, ast.Name) and f.value.func.id == "super":
                return True
            sk = self.self_kind(f.value, env)
            if sk == "sim":
                if f.attr in ("fire", "fire_timed"):
                    return True
                cls, fn = self.resolve("DEVSSimulator", f.attr, e)
                return fn is not None and KIND.get((cls, f.attr)) != "query" and \
                    self.getter_field_safe(f.attr) is None
            if sk == "worker":
                return True
            if f.attr in ("add", "remove", "clear", "pop_first", "execute", "construct_model", "wakeup", "cleanup", "exit", "print_exc") \
                    or (isinstance(f.value, ast.Name) and f.value.id == "logger"):
                return True
        return False

    def getter_field_safe(self, attr):
        try:
            return self.getter_field("DEVSSimulator", attr, self.tree, True)
        except Unsupported:
            return None

    def args_for(self, e, sig, env, what):
        """Gallina argument texts of a call of a translated method, in binder order; (texts, definedness)"""
        pos_sig = SIG.get((sig["cls"], what), [])
        pynames = [p for p, _, _ in pos_sig if p != "**"]
        given = {}
        if len(e.args) > len(pynames):
            self.fail(e, f"too many arguments for {what}")
        for n, a in zip(pynames, e.args):
            if isinstance(a, ast.Starred):
                self.fail(e, "starred argument")
            given[n] = a
        kwargs_node = None
        for kw in e.keywords:
            if kw.arg is None:
                kwargs_node = kw.value
            elif kw.arg in pynames and kw.arg not in given:
                given[kw.arg] = kw.value
            else:
                self.fail(e, f"keyword argument `{kw.arg}` of {what}")
        out, defd = [], []
        tys = {p: t for p, t, _ in pos_sig}
        call_done = False
        for pn in pynames:
            ty = tys[pn]
            if ty in ("CallT", "CallM"):
                if call_done:
                    continue
                call_done = True
                out.append(self.call_pair(e, given.get("target"), given.get("method"), env))
                continue
            if pn not in given:
                dflt = [d for p, _, d in pos_sig if p == pn][0]
                if dflt is None:
                    self.fail(e, f"argument `{pn}` of {what} missing")
                v = self.ex(ast.parse(dflt, mode="eval").body, env)
            else:
                v = self.ex(given[pn], env)
            if v.ty != ty:
                self.fail(e, f"argument `{pn}` of {what}: a value of kind {v.ty} where the model has {ty}")
            defd += v.defd
            out.append(v.tx)
        if any(t == "Kwargs" for _, t, _ in pos_sig):
            out.append(self.kwargs_text(e, kwargs_node, env))
        elif kwargs_node is not None:
            self.fail(e, "** argument")
        return out, defd

    def call_pair(self, e, target, method, env):
        """(target, method) of an event: the method's own parameters, or (self, "warmup")"""
        if target is None or method is None:
            self.fail(e, "target / method argument missing")
        if isinstance(target, ast.Name) and isinstance(method, ast.Name) and target.id in env.locals and method.id in env.locals \
                and env.locals[target.id].ty == "CallT" and env.locals[method.id].ty == "CallM":
            return "p_call"
        if self.self_kind(target, env) == "sim" and isinstance(method, ast.Constant) and method.value == "warmup":
            cls, fn = self.resolve("DEVSSimulator", "warmup", e)
            if fn is None:
                self.fail(e, "the simulator has no method warmup")
            return "HWarm"
        self.fail(e, f"(target, method) = ({ast.unparse(target)[:30]}, {ast.unparse(method)[:30]}): neither the method's own "
                     "target / method parameters nor (self, \"warmup\")")

    def kwargs_text(self, e, node, env):
        if node is None:
            return "O"
        if isinstance(node, ast.Name) and node.id in env.locals and env.locals[node.id].ty == "Kwargs":
            return env.locals[node.id].tx
        self.fail(e, "** argument that is not the method's own **kwargs")

    def helper_params(self, e, fn, env, is_method, what):
        """bind the arguments of a call of a helper: ({name: V}, definedness of the arguments)"""
        a = fn.args
        if fn.decorator_list or isinstance(fn, ast.AsyncFunctionDef):
            self.fail(fn, f"helper {what} is decorated / async")
        if a.vararg or a.kwarg or a.kwonlyargs or a.posonlyargs:
            self.fail(fn, f"helper {what} takes *args / **kwargs / keyword-only / positional-only parameters")
        for n in ast.walk(fn):
            if isinstance(n, (ast.FunctionDef, ast.AsyncFunctionDef, ast.Lambda, ast.ClassDef)) and n is not fn:
                self.fail(n, "nested function / class / lambda")
            if isinstance(n, (ast.Yield, ast.YieldFrom, ast.Await, ast.Global, ast.Nonlocal, ast.NamedExpr, ast.With, ast.Match)):
                self.fail(n, type(n).__name__)
        names = [x.arg for x in a.args]
        if is_method:
            if not names or names[0] != "self":
                self.fail(fn, f"helper {what}: first parameter is not `self`")
            names = names[1:]
        if any(isinstance(x, ast.Starred) for x in e.args) or any(kw.arg is None for kw in e.keywords) or len(e.args) > len(names):
            self.fail(e, f"call of helper {what}: starred / ** / too many arguments")
        given = dict(zip(names, e.args))
        for kw in e.keywords:
            if kw.arg not in names or kw.arg in given:
                self.fail(e, f"call of helper {what}: keyword argument `{kw.arg}`")
            given[kw.arg] = kw.value
        ndef = len(a.defaults)
        out, defd = {}, []
        for i, n in enumerate(names):
            if n in given:
                v = self.ex(given[n], env)          # evaluated at the call site, in the caller's state, left to right
            else:
                di = i - (len(names) - ndef)
                if di < 0:
                    self.fail(e, f"call of helper {what}: argument `{n}` missing")
                v = self.ex(a.defaults[di], Env())
                if v.defd or not isinstance(a.defaults[di], (ast.Constant, ast.Attribute)):
                    self.fail(a.defaults[di], "default of a helper's parameter that is not a constant")
            defd += v.defd
            out[n] = V(v.ty, v.tx, z=v.z, **v.x)
        return out, defd

    def pure_helper(self, e, cls, fn, env, is_method):
        """a helper called inside an expression: its body must be `return <expression>`"""
        c = self.ctx
        what = f"{cls + '.' if cls else ''}{fn.name}"
        key = (cls, fn.name)
        if key in c.inline_stack:
            self.fail(e, f"recursive helper {what}")
        body = self.strip_doc(fn.body)
        if len(body) != 1 or not isinstance(body[0], ast.Return) or body[0].value is None:
            self.fail(e, f"helper {what} called inside an expression is more than `return <expression>`")
        params, defd = self.helper_params(e, fn, env, is_method, what)
        cenv = env.clone()
        cenv.locals = params
        saved = c.cls
        c.inline_stack.append(key)
        if cls:
            c.cls = cls
        try:
            v = self.ex(body[0].value, cenv)
        finally:
            c.cls = saved
            c.inline_stack.pop()
        self.note_inlined(what, fn)
        return V(v.ty, v.tx, defd=defd + v.defd, z=v.z, **v.x)

    def note_inlined(self, what, fn):
        c = self.ctx
        if not any(i["helper"] == what for i in c.inlined):
            src_lines = self.lines[fn.lineno - 1:fn.end_lineno]
            c.inlined.append({"helper": what, "lines": [fn.lineno, fn.end_lineno],
                              "sha1": hashlib.sha1("\n".join(src_lines).encode("utf-8")).hexdigest()})

    def do_return(self, env, value, node):
        """the enclosing method / helper returns value (a V or None)"""
        c = self.ctx
        if c.ret_k is not None:
            return c.ret_k(env, value)
        if value is None or value.ty == "None":
            return self.finish(env)
        if value.ty == "Ev":
            return self.finish(env, value.tx)
        self.fail(node, f"return of a value of kind {value.ty}")

    def inline_call(self, e, cls, fn, env, k, tail, bind, is_method):
        """a call of a helper that is not part of the translated interface: the callee's body at the call site.  The
        arguments are evaluated first (caller's state); the helper's `return` continues the caller, its `raise` is the
        caller's raise at that point (inside the caller's try it is caught there)."""
        c = self.ctx
        what = f"{cls + '.' if cls else ''}{fn.name}"
        key = (cls, fn.name)
        if key in c.inline_stack:
            self.fail(e, f"recursive helper {what}")
        if len(c.inline_stack) > 6:
            self.fail(e, "helpers nested more than 6 deep")
        params, defd = self.helper_params(e, fn, env, is_method, what)
        self.note_inlined(what, fn)
        for st in fn.body:
            for n in ast.walk(st):
                if isinstance(n, (ast.While, ast.For)) and not self.is_wait_loop(n) and ast.unparse(n) not in IGNORED_STATEMENTS:
                    self.fail(n, f"a loop inside helper {what}")
            self.no_stray_break(st)

        def body_text():
            cenv = env.clone()
            cenv.locals = dict(params)
            saved = (c.cls, c.ret_k, c.in_try, c.loop)
            saved_tel = c.try_ends_loop_body

            def after(e_end, value):
                inner = (c.cls, c.ret_k, c.in_try, c.loop)
                inner_tel = c.try_ends_loop_body
                c.try_ends_loop_body = saved_tel
                c.cls, c.ret_k, c.in_try, c.loop = saved
                c.inline_stack.remove(key)
                try:
                    e2 = env.clone(st=e_end.st, w=e_end.w)
                    if bind is not None:
                        if value is None or value.tx is None and value.ty not in ("None", "Str", "Opaque", "Job", "WorkerSelf", "Exc", "EvType"):
                            self.fail(e, f"the result of helper {what} is assigned but it returns nothing usable")
                        e2.locals[bind] = value
                    if tail:
                        return self.do_return(e2, value, e)
                    return k(e2)
                finally:
                    c.inline_stack.append(key)
                    c.cls, c.ret_k, c.in_try, c.loop = inner
                    c.try_ends_loop_body = inner_tel
            c.cls, c.ret_k, c.in_try, c.loop = (cls or c.cls), after, 0, None
            c.try_ends_loop_body = False
            c.inline_stack.append(key)
            try:
                return self.block(self.strip_doc(fn.body), cenv, lambda e_end: after(e_end, None))
            finally:
                c.inline_stack.remove(key)
                c.cls, c.ret_k, c.in_try, c.loop = saved
                c.try_ends_loop_body = saved_tel
        return self.guard(defd, env, body_text)

    def ensure_block(self, which, node):
        name, requires, text = {"mid": ("@MIDLUDE", MIDLUDE_REQUIRES, MIDLUDE), "post": ("@POSTLUDE", POSTLUDE_REQUIRES, POSTLUDE)}[which]
        if any(n == name for n, _ in self.defs):
            return
        for d in requires:
            _, cls, meth = d.split("_", 2)
            self.method(cls, meth, node)
        self.defs.append((name, text.strip("\n")))

    def cont(self, env, k, tail):
        return self.finish(env) if (tail or k is None) else k(env)

    def effect_call(self, e, env, k, tail=False, bind=None):
        c = self.ctx
        f = e.func
        if any(isinstance(a, ast.Starred) for a in e.args):
            self.fail(e, "starred argument")
        # ---- SimEvent(..) among the arguments: construct first
        for i, a in enumerate(e.args):
            if isinstance(a, ast.Call) and isinstance(a.func, ast.Name) and a.func.id == "SimEvent" and "SimEvent" not in env.locals:
                tmp = c.fresh("_ev")

                def after(e2, _i=i, _tmp=tmp):
                    call2 = ast.Call(func=e.func, args=list(e.args), keywords=e.keywords)
                    ast.copy_location(call2, e)
                    call2.args[_i] = ast.copy_location(ast.Name(id=_tmp, ctx=ast.Load()), a)
                    return self.effect_call(call2, e2, k, tail=tail, bind=bind)
                return self.new_event(a, env, tmp, after)
        if isinstance(f, ast.Name) and f.id not in env.locals:
            if f.id == "SimEvent":
                if bind is None:
                    self.fail(e, "SimEvent(..) whose result is dropped")
                return self.new_event(e, env, bind, lambda e2: self.cont(e2, k, tail))
            if bind is not None or tail:
                self.fail(e, f"the result of {f.id}(..) is used")
            if f.id == "print":
                for a in e.args:
                    self.check_str(a, env)
                if e.keywords:
                    self.fail(e, "keyword arguments of print")
                return k(env)
            if f.id == "sleep":
                return k(env)
            if f.id in self.module_funcs:
                return self.inline_call(e, None, self.module_funcs[f.id], env, k, tail, bind, False)
        if not isinstance(f, ast.Attribute):
            self.fail(e, f"call `{ast.unparse(e)[:60]}`")
        m = f.attr
        # ---- logging, traceback, sys.exit
        if isinstance(f.value, ast.Name) and f.value.id not in env.locals and f.value.id in ("logger", "traceback", "sys"):
            if bind is not None or tail:
                self.fail(e, "result of a logging call used")
            if f.value.id == "logger" and m in ("debug", "info", "warning", "error", "critical", "exception", "log"):
                args = list(e.args)
                if m == "log":
                    if not args:
                        self.fail(e, "logger.log without level")
                    self.ex(args[0], env)
                    args = args[1:]
                for a in args:
                    self.check_str(a, env)
                return k(env)
            if f.value.id == "traceback" and m == "print_exc" and not e.args:
                return k(env)
            if f.value.id == "sys" and m == "exit" and not e.args:
                return self.exc(env, "EExit")
            self.fail(e, f"call `{ast.unparse(e)[:60]}`")
        # ---- super().m(..)
        if isinstance(f.value, ast.Call) and isinstance(f.value.func, ast.Name) and f.value.func.id == "super":
            if f.value.args or c.cls not in SIM_MRO:
                self.fail(e, "super(..) with arguments / outside the simulator classes")
            cls, fn = self.resolve("DEVSSimulator", m, e, after=c.cls)
            if fn is None:
                self.fail(e, f"super().{m}: no such method in the simulator classes after {c.cls}")
            return self.method_call(e, cls, m, env, k, tail, bind)
        sk = self.self_kind(f.value, env)
        if sk == "sim":
            if m in ("fire", "fire_timed"):
                cls, fn = self.resolve("DEVSSimulator", m, e)
                if fn is not None:
                    self.fail(e, f"{cls} overrides {m}")
                if bind is not None or tail or e.keywords:
                    self.fail(e, "result / keyword arguments of fire")
                return self.fire(e, m, env, k)
            cls, fn = self.resolve("DEVSSimulator", m, e)
            if fn is None:
                self.fail(e, f"call of self.{m}: not a method of the simulator classes")
            return self.method_call(e, cls, m, env, k, tail, bind)
        if sk == "worker":
            if m == "wakeup" and not e.args and bind is None and not tail:
                self.check_primitive("wakeup", e)
                return k(env.clone(w="true"))
            cls, fn = self.resolve(WORKER, m, e)
            if fn is not None and m not in THREAD_PRIMITIVES and m not in ("is_waiting", "is_finalized", "is_running", "run", "__init__", "start"):
                return self.method_call(e, cls, m, env, k, tail, bind)
            self.fail(e, f"call of self.{m} in the worker class")
        base = self.ex(f.value, env)
        if bind is None and not tail and not e.keywords:
            if base.ty == "EvList":
                if m == "clear" and not e.args:
                    return self.guard(base.defd, env, lambda: self.new_state(env, f"py_eventlist_clear {env.st}", k))
                if m in ("add", "remove") and len(e.args) == 1:
                    v = self.ex(e.args[0], env)
                    if v.ty != "Ev":
                        self.fail(e, f"event list .{m}() of a value of kind {v.ty}")
                    return self.guard(base.defd + v.defd, env, lambda: self.new_state(env, f"py_eventlist_{m} {v.tx} {env.st}", k))
            if base.ty == "Worker" and not e.args and m in ("wakeup", "cleanup"):
                d = [f"(negb (py_worker_is_none {base.tx}))"]
                if m == "wakeup":
                    self.check_primitive("wakeup", e)
                    return self.guard(d, env, lambda: k(env.clone(w="true")))
                if self.find_method(WORKER, "cleanup") is None:
                    self.fail(e, "the worker class has no method cleanup")
                saved_cls = self.ctx.cls

                def as_worker():
                    # the callee runs with self = the worker thread object
                    return self.inline_call(ast.copy_location(ast.Call(func=e.func, args=[], keywords=[]), e), WORKER,
                                            self.find_method(WORKER, "cleanup"), env, k, tail, bind, True)
                return self.guard(d, env, as_worker)
            if base.ty in ("OptEv", "Ev") and m == "execute" and not e.args:
                md = c.hmode
                if md is None:
                    self.fail(e, "event.execute() in a method for which the translator has no handler mode")
                self.ensure_block("mid", e)
                c.needs_p = True
                d = base.defd + ([f"(py_is_some {base.tx})"] if base.ty == "OptEv" else [])
                evt = f"(py_the {base.tx})" if base.ty == "OptEv" else base.tx
                return self.guard(d, env, lambda: self.bind_res(f"py_execute {md} p {env.w} {env.st} {evt}", env, k))
            if base.ty == "Model" and m == "construct_model" and not e.args:
                self.ensure_block("mid", e)
                c.needs_p = True
                d = base.defd + [f"(py_model_is_model {base.tx})"]
                return self.guard(d, env, lambda: self.bind_res(f"py_construct_model p {env.w} {env.st}", env, k))
        if base.ty == "EvList" and m == "pop_first" and not e.args and bind is not None and not tail:
            nm = c.fresh("v_" + bind)
            sn = c.fresh("st")
            e2 = env.clone(st=sn)
            e2.locals[bind] = V("OptEv", nm)
            return self.guard(base.defd, env, lambda: f"let {nm} := py_first {base.tx} in\nlet {sn} := py_eventlist_pop {env.st} in\n{k(e2)}")
        self.fail(e, f"call `{ast.unparse(e)[:60]}` (on a value of kind {base.ty})")

    def check_primitive(self, name, node):
        fn = self.find_method(WORKER, name)
        body = self.strip_doc(fn.body) if fn is not None else []
        if fn is None or fn.decorator_list or len(fn.args.args) != 1 or len(body) != 1 or ast.unparse(body[0]) != THREAD_PRIMITIVES[name]:
            self.fail(fn or node, f"{WORKER}.{name} is not exactly `{THREAD_PRIMITIVES[name]}`")

    def bind_res(self, rtext, env, k):
        wn, sn = self.ctx.fresh("w"), self.ctx.fresh("st")
        return f"gbind ({rtext}) (fun _ {wn} {sn} =>\n{ind(k(env.clone(st=sn, w=wn)))})"

    def method_call(self, e, cls, m, env, k, tail, bind, noargs=False):
        c = self.ctx
        if KIND.get((cls, m)) == "query":
            self.fail(e, f"the pure method {m} called as a statement")
        if (cls, m) not in KIND:
            # a helper that is not part of the translated interface: its body is translated at the call site
            return self.inline_call(e, cls, self.find_method(cls, m), env, k, tail, bind, True)
        sig = self.method(cls, m, e)
        c.needs_p = c.needs_p or sig["needs_p"]
        c.needs_fuel = c.needs_fuel or sig["needs_fuel"]
        args, defd = ([], []) if noargs else self.args_for(e, sig, env, m)
        fuel = (c.loop[1] if c.loop else "fuel")
        pre = ([fuel] if sig["needs_fuel"] else []) + (["p"] if sig["needs_p"] else [])
        r = " ".join([sig["name"]] + pre + [env.w, env.st] + args)
        if tail:
            return self.guard(defd, env, r)
        if bind is not None:
            self.fail(e, f"the result of {m}(..) is assigned to a local")
        return self.guard(defd, env, lambda: self.bind_res(r, env, k))

    def new_event(self, call, env, local, k):
        """SimEvent(time, target, method, priority, **kwargs)"""
        if len(call.args) != 4 or [kw.arg for kw in call.keywords] != [None]:
            self.fail(call, "SimEvent(..) not called as SimEvent(time, target, method, priority, **kwargs)")
        t = self.ex(call.args[0], env)
        pr = self.ex(call.args[3], env)
        if t.ty != "Time" or pr.ty != "Z":
            self.fail(call, f"SimEvent(time : {t.ty}, .., priority : {pr.ty})")
        pair = self.call_pair(call, call.args[1], call.args[2], env)
        kw = self.kwargs_text(call, call.keywords[0].value, env)
        c = self.ctx
        en, sn = c.fresh("v_" + local.strip("_")), c.fresh("st")
        e2 = env.clone(st=sn)
        e2.locals[local] = V("Ev", en)
        return self.guard(t.defd + pr.defd, env,
                          lambda: f"py_new_SimEvent {t.tx} {pair} {pr.tx} {kw} {env.w} {env.st} (fun {en} {sn} =>\n{ind(k(e2))})")

    def fire(self, e, m, env, k):
        n = 3 if m == "fire_timed" else 2
        if len(e.args) != n:
            self.fail(e, f"{m} with {len(e.args)} arguments")
        et = self.ex(e.args[n - 2], env)
        content = self.ex(e.args[n - 1], env)
        if et.ty != "EvType":
            self.fail(e, f"{m}: the event type is not one of the lifecycle event types")
        if content.ty not in ("None", "Time"):
            self.fail(e, f"{m}: payload of kind {content.ty}")
        if m == "fire":
            return self.guard(content.defd, env, lambda: self.new_state(env, f"py_fire {et.tx} {env.st}", k))
        t = self.ex(e.args[0], env)
        if t.ty != "Time":
            self.fail(e, f"fire_timed: timestamp of kind {t.ty}")
        return self.guard(t.defd + content.defd, env,
                          lambda: self.with_num(t, env, lambda z: self.new_state(env, f"py_fire_timed {et.tx} {z} {env.st}", k)))

    def try_(self, s, env, k):
        c = self.ctx
        if s.orelse:
            self.fail(s, "try ... else")
        if len(s.handlers) > 1:
            self.fail(s, "several except clauses")
        c.in_try += 1
        saved_tel = c.try_ends_loop_body
        c.try_ends_loop_body = (c.in_try == 1 and c.loop is not None and c.ret_k is None and k == self.loop_continue
                                and not s.finalbody)
        r = self.block(s.body, env.fork(), self.finish)
        if s.handlers:
            h = s.handlers[0]
            if h.type is None:
                catch = "exn_any"
            elif isinstance(h.type, ast.Name) and h.type.id == "Exception" and "Exception" not in self.bound:
                catch = "exn_is_exception"
            elif isinstance(h.type, ast.Name) and h.type.id == "DSOLError":
                catch = "exn_is_dsol"
            else:
                self.fail(h, f"except {ast.unparse(h.type)[:40]}")
            wn, sn = c.fresh("w"), c.fresh("st")
            henv = env.fork(st=sn, w=wn)
            if h.name:
                henv.locals[h.name] = V("Exc")
            ht = self.block(h.body, henv, self.finish)
            r = f"gtry {catch} {blk(r)} (fun {wn} {sn} =>\n{ind(ht)})"
        if s.finalbody:
            wn, sn = c.fresh("w"), c.fresh("st")
            ft = self.block(s.finalbody, env.fork(st=sn, w=wn), self.finish)
            r = f"gfinally {blk(r)} (fun {wn} {sn} =>\n{ind(ft)})"
        c.in_try -= 1
        c.try_ends_loop_body = saved_tel
        return self.bind_res(r, env, k)


def translate(text: str, event_text: str, keep_going: bool = False):
    tr = Translator(text, event_text)
    failures = []

    def attempt(fn, cname, mname, dname):
        try:
            fn()
        except Unsupported as exc:
            if not keep_going:
                raise
            if not any(f["definition"] == dname for f in failures):
                failures.append({"class": cname, "method": mname, "definition": dname, "line": exc.lineno,
                                 "construct": exc.what, "error": str(exc)})
    for cname, mname, _kind in METHODS:
        attempt(lambda: tr.method(cname, mname), cname, mname, f"gen_{cname}_{mname}")
    import re
    for which, text, label in (("mid", MIDLUDE, "(model-program interpreter)"), ("post", POSTLUDE, "(command dispatch)")):
        n0 = len(failures)
        attempt(lambda: tr.ensure_block(which, tr.tree), None, label, "@" + which)
        if len(failures) > n0:      # every name the block would have defined is missing
            f0 = failures.pop()
            for nm in re.findall(r"^(?:Definition|Fixpoint)\s+([A-Za-z0-9_']+)", text, re.M):
                failures.append(dict(f0, definition=nm))
    return tr, failures


def render(tr: Translator, src_sha: str) -> str:
    out = ["(* GENERATED by translator/py2gallina_sim.py from src/pydsol/core/simulator.py -- do not edit.",
           f"   sha1 of the source file (line ends normalised): {src_sha}",
           "   Shallow embedding of the sequential logic of the simulator's methods over the state record of",
           "   Sim/Model.v; see the translator for the subset and its meaning.  Sim/GenAgree.v proves every",
           "   definition equal to the hand-written model. *)",
           "From Coq Require Import ZArith List Bool.",
           "From PV Require Import EventList.Key Sim.Model.",
           "Import ListNotations.",
           "Local Open Scope Z_scope.",
           PRELUDE]
    for _n, d in tr.defs:
        out.append(d)
        out.append("")
    return "\n".join(out) + "\n"


def main(argv):
    out_dir, keep_going, i = None, False, 0
    while i < len(argv):
        if argv[i] == "--out" and i + 1 < len(argv):
            out_dir = Path(argv[i + 1])
            i += 2
        elif argv[i] == "--keep-going":
            keep_going = True
            i += 1
        else:
            print(f"usage: {sys.argv[0]} [--out DIR [--keep-going]]", file=sys.stderr)
            return 64
    keep_going = keep_going and out_dir is not None

    def report(info):
        if out_dir is not None:
            out_dir.mkdir(parents=True, exist_ok=True)
            (out_dir / "Gen_Sim.json").write_text(json.dumps(info, indent=1) + "\n")

    def whole(line, construct, msg):
        return {"class": None, "method": None, "definition": None, "line": line, "construct": construct, "error": msg}

    def read(path):
        return path.read_bytes().decode("utf-8", errors="replace").replace("\r\n", "\n").replace("\r", "\n")
    try:
        text, event_text = read(SRC), read(SRC_EVENT)
    except OSError as exc:
        print(f"py2gallina_sim: cannot read the source: {exc}", file=sys.stderr)
        report({"ok": False, "repo": str(REPO), "source": str(SRC), "methods": [], "failures": [whole(0, "unreadable source", str(exc))]})
        return 2
    src_sha = hashlib.sha1(text.encode("utf-8")).hexdigest()
    base = {"repo": str(REPO), "source": str(SRC), "source_sha1": src_sha}
    try:
        tr, failures = translate(text, event_text, keep_going)
    except Unsupported as exc:
        print(f"py2gallina_sim: TRANSLATION FAILED\n{exc}", file=sys.stderr)
        report({**base, "ok": False, "methods": [], "failures": [whole(exc.lineno, exc.what, str(exc))]})
        return 2
    except SyntaxError as exc:
        msg = f"{exc.filename or SRC}:{exc.lineno}: unsupported construct: syntax error: {exc.msg}"
        print(f"py2gallina_sim: TRANSLATION FAILED\n{msg}", file=sys.stderr)
        report({**base, "ok": False, "methods": [], "failures": [whole(exc.lineno or 0, "syntax error", msg)]})
        return 2
    gen = render(tr, src_sha)
    target = (out_dir or (VERIF / "coq" / "Sim")) / "Gen_Sim.v"
    target.parent.mkdir(parents=True, exist_ok=True)
    if not target.exists() or target.read_text() != gen:
        target.write_text(gen)
    h = hashlib.sha1()
    for r in sorted(tr.translated, key=lambda r: (r["lines"][0], r["definition"])):
        h.update((r["definition"] + ":" + r["sha1"] + "\n").encode())
        for i in r.get("inlined_helpers", []):
            h.update((r["definition"] + "<-" + i["helper"] + ":" + i["sha1"] + "\n").encode())
    info = {**base, "ok": not failures, "translated_text_sha1": h.hexdigest(),
            "generated_sha1": hashlib.sha1(gen.encode()).hexdigest(), "methods": tr.translated, "failures": failures,
            "fixed_blocks": [n[1:] for n, _ in tr.defs if n.startswith("@")],
            "hand_transcribed_only": HAND_ONLY + [f"{f['class']}.{f['method']} (could not be translated: {f['construct']}, line {f['line']})"
                                                  for f in failures if f.get("class")]
                                                 + sorted({f"{f['method']} (fixed block left out: it rests on a method that could not be translated)"
                                                           for f in failures if not f.get("class") and f.get("method")})}
    if out_dir is not None:
        (out_dir / "Gen_Sim.json").write_text(json.dumps(info, indent=1) + "\n")
    for f in failures:
        print(f"py2gallina_sim: TRANSLATION FAILED ({f['class']}.{f['method']} left out: hand-transcribed only)\n{f['error']}", file=sys.stderr)
    print(f"py2gallina_sim: {len(tr.translated)} definitions from {SRC} -> {target} "
          f"(translated text sha1 {info['translated_text_sha1'][:12]})")
    return 2 if failures else 0


if __name__ == "__main__":
    sys.exit(main(sys.argv[1:]))
