#!/usr/bin/env python3
"""py2gallina_units.py -- regenerate the Gallina text of the Quantity / SI method bodies from the source.

Reads  $VERIF_REPO/src/pydsol/core/units.py  (default /repo) with Python's `ast` module -- the module
under test is never imported by THIS translator (the tables come from translator/dump_units.py, which
does import it) -- and translates the bodies of the methods of the classes `Quantity` and `SI` that the
hand-written model coq/Units/Dispatch.v / SIString.v transcribes (see METHODS) into Gallina definitions
gen_<Class>_<method>  over the model's number structure (`numops`), exceptions (`exn`, `result`) and the
generated tables (`qmodule`: `_units` / `_displayunits` / `_mul` / `_div` / `_sidict` / `_baseunit`
become look-ups in them).  coq/Units/GenAgree.v then proves every generated definition equal to the
hand-written function.

The translation is a shallow embedding and FAIL-CLOSED: a construct outside the subset below ends the
run with exit status 2 and `file:line: unsupported construct: ...`.  Nothing is skipped or guessed.
(With --keep-going the method concerned -- and every method that needs it -- is left out and named in
Gen_Methods.json as "hand-transcribed only"; the exit status is non-zero all the same.)

Supported subset (anything else fails)
  statements   docstring; `if / elif / else`; `raise Exc(<message>)` with Exc one of EXN; `return e`;
               `name = e`, `name: T = e`, `name op= e`; `self._x = e` and `<local object>._x = e` for the
               attributes `_unit`, `_sisig`; `lst[i] = e`; `for x in range(a, b)`, `for x in SI.SIUNITS`;
               `while <test>` with `continue`; a test `unit == None` on the optional constructor argument
  expressions  str / int / bool literals, `[0, ..., 0]`; parameters and locals; `self._unit`,
               `x._sisig`, `self._units`, `self._displayunits`, `type(x)._mul`, `type(x)._div`,
               `cls._units`, `cls._baseunit`, `cls._sidict`, `SI.SIUNITS`; properties (`self.si`,
               `self.displayvalue`: the property's own translation is called);
               `float(x)`, `abs(x)`, `-x`, `+ - * /`, `str(x)`, `len(s)`, `int(s)`;
               `type(a) == type(b)` / `!=` with `self` on one side, `type(x) == SI`,
               `type(x) == float or type(x) == int` (only as this pair), `isinstance(x, Quantity|SI)`,
               `issubclass(c, Quantity)`, `k in d`, `not`, `and`, `or`, `== != < <= > >=` (not chained);
               `d[k]`, `d.get(k, default)`, `lst[i]`, `s[:n]`, `s[n:]`, `s.startswith(t)`,
               `re.match('[0-9]', s)` as a truth value, `list(map(lambda x, y: x +|- y, a, b))`;
               calls of methods of Quantity / SI (on `self`: the class's own method; on an object
               of statically unknown class: by the object's run-time class), of `super().__new__`
               (float.__new__), constructor calls `SI(..)`, `Dimensionless(..)`, `type(self)(..)`,
               `<class taken from _mul/_div>(..)`, `<quantity argument>(..)`;
               `"...".format(a, b)` and f-strings only as exception messages
Rewrites that do not change the meaning are brought to one form before anything is emitted
  * a call of a PRIVATE HELPER -- a method of Quantity / SI that is not in METHODS, or a module-level function -- is
    translated at the call site: the arguments are evaluated first, in order, and bound to fresh names, the
    parameters are bound to them, `return` inside the helper is the value of the call, falling off its end is
    None; a closed lambda may be passed on and is applied / handed to map where the parameter is used.  Refused
    (file:line): a recursive helper, *args / **kwargs / keyword-only parameters, decorators other than
    staticmethod, a lambda that mentions names of its surroundings, yield / try / with / global / nested defs;
  * guard clause + early return and nested if / elif / else give the same nest of conditionals (the statements
    after an `if` continue each branch that falls through; branches that only assign are joined);
    `x if c else y`; `not`, `!=`, De Morgan forms are kept as written (the agreement proofs decide the atomic
    tests, not the spelling); `isinstance(x, (A, B))` is the disjunction;
  * `type(x) == float or type(x) == int`, `type(x) != float and type(x) != int`, `type(x) [not] in (float, int)`
    are one test; `len(s) > 0`, `len(s) != 0`, `len(s) >= 1`, `s != ''` and a str used as a test are
    `negb (s =? "")`, `len(s) == 0`, `s == ''`, `not s` are `s =? ""`; `s[:1] == 'c'` is `s.startswith('c')`;
  * `while i < b: body; i += 1` (body without continue / break, not assigning i or the bound) is
    `for i in range(i, b)` followed by i = max(i, b);
  * the state handed through a loop or joined after an `if` is the tuple of the assigned variables in
    ALPHABETICAL order; a local bound to an expression is let-bound (bind, if it may raise) at that point, so
    the order of evaluation of everything that may raise is the order of the source;
  * `"..." % (a, b)` with %s / %r fields is accepted as an exception message besides f-strings and str.format;
  * `math.floor(x)`, `math.ceil(x)`, `math.trunc(x)` and `round(x)` of a number are calls into the external structure
    `mathops` (Units/Dispatch.v): a method that uses one takes it as its first parameter `X_`; the int they return is
    read back as a number.
Meaning given to them (the trusted part; the fixed PRELUDE spells it out in Gallina)
  * every method yields `result T` (`Val x | Raise kind`): exceptions are data;
  * Python objects range over `gval`: an instance of the c-th quantity class (float value, `_unit`), an SI
    instance (float value, `_sisig`, `_unit` -- the unit text is a stored attribute, as in the code), a plain
    number (float or int: not distinguished, hence the pair test above) and a str that is not a number;
  * `cls(value, unit)` is `__new__` followed by `__init__` on the new object; during `__init__` an attribute
    may be read (also by a method called on `self`) only after it was assigned (checked statically);
  * `a * b` / `a / b` with a Quantity or SI instance on the left is that class's `__mul__` / `__truediv__`
    (no reflected method can take precedence: neither class is a subclass of the other and no method
    returns NotImplemented -- checked); on numbers it is the number structure's operation, division by
    zero raising ZeroDivisionError;
  * the message of an exception is evaluated for its effects only: `str(x)` of a Quantity / SI argument
    runs its `__str__` (which may raise), the text itself is dropped;
  * `str(<float>)` is not modelled: a text is a list of pieces `PNum x | PStr s`;
  * loops: `for` is a fold over the list, `while` runs on explicit fuel (`Raise Unmodelled` when it runs
    out), the loop state is the tuple of the variables the body assigns;
  * an index out of range is `Raise Unmodelled` (the model's `exn` has no IndexError);
  * lists are values: `lst[i] = e` is accepted only on a list that was created in the method (a list
    display or list(map(..))) and has not yet been stored in an attribute, passed on or returned; an
    in-place change of anything reachable from another object (`ret._sisig[i] += e`, `l = x._sisig; l[i] = e`)
    is rejected as unsupported -- it is never treated as a change of a fresh copy;
  * every generated definition takes the number structure and the module tables as arguments.

Trusted (joins the trusted base of C16 / C17): this file -- the subset semantics above.

usage: py2gallina_units.py [--out DIR [--keep-going]]
       default DIR: <verif>/coq/Units, file Gen_Methods.v; with --out also Gen_Methods.json.
"""
from __future__ import annotations

import ast
import hashlib
import json
import os
import sys
import warnings
from pathlib import Path

VERIF = Path(__file__).resolve().parent.parent
REPO = Path(os.environ.get("VERIF_REPO", "/repo"))
SRC = REPO / "src" / "pydsol" / "core" / "units.py"

EXN = ("ValueError", "TypeError", "ZeroDivisionError", "KeyError", "AttributeError")
CMP_METHODS = ["__eq__", "__ne__", "__lt__", "__le__", "__gt__", "__ge__"]
ROUNDINGS = ["__floor__", "__ceil__", "__trunc__", "__round__"]
# the integer roundings are external to units.py: a method that calls one takes the structure `mathops` as a parameter
MATH_CALLS = {"floor": "m_floor", "ceil": "m_ceil", "trunc": "m_trunc"}

# (class, method): the methods the hand-written model transcribes, in the order of the report
METHODS = (
    [("Quantity", m) for m in ["__mul__", "__rmul__", "__truediv__", "__rtruediv__", "__add__", "__radd__", "__sub__",
                               "__rsub__"] + CMP_METHODS] +
    [("SI", m) for m in ["__mul__", "__rmul__", "__truediv__", "__rtruediv__", "__add__", "__radd__", "__sub__",
                         "__rsub__"] + CMP_METHODS] +
    [("Quantity", m) for m in ["__new__", "__init__", "displayvalue", "si", "unit", "as_unit", "_val", "__neg__",
                               "__abs__", "__pos__", "__str__", "asSI", "sisig", "siunit", "sidict_to_unit"]] +
    [("SI", m) for m in ["__new__", "__init__", "displayvalue", "si", "unit", "sisig", "as_quantity", "_val",
                         "__neg__", "__abs__", "__pos__", "__str__", "siunit", "str_to_sisig"]] +
    [(c, m) for c in ("Quantity", "SI") for m in ROUNDINGS])

INTERFACE = set(METHODS)       # any other method of the two classes, and any module-level function, is a private helper

# kinds of values: V a Python object (gval); F a number; S a str; B a bool; L a list of ints; Z an int;
# T a text (pieces); OS the optional unit argument; PT a class (pytype); CLS a quantity class (nat);
# GC / GS / GI an entry of a generated table (class / str / int, or something else);
# DU DD DC DS the tables _units, _displayunits, _mul/_div, _sidict; TUP a tuple of str; U nothing (None)
GTYPE = {"V": "gval", "F": "num", "S": "string", "B": "bool", "L": "list Z", "Z": "Z", "T": "pytext",
         "OS": "option string", "PT": "pytype", "CLS": "nat", "GC": "gcls", "GS": "gstr", "GI": "gint",
         "DU": "list (gstr * gfactor)", "DD": "list (gstr * gstr)", "DC": "list (gcls * gcls)",
         "DS": "list (gstr * gint)", "TUP": "list string", "U": "unit"}

# the universe every parameter ranges over, by (class, method, name) or by name
PARAM_KIND = {("Quantity", "__new__", "unit"): "OS", ("Quantity", "__init__", "unit"): "OS",
              ("SI", "__new__", "unit"): "S", ("SI", "__init__", "unit"): "S",
              "other": "V", "value": "V", "newunit": "S", "si": "F", "quantity": "PT", "div": "B", "hat": "S",
              "dot": "S", "unitstr": "S", "sistr": "DS"}
INSTANCE_ATTRS = {"Quantity": ("_unit",), "SI": ("_sisig", "_unit")}
CLASS_ATTRS = {"_units": "DU", "_displayunits": "DD", "_mul": "DC", "_div": "DC", "_sidict": "DS", "_baseunit": "S"}
FLOAT_BUILTIN_METHODS = {"__neg__": "GNum (fneg N {x})"}          # methods of float / int the code calls by name
WHILE_FUEL = 64
# every generated definition takes the number structure and the module tables, whether it looks at them or not
USES = "let _ := (N, M) in"

PRELUDE = r"""
(* ---- fixed prelude: Python primitives on the value universe of the generated code ---- *)
Definition bind {A B : Type} (r : result A) (k : A -> result B) : result B :=
  match r with Val a => k a | Raise e => Raise e end.
Notation "'do' x <- r ; k" := (bind r (fun x => k)) (at level 200, x name, r at level 100, k at level 200).

Section Gen.
Variable N : numops.
Variable M : qmodule.
Notation num := (num N).

(* a Python object: an instance of the cls-th quantity class (float(self), _unit); an SI instance
   (float(self), _sisig, _unit); a float or an int; a str that is not the text of a number *)
Inductive gval :=
| GNamed (cls : nat) (si : num) (unit : string)
| GSI (si : num) (sisig : list Z) (unit : string)
| GNum (x : num)
| GStrObj.

(* type(x).  py_type_eqb is only used with `self` (a Quantity or SI instance) on one side *)
Inductive pytype := TNamed (c : nat) | TSI | TNumber | TOther.
Definition py_type (v : gval) : pytype :=
  match v with GNamed c _ _ => TNamed c | GSI _ _ _ => TSI | GNum _ => TNumber | GStrObj => TOther end.
Definition py_type_eqb (a b : pytype) : bool :=
  match a, b with TNamed c, TNamed d => Nat.eqb c d | TSI, TSI => true | _, _ => false end.
(* type(x) == float or type(x) == int *)
Definition py_is_number (v : gval) : bool := match v with GNum _ => true | _ => false end.
Definition py_isinstance_Quantity (v : gval) : bool := match v with GNamed _ _ _ => true | _ => false end.
Definition py_isinstance_SI (v : gval) : bool := match v with GSI _ _ _ => true | _ => false end.
Definition py_issubclass_Quantity (t : pytype) : bool := match t with TNamed _ => true | _ => false end.

(* float(x) *)
Definition py_float (v : gval) : result num :=
  match v with GNamed _ a _ | GSI a _ _ | GNum a => Val a | GStrObj => Raise ValueError end.
(* float.__new__(cls, x) *)
Definition py_float_new (v : gval) : result num := py_float v.
(* a / b on numbers *)
Definition py_truediv (a b : num) : result num :=
  if fiszero N b then Raise ZeroDivisionError else Val (fdiv N a b).
(* x * f , f * x , f / x  where f is a number and x an object that a guard (or the model's scope)
   makes a number: a str refuses; a Quantity / SI operand there is outside the subset *)
Definition py_val_times (v : gval) (f : num) : result num :=
  match v with GNum x => Val (fmul N x f) | GStrObj => Raise TypeError | _ => Raise Unmodelled end.
Definition py_float_times (f : num) (v : gval) : result num :=
  match v with GNum x => Val (fmul N f x) | GStrObj => Raise TypeError | _ => Raise Unmodelled end.
Definition py_float_over (f : num) (v : gval) : result num :=
  match v with GNum x => py_truediv f x | GStrObj => Raise TypeError | _ => Raise Unmodelled end.

(* instance attributes *)
Definition py_attr_unit (v : gval) : result string :=
  match v with GNamed _ _ u | GSI _ _ u => Val u | _ => Raise AttributeError end.
Definition py_attr_sisig (v : gval) : result (list Z) :=
  match v with GSI _ s _ => Val s | _ => Raise AttributeError end.
Definition py_set_unit (v : gval) (u : string) : result gval :=
  match v with GNamed c a _ => Val (GNamed c a u) | GSI a s _ => Val (GSI a s u) | _ => Raise AttributeError end.
Definition py_set_sisig (v : gval) (s : list Z) : result gval :=
  match v with GSI a _ u => Val (GSI a s u) | _ => Raise AttributeError end.

(* class attributes: the generated tables *)
Definition py_class (c : nat) : result qclass :=
  match get_class (qm_classes M) c with Some q => Val q | None => Raise Unmodelled end.
Definition py_type_cls (t : pytype) : result nat :=
  match t with TNamed c => Val c | _ => Raise AttributeError end.
Definition py_cls_units (c : nat) : result (list (gstr * gfactor)) := do q <- py_class c; Val (qc_units q).
Definition py_cls_displayunits (c : nat) : result (list (gstr * gstr)) := do q <- py_class c; Val (qc_display q).
Definition py_cls_mul (c : nat) : result (list (gcls * gcls)) := do q <- py_class c; Val (qc_mul q).
Definition py_cls_div (c : nat) : result (list (gcls * gcls)) := do q <- py_class c; Val (qc_div q).
Definition py_cls_sidict (c : nat) : result (list (gstr * gint)) := do q <- py_class c; Val (qc_sidict q).
Definition py_cls_baseunit (c : nat) : result string :=
  do q <- py_class c; match qc_base q with GStr b => Val b | Bad_str _ => Raise Unmodelled end.
(* the module-level name Dimensionless *)
Definition py_global_Dimensionless : result nat :=
  match qm_dimensionless M with Some d => Val d | None => Raise Unmodelled end.

(* dict operations *)
Definition py_units_get (d : list (gstr * gfactor)) (k : string) : result num :=
  match glookup k d with
  | Some (GFac f n dd) => Val (ffac N f n dd)
  | Some (Bad_factor _) => Raise Unmodelled
  | None => Raise KeyError
  end.
Definition py_str_in {V : Type} (k : string) (d : list (gstr * V)) : bool := gmem k d.
Definition py_display_get (d : list (gstr * gstr)) (k : string) (dflt : string) : gstr :=
  match glookup k d with Some g => g | None => GStr dflt end.
Definition py_sidict_get (d : list (gstr * gint)) (k : string) : result Z :=
  match glookup k d with Some (GInt v) => Val v | Some (Bad_int _) => Raise Unmodelled | None => Raise KeyError end.
Definition py_type_in (t : pytype) (d : list (gcls * gcls)) : bool :=
  match t with TNamed c => match clookup c d with Some _ => true | None => false end | _ => false end.
Definition py_clsdict_get (d : list (gcls * gcls)) (t : pytype) : result pytype :=
  match t with
  | TNamed c => match clookup c d with
                | Some (GCls r) => Val (TNamed r)
                | Some (Bad_cls _) => Raise Unmodelled
                | None => Raise KeyError
                end
  | _ => Raise KeyError
  end.

(* lists, tuples, ranges *)
Fixpoint py_range_from (a : Z) (n : nat) : list Z :=
  match n with O => [] | S k => a :: py_range_from (a + 1)%Z k end.
Definition py_range (a b : Z) : list Z := py_range_from a (Z.to_nat (b - a)).
Definition py_index {A : Type} (l : list A) (i : Z) : result A :=
  if (i <? 0)%Z then Raise Unmodelled
  else match nth_error l (Z.to_nat i) with Some x => Val x | None => Raise Unmodelled end.
Fixpoint py_list_set_nat (l : list Z) (i : nat) (v : Z) : option (list Z) :=
  match l, i with
  | _ :: r, O => Some (v :: r)
  | x :: r, S k => match py_list_set_nat r k v with Some r' => Some (x :: r') | None => None end
  | [], _ => None
  end.
Definition py_list_set (l : list Z) (i : Z) (v : Z) : result (list Z) :=
  if (i <? 0)%Z then Raise Unmodelled
  else match py_list_set_nat l (Z.to_nat i) v with Some l' => Val l' | None => Raise Unmodelled end.
(* list(map(lambda x, y: f x y, a, b)) *)
Fixpoint py_map2 (f : Z -> Z -> Z) (a b : list Z) : list Z :=
  match a, b with x :: r, y :: s => f x y :: py_map2 f r s | _, _ => [] end.
Fixpoint py_list_eqb (a b : list Z) : bool :=
  match a, b with
  | [], [] => true
  | x :: r, y :: s => Z.eqb x y && py_list_eqb r s
  | _, _ => false
  end.
(* for x in l: body   (the state is what the body assigns) *)
Fixpoint py_for {A S : Type} (l : list A) (body : A -> S -> result S) (st : S) : result S :=
  match l with
  | [] => Val st
  | x :: r => do st' <- body x st; py_for r body st'
  end.
(* while test: body   on explicit fuel *)
Fixpoint py_while {S : Type} (fuel : nat) (test : S -> bool) (body : S -> result S) (st : S) : result S :=
  match fuel with
  | O => Raise Unmodelled
  | S k => if test st then do st' <- body st; py_while k test body st' else Val st
  end.

(* str *)
Definition py_len (s : string) : Z := Z.of_nat (String.length s).
Fixpoint py_str_drop (n : nat) (s : string) : string :=
  match n, s with O, _ => s | S k, String _ r => py_str_drop k r | S _, EmptyString => EmptyString end.
Fixpoint py_str_take (n : nat) (s : string) : string :=
  match n, s with O, _ => EmptyString | S k, String c r => String c (py_str_take k r) | S _, EmptyString => EmptyString end.
Definition py_startswith (s t : string) : bool := prefix t s.
Definition py_is_digit (c : ascii) : bool := let n := nat_of_ascii c in Nat.leb 48 n && Nat.leb n 57.
(* re.match('[0-9]', s) as a truth value *)
Definition py_match_digit (s : string) : bool := match s with String c _ => py_is_digit c | EmptyString => false end.
(* int(s) for a text of one decimal digit; anything else is ValueError or outside the subset *)
Definition py_int_of_str (s : string) : result Z :=
  match s with
  | String c EmptyString => if py_is_digit c then Val (Z.of_nat (nat_of_ascii c - 48)) else Raise ValueError
  | EmptyString => Raise ValueError
  | _ => Raise Unmodelled
  end.
(* str(n) for an int *)
Definition py_str_of_int (v : Z) : string := NilZero.string_of_int (Z.to_int v).

(* texts: str(<float>) is a piece of its own *)
Inductive piece := PNum (x : num) | PStr (s : string).
Definition pytext := list piece.
(* text + <entry of a display table>: str + non-str raises *)
Definition py_text_add_gstr (t : pytext) (g : gstr) : result pytext :=
  match g with GStr s => Val (t ++ [PStr s])%list | Bad_str _ => Raise TypeError end.
"""

EPILOGUE = r"""
End Gen.

Arguments GNamed {N} cls si unit.
Arguments GSI {N} si sisig unit.
Arguments GNum {N} x.
Arguments GStrObj {N}.
Arguments PNum {N} x.
Arguments PStr {N} s.
"""


class Unsupported(Exception):
    def __init__(self, node, what):
        self.lineno = getattr(node, "lineno", 0) if node is not None else 0
        self.what = what
        super().__init__(f"{SRC}:{self.lineno}: unsupported construct: {what}")


class E:
    """a translated expression: kind, Gallina text, whether the text has type `result <kind>`, and
    what is known statically about the class of a V ('Q' a Quantity instance, 'SI', None)"""
    __slots__ = ("kind", "code", "raises", "static")

    def __init__(self, kind, code, raises=False, static=None):
        self.kind, self.code, self.raises, self.static = kind, code, raises, static


def paren(text: str) -> str:
    t = text.strip()
    if t.startswith("(") and t.endswith(")") and _balanced(t[1:-1]):
        return t
    if t.startswith('"') and t.endswith('"') and '"' not in t[1:-1]:
        return t
    if any(ch in t for ch in " \n"):
        return "(" + t + ")"
    return t


def _balanced(t: str) -> bool:
    d = 0
    for ch in t:
        if ch == "(":
            d += 1
        elif ch == ")":
            d -= 1
            if d < 0:
                return False
    return d == 0


def ind(text: str, n: int = 2) -> str:
    pad = " " * n
    return "\n".join(pad + l if l else l for l in text.split("\n"))


def cstr(s: str) -> str:
    if any(ord(ch) > 126 or ord(ch) < 32 for ch in s):
        raise ValueError("non-ASCII string literal")
    return '"' + s.replace('"', '""') + '"'


def cz(n: int) -> str:
    return f"{n}%Z" if n >= 0 else f"({n})%Z"


def ident(name: str) -> str:
    return name + "_"


def rp(code: str) -> str:
    """a result-typed term in the position `do x <- HERE; ...`"""
    t = code.strip()
    if t.startswith(("do ", "if ", "match ", "let ")):
        return "(" + t + ")"
    return t


# methods not translated but taken from the hand-written files (listed as hand-transcribed only):
# (class, method) -> (parameter kinds after the receiver, return kind, Gallina body, attributes of self it reads)
EXTERNAL = {
}


class Method:
    def __init__(self, cls, name, node, deco):
        self.cls, self.name, self.node, self.deco = cls, name, node, deco       # deco: None property classmethod staticmethod
        self.params = []          # [(python name, kind, default ast or None)] after the receiver
        self.ret = None           # (kind, static)
        self.reads = set()        # instance attributes of self it reads (transitively)
        self.deps = []
        self.gname = f"gen_{cls}_{name}"
        self.done = False
        self.uses_math = False


class Ctx:
    """state of the method being translated"""
    def __init__(self, m: Method):
        self.m = m
        self.n = 0
        self.rets = []
        self.loop_k = None
        self.is_init = m.name == "__init__"
        self.inline = False          # the body of a private helper translated at its call site

    def fresh(self, stem="t"):
        self.n += 1
        return f"{stem}{self.n}'"            # a prime: never the image `name_` of a Python name


class Translator:
    def __init__(self, text: str):
        with warnings.catch_warnings():
            warnings.simplefilter("ignore")
            self.tree = ast.parse(text)
        self.text_lines = text.split("\n")
        self.cls_nodes = {}
        self.methods = {}           # (cls, name) -> Method
        self.state = {}             # (cls, name) -> "busy" | Method | Unsupported
        self.glue = {}              # glue name -> True / Unsupported
        self.defs = []              # (name, text) in dependency order
        self.records = []           # evidence
        self.ctx = None
        self.siunits = None
        self.math_ok = False
        self.module_funcs = {}      # module-level functions (private helpers are translated at their call sites)
        self.inline_stack = []
        self.module_checks()

    def fail(self, node, what):
        raise Unsupported(node, what)

    # ------------------------------------------------------------------ module level
    def module_checks(self):
        re_ok = False
        for st in self.tree.body:
            if isinstance(st, ast.Import):
                for a in st.names:
                    if a.name == "re" and a.asname is None:
                        re_ok = True
                    elif a.name == "math" and a.asname is None:
                        self.math_ok = True
                    elif (a.asname or a.name.split(".")[0]) in ("re", "math", "round", "SI", "Quantity", "Dimensionless"):
                        self.fail(st, f"the name `{a.asname or a.name}` is rebound by an import")
            elif isinstance(st, ast.ImportFrom):
                for a in st.names:
                    if a.name == "*" or (a.asname or a.name) in ("re", "SI", "Quantity", "Dimensionless", "float", "int", "str",
                                                                  "type", "isinstance", "issubclass", "abs", "len", "list", "map", "range"):
                        self.fail(st, f"import that may rebind a name the translation relies on ({a.name})")
            elif isinstance(st, ast.ClassDef):
                if st.name in self.cls_nodes:
                    self.fail(st, f"class {st.name} defined twice")
                self.cls_nodes[st.name] = st
            elif isinstance(st, (ast.FunctionDef, ast.AsyncFunctionDef)):
                if st.name in ("SI", "Quantity", "Dimensionless", "float", "int", "str", "type", "isinstance", "issubclass",
                               "abs", "len", "list", "map", "range", "super", "re", "math", "round"):
                    self.fail(st, f"module-level function rebinds `{st.name}`")
                if isinstance(st, ast.FunctionDef) and not st.decorator_list:
                    if st.name in self.module_funcs:
                        self.fail(st, f"module-level function {st.name} defined twice")
                    self.module_funcs[st.name] = Method("<module>", st.name, st, "staticmethod")
            elif isinstance(st, (ast.Assign, ast.AnnAssign, ast.AugAssign)):
                tg = st.targets if isinstance(st, ast.Assign) else [st.target]
                for t in tg:
                    for n in ast.walk(t):
                        if isinstance(n, ast.Name) and isinstance(n.ctx, (ast.Store, ast.Del)) and n.id in ("SI", "Quantity", "Dimensionless", "re", "float", "int", "str",
                                                                "type", "isinstance", "issubclass", "abs", "len", "list", "map",
                                                                "range", "math", "round"):
                            self.fail(st, f"module-level assignment rebinds `{n.id}`")
        self.re_ok = re_ok
        for c in ("Quantity", "SI", "Dimensionless"):
            if c not in self.cls_nodes:
                self.fail(None, f"class {c} not found")
        q, s, d = (self.cls_nodes[c] for c in ("Quantity", "SI", "Dimensionless"))
        if not (len(s.bases) == 1 and isinstance(s.bases[0], ast.Name) and s.bases[0].id == "float") or s.keywords:
            self.fail(s, "class SI is not `class SI(float)`")
        qb = [ast.unparse(b) for b in q.bases]
        if qb != ["Generic[Q]", "ABC", "float"] or q.keywords:
            self.fail(q, f"class Quantity has bases {qb}, expected Generic[Q], ABC, float")
        db = [ast.unparse(b) for b in d.bases]
        if len(db) != 1 or not db[0].startswith("Quantity[") or d.keywords:
            self.fail(d, f"class Dimensionless has bases {db}, expected Quantity[...]")
        if s.decorator_list or q.decorator_list:
            self.fail(q, "decorated class")
        for cn, node in (("Quantity", q), ("SI", s)):
            for st in node.body:
                if isinstance(st, ast.FunctionDef):
                    deco = None
                    for dd in st.decorator_list:
                        if isinstance(dd, ast.Name) and dd.id in ("property", "classmethod", "staticmethod") and deco is None:
                            deco = dd.id
                        else:
                            self.fail(st, f"decorator {ast.unparse(dd)} on {cn}.{st.name}")
                    if (cn, st.name) in self.methods:
                        self.fail(st, f"{cn}.{st.name} defined twice")
                    self.methods[(cn, st.name)] = Method(cn, st.name, st, deco)
                elif isinstance(st, ast.Assign) and len(st.targets) == 1 and isinstance(st.targets[0], ast.Name):
                    name = st.targets[0].id
                    if cn == "SI" and name == "SIUNITS":
                        v = st.value
                        if not (isinstance(v, ast.Tuple) and all(isinstance(x, ast.Constant) and isinstance(x.value, str) for x in v.elts)):
                            self.fail(st, "SI.SIUNITS is not a tuple of str literals")
                        self.siunits = [x.value for x in v.elts]
                    elif name.startswith("__") or name in {mm for _c, mm in METHODS}:
                        self.fail(st, f"class attribute {cn}.{name} may replace a method")
                elif isinstance(st, ast.Expr) and isinstance(st.value, ast.Constant) and isinstance(st.value.value, str):
                    pass
                elif isinstance(st, ast.Pass):
                    pass
                else:
                    self.fail(st, f"statement in the body of class {cn}: {type(st).__name__}")
            for n in ast.walk(node):
                if isinstance(n, ast.Name) and n.id == "NotImplemented":
                    self.fail(n, "NotImplemented (reflected-operator protocol) is outside the subset")
        for n in self.methods:
            if n[1] in ("__getattr__", "__getattribute__", "__setattr__", "__float__", "__bool__", "__init_subclass__",
                        "__class_getitem__", "__format__", "__hash__"):
                self.fail(self.methods[n].node, f"{n[0]}.{n[1]} changes the meaning of attribute access / conversion")
        if self.siunits is None:
            self.fail(s, "SI.SIUNITS not found")
        # nothing after the class definitions may patch the two classes
        for st in self.tree.body:
            if isinstance(st, (ast.ClassDef, ast.FunctionDef, ast.Import, ast.ImportFrom)):
                continue
            for n in ast.walk(st):
                if isinstance(n, (ast.Attribute,)) and isinstance(n.ctx, (ast.Store, ast.Del)) and isinstance(n.value, ast.Name) \
                        and n.value.id in ("SI", "Quantity"):
                    self.fail(st, f"module-level statement assigns {n.value.id}.{n.attr}")
                if isinstance(n, ast.Call) and isinstance(n.func, ast.Name) and n.func.id in ("setattr", "delattr", "exec", "eval"):
                    self.fail(st, f"module-level call of {n.func.id}")

    # ------------------------------------------------------------------ methods on demand
    def want(self, cls, name, at=None) -> Method:
        key = (cls, name)
        st = self.state.get(key)
        if isinstance(st, Method):
            return st
        if isinstance(st, Unsupported):
            raise st
        if st == "busy":
            self.fail(at, f"recursive use of {cls}.{name}")
        if key not in self.methods:
            self.fail(at, f"{cls} has no method {name}")
        self.state[key] = "busy"
        saved = self.ctx
        try:
            m = self.methods[key]
            if key in EXTERNAL:
                self.external(m)
            else:
                self.translate_method(m)
            self.state[key] = m
            return m
        except Unsupported as exc:
            self.state[key] = exc
            raise
        finally:
            self.ctx = saved

    def note_dep(self, m: Method):
        if self.ctx is not None:
            if m.gname not in self.ctx.m.deps:
                self.ctx.m.deps.append(m.gname)

    def external(self, m: Method):
        kinds, ret, body, reads = EXTERNAL[(m.cls, m.name)]
        self.signature(m)
        if [k for _n, k, _d in m.params] != list(kinds):
            self.fail(m.node, f"signature of {m.cls}.{m.name} changed: parameters {[n for n, _k, _d in m.params]}")
        m.ret, m.reads = ret, set(reads)
        recv = self.receiver(m)
        ps = "".join(f" ({ident(n)} : {GTYPE[k]})" for n, k, _d in ([recv] if recv else []) + m.params)
        self.defs.append((m.gname, f"(* {m.cls}.{m.name}: NOT translated -- the hand-written definition is used *)\n"
                          f"Definition {m.gname}{ps} : result {paren(GTYPE[ret[0]])} :=\n  {USES}\n{ind(body)}."))
        m.external = True

    def receiver(self, m: Method):
        if m.deco == "staticmethod":
            return None
        if m.deco == "classmethod" or m.name == "__new__":
            return ("cls", "CLS", None) if m.cls == "Quantity" else None
        return ("self", "V", None)

    def signature(self, m: Method):
        a = m.node.args
        if a.posonlyargs or a.kwonlyargs or a.vararg or a.kw_defaults:
            self.fail(m.node, f"signature of {m.cls}.{m.name}: positional-only / keyword-only / *args")
        if a.kwarg is not None and m.name not in ("__new__", "__init__"):
            self.fail(m.node, f"**{a.kwarg.arg} in {m.cls}.{m.name}")
        names = [x.arg for x in a.args]
        first = None if m.deco == "staticmethod" else ("cls" if (m.deco == "classmethod" or m.name == "__new__") else "self")
        if first is not None:
            if not names or names[0] != first:
                self.fail(m.node, f"first parameter of {m.cls}.{m.name} is not `{first}`")
            names = names[1:]
        defaults = [None] * (len(names) - len(a.defaults)) + list(a.defaults)
        m.params = []
        for n, d in zip(names, defaults):
            k = PARAM_KIND.get((m.cls, m.name, n)) or PARAM_KIND.get(n)
            if k is None:
                self.fail(m.node, f"parameter `{n}` of {m.cls}.{m.name}: no universe known for it")
            m.params.append((n, k, d))
        m.kwarg = a.kwarg.arg if a.kwarg else None

    def source_record(self, m: Method, what):
        lo, hi = m.node.lineno, m.node.end_lineno
        if m.node.decorator_list:
            lo = min(lo, min(d.lineno for d in m.node.decorator_list))
        body = [st for st in m.node.body if not (isinstance(st, ast.Expr) and isinstance(st.value, ast.Constant)
                                                 and isinstance(st.value.value, str))]
        text = ast.unparse(ast.Module(body=[ast.FunctionDef(name=m.node.name, args=m.node.args, body=body or [ast.Pass()],
                                                            decorator_list=m.node.decorator_list, returns=None,
                                                            lineno=0, col_offset=0)], type_ignores=[]))
        return {"class": m.cls, "method": m.name, "file": str(SRC), "lines": [lo, hi], "what": what,
                "sha1": hashlib.sha1(text.encode()).hexdigest()}

    def translate_method(self, m: Method):
        self.signature(m)
        ctx = self.ctx = Ctx(m)
        env = {}
        recv = self.receiver(m)
        if m.deco == "staticmethod":
            pass
        elif m.deco == "classmethod" or m.name == "__new__":
            env["cls"] = E("CLS", ident("cls")) if m.cls == "Quantity" else E("PT", "TSI")
        else:
            env["self"] = E("V", ident("self"), False, "Q" if m.cls == "Quantity" else "SI")
        env["@assigned"] = frozenset() if ctx.is_init else frozenset(INSTANCE_ATTRS[m.cls])
        for n, k, _d in m.params:
            env[n] = E(k, ident(n))
        body = list(m.node.body)
        k_end = None
        if ctx.is_init:
            def k_end(e):
                missing = [a for a in INSTANCE_ATTRS[m.cls] if a not in e["@assigned"]]
                if missing:
                    self.fail(m.node, f"{m.cls}.__init__ may end without assigning {missing}")
                ctx.rets.append(("V", "Q" if m.cls == "Quantity" else "SI"))
                return f"Val {ident('self')}"
        code = self.block(body, env, k_end)
        kinds = {k for k, _s in ctx.rets}
        if len(kinds) != 1:
            self.fail(m.node, f"{m.cls}.{m.name} returns values of different kinds {sorted(kinds)}")
        statics = {s for _k, s in ctx.rets}
        m.ret = (kinds.pop(), statics.pop() if len(statics) == 1 else None)
        ps = (" (X_ : mathops N)" if m.uses_math else "") + \
            "".join(f" ({ident(n)} : {GTYPE[k]})" for n, k, _d in ([recv] if recv else []) + m.params)
        lo, hi = m.node.lineno, m.node.end_lineno
        self.defs.append((m.gname, f"(* {m.cls}.{m.name}  ({SRC.name}:{lo}-{hi}) *)\n"
                          f"Definition {m.gname}{ps} : result {paren(GTYPE[m.ret[0]])} :=\n  {USES}\n{ind(code)}."))
        self.records.append(self.source_record(m, m.gname))

    # ------------------------------------------------------------------ statements
    @staticmethod
    def is_doc(st):
        return isinstance(st, ast.Expr) and isinstance(st.value, ast.Constant) and isinstance(st.value.value, str)

    def terminates(self, stmts) -> bool:
        stmts = [s for s in stmts if not self.is_doc(s)]
        if not stmts:
            return False
        last = stmts[-1]
        if isinstance(last, (ast.Return, ast.Raise, ast.Continue)):
            return True
        if isinstance(last, ast.If):
            return self.terminates(last.body) and self.terminates(last.orelse)
        return False

    def bind_code(self, name, e: E, rest: str) -> str:
        if e.raises:
            if rest.strip() == f"Val {name}":
                return e.code               # do x <- E; Val x  is E
            return f"do {name} <- {rp(e.code)};\n{rest}"
        return f"let {name} := {e.code} in\n{rest}"

    def block(self, stmts, env, k) -> str:
        stmts = [s for s in stmts if not self.is_doc(s)]
        if not stmts:
            if k is None:
                self.fail(self.ctx.m.node, f"{self.ctx.m.cls}.{self.ctx.m.name} may end without a return statement")
            return k(env)
        st, rest = stmts[0], stmts[1:]

        def cont(e):
            return self.block(rest, e, k)

        if isinstance(st, ast.Return):
            if rest:
                self.fail(rest[0], "statement after return")
            if self.ctx.loop_k is not None:
                self.fail(st, "return inside a loop")
            if self.ctx.is_init:
                self.fail(st, "return inside __init__")
            if st.value is None or (isinstance(st.value, ast.Constant) and st.value.value is None):
                if not self.ctx.inline:
                    self.fail(st, "return without a value")
                self.ctx.rets.append(("U", None))
                return "Val tt"
            e = self.expr(st.value, env)
            if e.kind not in GTYPE or (e.kind == "U" and not self.ctx.inline):
                self.fail(st, f"return of a value of kind {e.kind}")
            self.ctx.rets.append((e.kind, e.static))
            return e.code if e.raises else f"Val {paren(e.code)}"
        if isinstance(st, ast.Raise):
            if rest:
                self.fail(rest[0], "statement after raise")
            return self.raise_stmt(st, env)
        if isinstance(st, ast.Continue):
            if rest:
                self.fail(rest[0], "statement after continue")
            if self.ctx.loop_k is None:
                self.fail(st, "continue outside a loop")
            return self.ctx.loop_k(env)
        if isinstance(st, ast.Pass):
            return cont(env)
        if isinstance(st, ast.Expr) and isinstance(st.value, ast.Call):
            # a call for its effects (here: the exceptions it may raise); the value is dropped
            e = self.expr(st.value, env)
            if e.kind not in GTYPE:
                self.fail(st, f"call statement of kind {e.kind}")
            return f"do _ <- {rp(e.code)};\n{cont(env)}" if e.raises else cont(env)
        if isinstance(st, (ast.Assign, ast.AnnAssign, ast.AugAssign)):
            return self.assign(st, env, cont)
        if isinstance(st, ast.If):
            return self.if_stmt(st, env, rest, cont)
        if isinstance(st, ast.For):
            return self.for_stmt(st, env, cont)
        if isinstance(st, ast.While):
            return self.while_stmt(st, env, cont)
        self.fail(st, f"statement {type(st).__name__}")

    def raise_stmt(self, st, env) -> str:
        x = st.exc
        if st.cause is not None or not (isinstance(x, ast.Call) and isinstance(x.func, ast.Name)):
            self.fail(st, "raise of something else than Exc(<message>)")
        if x.func.id not in EXN:
            self.fail(st, f"raise {x.func.id}: not one of {', '.join(EXN)}")
        if x.keywords or len(x.args) > 1:
            self.fail(st, "raise Exc(...) with several arguments")
        effects = self.message(x.args[0], env) if x.args else []
        code = f"Raise {x.func.id}"
        for c in reversed(effects):
            code = f"do _ <- {rp(c)};\n{code}"
        return code

    def message(self, n, env):
        """result-typed Gallina terms whose effects (a raise) formatting the message has, in order"""
        if isinstance(n, ast.Constant) and isinstance(n.value, str):
            return []
        if isinstance(n, ast.BinOp) and isinstance(n.op, ast.Add):
            return self.message(n.left, env) + self.message(n.right, env)
        vals = None
        if isinstance(n, ast.JoinedStr):
            vals = []
            for v in n.values:
                if isinstance(v, ast.Constant):
                    continue
                if not isinstance(v, ast.FormattedValue) or v.conversion != -1 or v.format_spec is not None:
                    self.fail(n, "f-string with a conversion or a format specification")
                vals.append(v.value)
        elif isinstance(n, ast.Call) and isinstance(n.func, ast.Attribute) and n.func.attr == "format" \
                and isinstance(n.func.value, ast.Constant) and isinstance(n.func.value.value, str) and not n.keywords:
            import string as _s
            fields = [f for _t, f, spec, conv in _s.Formatter().parse(n.func.value.value) if f is not None
                      for f in [(f, spec, conv)]]
            if any(f != "" or spec or conv for f, spec, conv in fields) or len(fields) != len(n.args):
                self.fail(n, "str.format with numbered / named / formatted fields or a different number of arguments")
            vals = list(n.args)
        if vals is None and isinstance(n, ast.BinOp) and isinstance(n.op, ast.Mod) and isinstance(n.left, ast.Constant) \
                and isinstance(n.left.value, str):
            import re as _re
            specs = _re.findall(r"%(?:\([^)]*\))?[-#0 +]*(?:\*|\d+)?(?:\.(?:\*|\d+))?[hlL]?(.)", n.left.value)
            specs = [c for c in specs if c != "%"]
            vals = list(n.right.elts) if isinstance(n.right, ast.Tuple) else [n.right]
            if any(c not in "sr" for c in specs) or len(specs) != len(vals) or "%(" in n.left.value:
                self.fail(n, "%-formatting other than %s / %r with one value per field")
        if vals is None:
            self.fail(n, "exception message that is neither a literal, an f-string, '...'.format(...) nor '...' % (...)")
        out = []
        for v in vals:
            if isinstance(v, ast.Attribute) and v.attr == "__name__" and isinstance(v.value, ast.Call) \
                    and isinstance(v.value.func, ast.Name) and v.value.func.id == "type" and len(v.value.args) == 1:
                e = self.expr(v.value.args[0], env)
                if e.kind != "V":
                    self.fail(v, "type(x).__name__ of something that is not an object")
                if e.raises:
                    out.append(e.code)
                continue
            if self.is_type_call(v, env):          # str(type(x)): the repr of a class, total
                e = self.expr(v.args[0], env)
                if e.kind not in ("V", "PT", "CLS"):
                    self.fail(v, f"type() of a value of kind {e.kind}")
                if e.raises:
                    out.append(e.code)
                continue
            e = self.expr(v, env)
            if e.kind in ("PT", "CLS"):            # str(<class>): total
                continue
            if e.kind == "V":
                g = self.want_glue("dyn_str_effect", v)
                if e.raises:
                    t = self.ctx.fresh()
                    out.append(f"(do {t} <- {rp(e.code)}; {g} {t})")
                else:
                    out.append(f"{g} {paren(e.code)}")
            elif e.kind in ("S", "F", "Z", "OS", "B", "L", "T"):
                if e.raises:
                    out.append(e.code)
            else:
                self.fail(v, f"formatting a value of kind {e.kind}")
        return out

    def assign(self, st, env, cont) -> str:
        if isinstance(st, ast.Assign):
            if len(st.targets) != 1:
                self.fail(st, "chained assignment")
            target, value = st.targets[0], st.value
        elif isinstance(st, ast.AnnAssign):
            if st.value is None:
                self.fail(st, "annotation without a value")
            target, value = st.target, st.value
        else:
            target = st.target
            load = ast.copy_location(ast.Name(id=target.id, ctx=ast.Load()), target) if isinstance(target, ast.Name) else None
            if load is None:
                self.fail(st, "augmented assignment to something else than a local")
            value = ast.copy_location(ast.BinOp(left=load, op=st.op, right=st.value), st)
        env = dict(env)
        if isinstance(target, ast.Name):
            if target.id in ("self", "cls") or target.id.startswith("@"):
                self.fail(st, f"assignment to {target.id}")
            e = self.expr(value, env)
            if e.kind not in GTYPE or e.kind == "U":
                self.fail(st, f"assignment of a value of kind {e.kind}")
            old = env.get(target.id)
            if old is not None and old.kind != e.kind:
                self.fail(st, f"`{target.id}` changes its kind from {old.kind} to {e.kind}")
            env[target.id] = E(e.kind, ident(target.id), False, e.static)
            return self.bind_code(ident(target.id), e, cont(env))
        if isinstance(target, ast.Attribute) and isinstance(target.value, ast.Name):
            obj = target.value.id
            o = env.get(obj)
            if o is None or o.kind != "V" or o.static not in ("Q", "SI"):
                self.fail(st, f"attribute assignment on `{obj}`, whose class is not known statically")
            if obj == "self" and not self.ctx.is_init:
                self.fail(st, "assignment to an attribute of self outside __init__")
            cls = "Quantity" if o.static == "Q" else "SI"
            if target.attr not in INSTANCE_ATTRS[cls]:
                self.fail(st, f"assignment to attribute {target.attr} of a {cls} object")
            e = self.expr(value, env)
            want = "S" if target.attr == "_unit" else "L"
            if e.kind != want:
                self.fail(st, f"{target.attr} is assigned a value of kind {e.kind}, expected {want}")
            setter = "py_set_unit" if target.attr == "_unit" else "py_set_sisig"
            if obj == "self":
                env["@assigned"] = env["@assigned"] | {target.attr}
            name = ident(obj)
            if e.raises:
                t = self.ctx.fresh()
                return f"do {t} <- {rp(e.code)};\ndo {name} <- {setter} {name} {t};\n{cont(env)}"
            return f"do {name} <- {setter} {name} {paren(e.code)};\n{cont(env)}"
        if isinstance(target, ast.Subscript) and isinstance(target.value, ast.Name):
            lst = env.get(target.value.id)
            if lst is None or lst.kind != "L":
                self.fail(st, "item assignment to something else than a local list of ints")
            if lst.static != "fresh":
                self.fail(st, f"in-place change of the list `{target.value.id}`, which may be shared with another object "
                              "(only a list created in this method and not yet handed on may be changed in place)")
            i = self.expr(target.slice, env)
            e = self.expr(value, env)
            if i.kind != "Z" or e.kind != "Z":
                self.fail(st, f"lst[i] = v with i of kind {i.kind}, v of kind {e.kind}")
            name = ident(target.value.id)
            r = self.lift([i, e], lambda c: E("L", f"py_list_set {name} {c[0]} {c[1]}", True))
            return self.bind_code(name, r, cont(env))
        self.fail(st, "assignment target")

    def has_jump(self, stmts) -> bool:
        return any(isinstance(n, (ast.Return, ast.Continue, ast.Break)) for st in stmts for n in ast.walk(st))

    def none_test(self, t, env):
        """`x == None`, `x is None`, `x != None`, `x is not None`, `not (..)` of these, on the optional argument
        -> (name, its E, True when the test holds for None)"""
        neg = False
        while isinstance(t, ast.UnaryOp) and isinstance(t.op, ast.Not):
            neg, t = not neg, t.operand
        if isinstance(t, ast.Compare) and len(t.ops) == 1 and isinstance(t.ops[0], (ast.Eq, ast.Is, ast.NotEq, ast.IsNot)) \
                and isinstance(t.left, ast.Name) and isinstance(t.comparators[0], ast.Constant) and t.comparators[0].value is None:
            o = env.get(t.left.id)
            if o is None or o.kind != "OS":
                self.fail(t, f"`{t.left.id} == None` on something else than the optional unit argument")
            return t.left.id, o, isinstance(t.ops[0], (ast.Eq, ast.Is)) != neg
        return None

    def if_stmt(self, st, env, rest, cont) -> str:
        bt, et = self.terminates(st.body), self.terminates(st.orelse)
        if bt and et and rest:
            self.fail(rest[0], "statement after an if whose branches all return / raise")
        t = st.test
        narrow = None
        # `unit == None` on the optional constructor argument: a match that narrows it to a str
        swap = False
        if isinstance(t, ast.UnaryOp) and isinstance(t.op, ast.Not) and isinstance(t.operand, ast.Compare):
            inner = t.operand
            if len(inner.ops) == 1 and isinstance(inner.left, ast.Name) and isinstance(inner.comparators[0], ast.Constant) \
                    and inner.comparators[0].value is None and isinstance(inner.ops[0], (ast.Eq, ast.Is, ast.NotEq, ast.IsNot)):
                flip = {ast.Eq: ast.NotEq, ast.Is: ast.IsNot, ast.NotEq: ast.Eq, ast.IsNot: ast.Is}[type(inner.ops[0])]
                t = ast.copy_location(ast.Compare(left=inner.left, ops=[flip()], comparators=inner.comparators), t)
        if isinstance(t, ast.Compare) and len(t.ops) == 1 and isinstance(t.ops[0], (ast.Eq, ast.Is, ast.NotEq, ast.IsNot)) \
                and isinstance(t.left, ast.Name) and isinstance(t.comparators[0], ast.Constant) and t.comparators[0].value is None:
            o = env.get(t.left.id)
            if o is None or o.kind != "OS":
                self.fail(t, f"`{t.left.id} == None` on something else than the optional unit argument")
            narrow = (t.left.id, o)
            swap = isinstance(t.ops[0], (ast.NotEq, ast.IsNot))
            c = None
        else:
            c = self.truth(self.expr(t, env), t)

        def narrowed(yes):
            e = dict(env)
            if narrow and yes:
                e[narrow[0]] = E("S", ident(narrow[0]))
            return e

        def env_then():
            return narrowed(swap)

        def env_else():
            return narrowed(not swap)

        def render(a, b):
            if narrow:
                if swap:
                    a, b = b, a
                return f"match {narrow[1].code} with\n| None =>\n{ind(a, 4)}\n| Some {ident(narrow[0])} =>\n{ind(b, 4)}\nend"
            if c.raises:
                tn = self.ctx.fresh()
                return f"do {tn} <- {rp(c.code)};\nif {tn} then\n{ind(a)}\nelse\n{ind(b)}"
            return f"if {c.code} then\n{ind(a)}\nelse\n{ind(b)}"

        def branches(k):
            a = self.block(st.body, env_then(), k)
            b = self.block(st.orelse, env_else(), k) if st.orelse else k(env_else())
            return a, b
        if bt or et or self.has_jump(st.body) or self.has_jump(st.orelse):
            # a branch leaves the method / the iteration (or nothing follows): what follows the `if` continues each branch
            a, b = branches(cont)
            return render(a, b)
        # join: both branches fall through; what they assign is handed on as a tuple
        ends = []

        def probe(e):
            ends.append(e)
            return "Val tt"
        n0 = self.ctx.n
        nrets = len(self.ctx.rets)
        branches(probe)
        self.ctx.n = n0
        del self.ctx.rets[nrets:]
        names = []
        for nm in sorted(self.assigned_names(st.body + st.orelse)):
            if all(nm in e and not nm.startswith("@") for e in ends) and len({e[nm].kind for e in ends}) == 1 \
                    and ends[0][nm].kind in GTYPE:
                if narrow and nm == narrow[0]:
                    self.fail(st, f"`{nm}` assigned in a branch of its own None test")
                names.append(nm)
        env2 = dict(env)
        for nm in names:
            statics = {e[nm].static for e in ends}
            env2[nm] = E(ends[0][nm].kind, ident(nm), False, statics.pop() if len(statics) == 1 else None)
        assigned = ends[0]["@assigned"]
        for e in ends[1:]:
            assigned = assigned & e["@assigned"]
        env2["@assigned"] = assigned
        tup = ", ".join(ident(nm) for nm in names)
        if len(names) > 1:
            tup = f"({tup})"

        def k_join(e):
            return f"Val {tup}" if names else "Val tt"
        a, b = branches(k_join)
        code = render(a, b)
        after = cont(env2)
        if names and after.strip() == f"Val {tup}":
            return code                     # do x <- E; Val x  is E
        if not names:
            return f"do _ <- ({code});\n{after}"
        if len(names) == 1:
            return f"do {tup} <- ({code});\n{after}"
        return f"do st' <- ({code});\nlet '{tup} := st' in\n{after}"

    def assigned_names(self, stmts):
        out = []

        def add(n):
            if n not in out:
                out.append(n)
        for st in stmts:
            for n in ast.walk(st):
                if isinstance(n, (ast.Assign, ast.AnnAssign, ast.AugAssign)):
                    tg = n.targets if isinstance(n, ast.Assign) else [n.target]
                    for t in tg:
                        if isinstance(t, ast.Name):
                            add(t.id)
                        elif isinstance(t, (ast.Subscript, ast.Attribute)) and isinstance(t.value, ast.Name):
                            add(t.value.id)
                        else:
                            self.fail(n, "assignment target")
                elif isinstance(n, (ast.For,)) and isinstance(n.target, ast.Name):
                    add(n.target.id)
        return out

    def loop_state(self, st, env, extra_local=()):
        # (in alphabetical order: the shape of the loop state does not depend on the order of the statements)
        names = sorted(n for n in self.assigned_names(st.body) if n in env and n not in extra_local)
        if st.orelse:
            self.fail(st, "else clause of a loop")
        if not names:
            self.fail(st, "loop whose body assigns no variable defined before it")
        for n in names:
            if env[n].kind not in GTYPE:
                self.fail(st, f"loop variable {n} of kind {env[n].kind}")
        tup = ", ".join(ident(n) for n in names)
        ty = " * ".join(paren(GTYPE[env[n].kind]) for n in names)
        if len(names) > 1:
            tup = f"({tup})"
        return names, tup, ty

    def loop_body(self, st, env, names, tup):
        def yield_k(e):
            for n in names:
                if e[n].kind != env[n].kind:
                    self.fail(st, f"`{n}` changes its kind inside the loop")
                if env[n].static == "fresh" and e[n].static != "fresh":
                    self.fail(st, f"the list `{n}` is handed on inside the loop that changes it in place")
            if e["@assigned"] != env["@assigned"]:
                self.fail(st, "attribute of self assigned inside a loop")
            return f"Val {tup}"
        saved = self.ctx.loop_k
        self.ctx.loop_k = yield_k
        try:
            benv = dict(env)
            for n in names:
                benv[n] = E(env[n].kind, ident(n), False, "fresh" if env[n].static == "fresh" else None)
            return benv, yield_k
        finally:
            pass

    def for_stmt(self, st, env, cont) -> str:
        if not isinstance(st.target, ast.Name):
            self.fail(st, "for with a target that is not a name")
        it = st.iter
        if isinstance(it, ast.Call) and isinstance(it.func, ast.Name) and it.func.id == "range" and len(it.args) == 2 and not it.keywords:
            a, b = self.expr(it.args[0], env), self.expr(it.args[1], env)
            if a.kind != "Z" or b.kind != "Z" or a.raises or b.raises:
                self.fail(it, "range(a, b) with bounds that are not plain ints")
            lst, ek = f"(py_range {paren(a.code)} {paren(b.code)})", "Z"
        else:
            e = self.expr(it, env)
            if e.kind != "TUP" or e.raises:
                self.fail(it, "for over something else than range(a, b) or SI.SIUNITS")
            lst, ek = paren(e.code), "S"
        x = st.target.id
        names, tup, ty = self.loop_state(st, env, extra_local=(x,))
        saved = self.ctx.loop_k
        benv, yk = self.loop_body(st, env, names, tup)
        benv[x] = E(ek, ident(x))
        try:
            body = self.block(st.body, benv, yk)
        finally:
            self.ctx.loop_k = saved
        env2 = dict(env)
        for n in names:
            env2[n] = E(env[n].kind, ident(n), False, "fresh" if env[n].static == "fresh" else None)
        pat = f"let '{tup} := st' in\n" if len(names) > 1 else ""
        stn = "st'" if len(names) > 1 else tup
        return (f"do {stn} <- py_for {lst} (fun ({ident(x)} : {GTYPE[ek]}) ({stn} : {ty}) =>\n{ind(pat + body, 4)}) {tup};\n"
                f"{pat}{cont(env2)}")

    def counter_while(self, st, env):
        """`while i < b: body; i += 1` where body neither assigns i nor contains continue / break, and i holds an int
        known at this point: the loop `for i in range(<i now>, b)` followed by i = max(<i now>, b)"""
        t = st.test
        if not (isinstance(t, ast.Compare) and len(t.ops) == 1 and isinstance(t.ops[0], ast.Lt) and isinstance(t.left, ast.Name)
                and st.body and not st.orelse):
            return None
        i = t.left.id
        last = st.body[-1]
        if not (isinstance(last, ast.AugAssign) and isinstance(last.op, ast.Add) and isinstance(last.target, ast.Name)
                and last.target.id == i and isinstance(last.value, ast.Constant) and last.value.value == 1 and type(last.value.value) is int):
            return None
        body = st.body[:-1]
        if i in self.assigned_names(body) or self.has_jump(body) or not body:
            return None
        if any(isinstance(n, ast.Name) and n.id == i for n in ast.walk(t.comparators[0])):
            return None
        if set(self.assigned_names(body)) & {n.id for n in ast.walk(t.comparators[0]) if isinstance(n, ast.Name)}:
            return None                    # the bound must not change inside the loop
        o = env.get(i)
        if o is None or o.kind != "Z":
            return None
        return i, body, t.comparators[0]

    def while_stmt(self, st, env, cont) -> str:
        cw = self.counter_while(st, env)
        if cw is not None:
            i, body, bound = cw
            lo = ast.copy_location(ast.Name(id=i, ctx=ast.Load()), st)
            loop = ast.copy_location(ast.For(target=ast.copy_location(ast.Name(id=i, ctx=ast.Store()), st),
                                             iter=ast.copy_location(ast.Call(func=ast.copy_location(ast.Name(id="range", ctx=ast.Load()), st),
                                                                             args=[lo, bound], keywords=[]), st),
                                             body=body, orelse=[]), st)
            b = self.expr(bound, env)
            if b.kind != "Z" or b.raises or "range" in env:
                self.fail(st, "while loop over a counter with a bound that is not a plain int")

            def after(e2):
                e3 = dict(e2)
                e3[i] = E("Z", ident(i))
                return f"let {ident(i)} := Z.max {paren(env[i].code)} {paren(b.code)} in\n{cont(e3)}"
            return self.for_stmt(loop, env, after)
        names, tup, ty = self.loop_state(st, env)
        saved = self.ctx.loop_k
        benv, yk = self.loop_body(st, env, names, tup)
        try:
            c = self.truth(self.expr(st.test, benv), st.test)
            if c.kind != "B" or c.raises:
                self.fail(st.test, "while test that is not a plain bool expression")
            body = self.block(st.body, benv, yk)
        finally:
            self.ctx.loop_k = saved
        env2 = dict(env)
        for n in names:
            env2[n] = E(env[n].kind, ident(n), False, "fresh" if env[n].static == "fresh" else None)
        pat = f"let '{tup} := st' in\n" if len(names) > 1 else ""
        stn = "st'" if len(names) > 1 else tup
        return (f"do {stn} <- py_while {WHILE_FUEL} (fun ({stn} : {ty}) =>\n{ind(pat + c.code, 4)})\n"
                f"  (fun ({stn} : {ty}) =>\n{ind(pat + body, 4)}) {tup};\n{pat}{cont(env2)}")

    # ------------------------------------------------------------------ expressions: plumbing
    def lift(self, es, build) -> E:
        """bind the raising sub-expressions (in evaluation order), build the result from pure texts"""
        binds, codes = [], []
        for e in es:
            if e.raises:
                n = self.ctx.fresh()
                binds.append((n, e.code))
                codes.append(n)
            else:
                codes.append(paren(e.code))
        r = build(codes)
        if not binds:
            return r
        inner = r.code if r.raises else f"Val {paren(r.code)}"
        for n, c in reversed(binds):
            inner = f"do {n} <- {rp(c)};\n{inner}"
        return E(r.kind, inner, True, r.static)

    # ------------------------------------------------------------------ expressions
    def expr(self, n, env) -> E:
        if isinstance(n, ast.Constant):
            v = n.value
            if v is True or v is False:
                return E("B", "true" if v else "false")
            if isinstance(v, str):
                try:
                    return E("S", cstr(v))
                except ValueError:
                    self.fail(n, "non-ASCII string literal")
            if isinstance(v, int):
                return E("Z", cz(v))
            self.fail(n, f"literal {v!r}")
        if isinstance(n, ast.Name):
            if n.id in env and not n.id.startswith("@"):
                e = env[n.id]
                if e.kind == "FN":
                    return e
                if e.kind == "L" and e.static == "fresh":
                    # the list object is handed on (stored, passed, returned): from here on it may be shared
                    env[n.id] = E(e.kind, e.code, False, None)
                return E(e.kind, e.code, False, e.static)
            self.fail(n, f"name `{n.id}` (not a parameter or a local assigned on every path)")
        if isinstance(n, ast.IfExp):
            nt = self.none_test(n.test, env)
            if nt is not None:
                name, o, is_none_then = nt
                env_s = dict(env)
                env_s[name] = E("S", ident(name))
                a = self.expr(n.body, env if is_none_then else env_s)
                b = self.expr(n.orelse, env_s if is_none_then else env)
                if a.kind != b.kind or a.kind not in GTYPE:
                    self.fail(n, f"conditional expression with branches of kinds {a.kind}, {b.kind}")
                none_e, some_e = (a, b) if is_none_then else (b, a)
                raises = a.raises or b.raises
                cn = none_e.code if (none_e.raises or not raises) else f"Val {paren(none_e.code)}"
                cs_ = some_e.code if (some_e.raises or not raises) else f"Val {paren(some_e.code)}"
                static = a.static if a.static == b.static and a.static != "fresh" else None
                return E(a.kind, f"match {o.code} with None => {cn} | Some {ident(name)} => {cs_} end", raises, static)
            c, a, b = self.truth(self.expr(n.test, env), n.test), self.expr(n.body, env), self.expr(n.orelse, env)
            if c.kind != "B" or a.kind != b.kind or a.kind not in GTYPE:
                self.fail(n, f"conditional expression with a test of kind {c.kind} and branches of kinds {a.kind}, {b.kind}")
            static = a.static if a.static == b.static and a.static != "fresh" else None
            if not (a.raises or b.raises):
                return self.lift([c], lambda cc: E(a.kind, f"if {cc[0]} then {paren(a.code)} else {paren(b.code)}", False, static))
            ra = a.code if a.raises else f"Val {paren(a.code)}"
            rb = b.code if b.raises else f"Val {paren(b.code)}"
            return self.lift([c], lambda cc: E(a.kind, f"if {cc[0]} then ({ra}) else ({rb})", True, static))
        if isinstance(n, ast.List):
            if n.elts and all(isinstance(x, ast.Constant) and type(x.value) is int for x in n.elts):
                return E("L", "[" + "; ".join(cz(x.value) for x in n.elts) + "]", False, "fresh")
            self.fail(n, "list display other than a list of int literals")
        if isinstance(n, ast.Attribute):
            return self.attribute(n, env)
        if isinstance(n, ast.Call):
            return self.call(n, env)
        if isinstance(n, ast.UnaryOp):
            e = self.expr(n.operand, env)
            if isinstance(n.op, ast.Not):
                if e.kind == "S":
                    return self.lift([e], lambda c: E("B", f'String.eqb {c[0]} ""'))
                if e.kind != "B":
                    self.fail(n, f"not of a value of kind {e.kind}")
                return self.lift([e], lambda c: E("B", f"negb {c[0]}"))
            if isinstance(n.op, ast.USub):
                if e.kind == "F":
                    return self.lift([e], lambda c: E("F", f"fneg N {c[0]}"))
                if e.kind == "Z":
                    if isinstance(n.operand, ast.Constant):
                        return E("Z", cz(-n.operand.value))
                    return self.lift([e], lambda c: E("Z", f"Z.opp {c[0]}"))
            self.fail(n, f"unary operator {type(n.op).__name__} on a value of kind {e.kind}")
        if isinstance(n, ast.BinOp):
            return self.binop(n, env)
        if isinstance(n, ast.BoolOp):
            return self.boolop(n, env)
        if isinstance(n, ast.Compare):
            return self.compare(n, env)
        if isinstance(n, ast.Subscript):
            return self.subscript(n, env)
        self.fail(n, f"expression {type(n).__name__}")

    def class_of(self, e: E, at) -> str:
        """Gallina term of kind `result nat` for the quantity class behind an object / a class value"""
        if e.kind == "CLS":
            return f"Val {paren(e.code)}"
        if e.kind == "PT":
            return f"py_type_cls {paren(e.code)}"
        if e.kind == "V":
            return f"py_type_cls (py_type {paren(e.code)})"
        self.fail(at, f"class attribute of a value of kind {e.kind}")

    def attribute(self, n, env) -> E:
        a, v = n.attr, n.value
        if isinstance(v, ast.Name) and v.id == "SI" and "SI" not in env:
            if a == "SIUNITS":
                return E("TUP", "[" + "; ".join(cstr(x) for x in self.siunits) + "]")
            self.fail(n, f"SI.{a} as a value")
        if isinstance(v, ast.Name) and v.id in ("Quantity", "Dimensionless") and v.id not in env:
            self.fail(n, f"{v.id}.{a} as a value")
        o = self.expr(v, env)
        if a in ("_unit", "_sisig"):
            if o.kind != "V":
                self.fail(n, f"{a} of a value of kind {o.kind}")
            if isinstance(v, ast.Name) and v.id == "self":
                if a not in env["@assigned"]:
                    self.fail(n, f"self.{a} read before it is assigned")
                self.ctx.m.reads.add(a)
            f, k = ("py_attr_unit", "S") if a == "_unit" else ("py_attr_sisig", "L")
            return self.lift([o], lambda c: E(k, f"{f} {c[0]}", True))
        if a in CLASS_ATTRS:
            kind = CLASS_ATTRS[a]
            get = {"_units": "py_cls_units", "_displayunits": "py_cls_displayunits", "_mul": "py_cls_mul", "_div": "py_cls_div",
                   "_sidict": "py_cls_sidict", "_baseunit": "py_cls_baseunit"}[a]
            if o.kind == "CLS":
                return self.lift([o], lambda c: E(kind, f"{get} {c[0]}", True))
            t = self.ctx.fresh("c")
            return self.lift([o], lambda c: E(kind, f"do {t} <- {self.class_of(E(o.kind, c[0]), n)}; {get} {t}", True))
        # a property of the object's class
        if o.kind == "V" and o.static in ("Q", "SI"):
            cls = "Quantity" if o.static == "Q" else "SI"
            m = self.methods.get((cls, a))
            if m is not None and m.deco == "property":
                return self.method_call(cls, a, o, [], n, env, is_self=isinstance(v, ast.Name) and v.id == "self")
        self.fail(n, f"attribute .{a}")

    def coerce(self, e: E, kind: str, at) -> E:
        if e.kind == kind:
            return e
        if e.kind == "F" and kind == "V":
            return self.lift([e], lambda c: E("V", f"GNum {c[0]}"))
        if e.kind == "S" and kind == "OS":
            return self.lift([e], lambda c: E("OS", f"Some {c[0]}"))
        if e.kind == "CLS" and kind == "PT":
            return self.lift([e], lambda c: E("PT", f"TNamed {c[0]}"))
        self.fail(at, f"argument of kind {e.kind} where {kind} is expected")

    def default_arg(self, d, kind, at) -> E:
        if d is None:
            self.fail(at, "missing argument without a default")
        if isinstance(d, ast.Constant):
            if d.value is None and kind == "OS":
                return E("OS", "None")
            if isinstance(d.value, str) and kind == "S":
                return E("S", cstr(d.value))
            if isinstance(d.value, bool) and kind == "B":
                return E("B", "true" if d.value else "false")
        self.fail(at, f"default value {ast.unparse(d)} for a parameter of kind {kind}")

    def arguments(self, m: Method, args, at, env):
        if len(args) > len(m.params):
            self.fail(at, f"too many arguments for {m.cls}.{m.name}")
        out = []
        for i, (pn, pk, pd) in enumerate(m.params):
            if i < len(args):
                out.append(self.coerce(self.expr(args[i], env), pk, at))
            else:
                out.append(self.default_arg(pd, pk, at))
        return out

    def method_call(self, cls, name, recv: E, args, at, env, is_self=False) -> E:
        """recv.name(args) where recv is statically an instance of cls (or, for a classmethod, a class)"""
        if (cls, name) in self.methods and (cls, name) not in INTERFACE and (cls, name) not in EXTERNAL:
            return self.inline_call(self.methods[(cls, name)], recv, args, at, env, is_self)
        m = self.want(cls, name, at)
        self.note_dep(m)
        if is_self:
            missing = [a for a in m.reads if a not in env["@assigned"]]
            if missing:
                self.fail(at, f"self.{name} reads {missing} before __init__ assigned it")
            self.ctx.m.reads |= m.reads
        argv = self.arguments(m, args, at, env)
        if m.uses_math:
            self.ctx.m.uses_math = True
            if m.deco in ("staticmethod", "classmethod"):
                self.fail(at, f"{m.cls}.{m.name} uses the math roundings and is a {m.deco}")
            return self.lift([recv] + argv, lambda c: E(m.ret[0], " ".join([m.gname, "X_"] + c), True, m.ret[1]))
        if m.deco == "staticmethod":
            return self.lift(argv, lambda c: E(m.ret[0], " ".join([m.gname] + c), True, m.ret[1]))
        if m.deco == "classmethod":
            if cls != "Quantity":
                self.fail(at, "classmethod of SI")
            t = self.ctx.fresh("c")
            return self.lift([recv] + argv, lambda c: E(m.ret[0], f"do {t} <- {self.class_of(E(recv.kind, c[0]), at)}; "
                                                        + " ".join([m.gname, t] + c[1:]), True, m.ret[1]))
        if recv.kind != "V":
            self.fail(at, f"method {name} called on a value of kind {recv.kind}")
        return self.lift([recv] + argv, lambda c: E(m.ret[0], " ".join([m.gname] + c), True, m.ret[1]))

    def closed_lambda(self, lam, at):
        a = lam.args
        if a.defaults or a.vararg or a.kwarg or a.kwonlyargs or a.posonlyargs or a.kw_defaults:
            self.fail(at, "lambda with defaults / *args / keyword-only parameters")
        params = [x.arg for x in a.args]
        free = {n.id for n in ast.walk(lam.body) if isinstance(n, ast.Name)} - set(params)
        if free or len(set(params)) != len(params):
            self.fail(at, f"lambda that refers to names of its surroundings ({sorted(free)}): only closed lambdas are passed on")
        if any(isinstance(n, (ast.Lambda, ast.NamedExpr, ast.Yield, ast.YieldFrom, ast.Await)) for n in ast.walk(lam.body)):
            self.fail(at, "lambda whose body contains a lambda / := / yield")
        return params

    def inline_call(self, m: Method, recv, args, at, env, is_self=False) -> E:
        """a call of a private helper (a method of the class that is not part of the translated interface, or a
        module-level function): its body is translated at the call site.  The arguments are evaluated first, in order,
        and bound to fresh names; the parameters are bound to them; `return` inside the helper is the value of the call."""
        key = (m.cls, m.name)
        if key in self.inline_stack:
            self.fail(at, f"recursive helper {m.cls}.{m.name}")
        if len(self.inline_stack) > 8:
            self.fail(at, "helpers nested more than 8 deep")
        node = m.node
        a = node.args
        if a.posonlyargs or a.kwonlyargs or a.vararg or a.kwarg or a.kw_defaults:
            self.fail(at, f"helper {m.cls}.{m.name} takes *args / **kwargs / keyword-only parameters")
        if m.deco not in (None, "staticmethod"):
            self.fail(at, f"helper {m.cls}.{m.name} is a {m.deco}")
        if any(isinstance(n, (ast.Yield, ast.YieldFrom, ast.Await, ast.Global, ast.Nonlocal, ast.FunctionDef, ast.ClassDef,
                              ast.Try, ast.With)) for st in node.body for n in ast.walk(st)):
            self.fail(at, f"helper {m.cls}.{m.name} uses yield / global / try / with / a nested definition")
        names = [x.arg for x in a.args]
        env2 = {"@assigned": frozenset(INSTANCE_ATTRS.get(m.cls, ()))}
        binds = []          # (fresh name, E) in evaluation order
        if m.deco is None:
            if not names or names[0] != "self":
                self.fail(at, f"first parameter of {m.cls}.{m.name} is not `self`")
            names = names[1:]
            if recv is None or recv.kind != "V" or recv.static not in ("Q", "SI"):
                self.fail(at, f"helper {m.cls}.{m.name} called on an object whose class is not known statically")
            t = self.ctx.fresh("a")
            binds.append((t, recv))
            env2["self"] = E("V", t, False, recv.static)
            if is_self:
                env2["@assigned"] = env["@assigned"]
        if len(args) > len(names):
            self.fail(at, f"too many arguments for {m.cls}.{m.name}")
        defaults = [None] * (len(names) - len(a.defaults)) + list(a.defaults)
        for i, (pn, pd) in enumerate(zip(names, defaults)):
            if pn in ("self", "cls") or pn.startswith("@"):
                self.fail(at, f"parameter `{pn}` of helper {m.cls}.{m.name}")
            if i < len(args):
                arg = args[i]
                if isinstance(arg, ast.Lambda):
                    self.closed_lambda(arg, arg)
                    env2[pn] = E("FN", arg)
                    continue
                e = self.expr(arg, env)
                if e.kind == "FN":
                    env2[pn] = e
                    continue
            else:
                if not (isinstance(pd, ast.Constant) and type(pd.value) in (str, bool, int)):
                    self.fail(at, f"helper {m.cls}.{m.name}: parameter `{pn}` left to a default that is not a str / bool / int literal")
                e = self.expr(pd, {})
            if e.kind not in GTYPE or e.kind == "U":
                self.fail(at, f"argument of kind {e.kind} passed to helper {m.cls}.{m.name}")
            t = self.ctx.fresh("a")
            binds.append((t, e))
            env2[pn] = E(e.kind, t, False, e.static if not (e.kind == "L" and e.static == "fresh") else None)
        saved, saved_reads = self.ctx, set(m.reads)
        sub = Ctx(m)
        sub.n, sub.inline, sub.is_init = saved.n, True, False
        self.ctx = sub
        self.inline_stack.append(key)
        try:
            def k_end(e_):
                sub.rets.append(("U", None))
                return "Val tt"
            body = self.block(list(node.body), env2, k_end)
        finally:
            self.inline_stack.pop()
            self.ctx = saved
            saved.n = sub.n
        kinds = {k for k, _s in sub.rets}
        if len(kinds) != 1:
            self.fail(at, f"helper {m.cls}.{m.name} returns values of different kinds {sorted(kinds)}")
        statics = {s_ for _k, s_ in sub.rets}
        kind, static = kinds.pop(), (statics.pop() if len(statics) == 1 else None)
        if is_self and m.cls in INSTANCE_ATTRS:
            self.ctx.m.reads |= m.reads
        for d in m.deps:
            if d not in self.ctx.m.deps:
                self.ctx.m.deps.append(d)
        if m.uses_math:
            self.ctx.m.uses_math = True
        rec = self.source_record(m, f"inlined into {self.ctx.m.gname}")
        if not any(r["what"] == rec["what"] and r["method"] == rec["method"] for r in self.records):
            self.records.append(rec)
        code = body
        for t, e in reversed(binds):
            code = f"do {t} <- {rp(e.code)};\n{code}" if e.raises else f"let {t} := {e.code} in\n{code}"
        return E(kind, code, True, static)

    def apply_lambda(self, lam, argv, at, env) -> E:
        """(lambda x, y: body)(a, b): the body with the parameters bound to the (already evaluated) arguments"""
        params = self.closed_lambda(lam, at)
        if len(params) != len(argv):
            self.fail(at, "lambda applied to a different number of arguments")
        env2 = {"@assigned": env.get("@assigned", frozenset())}
        binds = []
        for pn, e in zip(params, argv):
            if e.kind not in GTYPE or e.kind == "U":
                self.fail(at, f"argument of kind {e.kind} passed to a lambda")
            t = self.ctx.fresh("a")
            binds.append((t, e))
            env2[pn] = E(e.kind, t, False, None)
        r = self.expr(lam.body, env2)
        code = r.code if r.raises else f"Val {paren(r.code)}"
        raises = r.raises or any(e.raises for _t, e in binds)
        if not raises:
            code = r.code
        for t, e in reversed(binds):
            code = f"do {t} <- {rp(e.code)};\n{code}" if e.raises else f"let {t} := {e.code} in\n{code}"
        return E(r.kind, code, raises, r.static)

    def construct(self, target, args, at, env) -> E:
        """<class>(value[, unit]).  target: 'SI' | ('cls', E of kind CLS / PT)"""
        if target == "SI":
            new, init = self.want("SI", "__new__", at), self.want("SI", "__init__", at)
            g = self.want_glue("gen_SI_construct", at)
            argv = self.arguments(init, args, at, env)
            return self.lift(argv, lambda c: E("V", " ".join([g] + c), True, "SI"))
        init = self.want("Quantity", "__init__", at)
        argv = self.arguments(init, args, at, env)
        e = target[1]
        if e.kind == "CLS":
            g = self.want_glue("gen_Quantity_construct", at)
        else:
            g = self.want_glue("py_construct_type", at)
        return self.lift([e] + argv, lambda c: E("V", " ".join([g] + c), True, "Q"))

    def call(self, n, env) -> E:
        f = n.func
        if any(k.arg is not None for k in n.keywords):
            self.fail(n, "keyword argument")
        if n.keywords and not (isinstance(f, ast.Attribute) and f.attr == "__new__"):
            self.fail(n, "**kwargs in a call")
        if any(isinstance(a, ast.Starred) for a in n.args):
            self.fail(n, "*args in a call")
        if isinstance(f, ast.Name) and f.id not in env:
            if f.id in self.module_funcs:
                return self.inline_call(self.module_funcs[f.id], None, n.args, n, env)
            return self.call_name(n, f.id, env)
        if isinstance(f, ast.Lambda):
            return self.apply_lambda(f, [self.expr(x, env) for x in n.args], n, env)
        if isinstance(f, ast.Name):
            e = env[f.id]
            if e.kind == "FN":
                return self.apply_lambda(e.code, [self.expr(x, env) for x in n.args], n, env)
            if e.kind in ("PT", "CLS"):
                return self.construct(("cls", E(e.kind, e.code)), n.args, n, env)
            self.fail(n, f"call of `{f.id}` (kind {e.kind})")
        if isinstance(f, ast.Call) and isinstance(f.func, ast.Name) and f.func.id == "type" and "type" not in env:
            t = self.expr(f, env)
            return self.construct(("cls", t), n.args, n, env)
        if isinstance(f, ast.Attribute):
            return self.call_attr(n, f, env)
        self.fail(n, "call of " + ast.unparse(f))

    def call_name(self, n, name, env) -> E:
        args = n.args

        def one():
            if len(args) != 1:
                self.fail(n, f"{name}() with {len(args)} arguments")
            return self.expr(args[0], env)
        if name == "float":
            e = one()
            if e.kind == "F":
                return e
            if e.kind == "V":
                return self.lift([e], lambda c: E("F", f"py_float {c[0]}", True))
            self.fail(n, f"float() of a value of kind {e.kind}")
        if name == "abs":
            e = one()
            if e.kind == "F":
                return self.lift([e], lambda c: E("F", f"fabs N {c[0]}"))
            self.fail(n, f"abs() of a value of kind {e.kind}")
        if name == "str":
            e = one()
            if e.kind == "F":
                return self.lift([e], lambda c: E("T", f"[PNum {c[0]}]"))
            if e.kind == "Z":
                return self.lift([e], lambda c: E("S", f"py_str_of_int {c[0]}"))
            self.fail(n, f"str() of a value of kind {e.kind}")
        if name == "round":
            e = one()
            if e.kind == "F":
                self.ctx.m.uses_math = True
                return self.lift([e], lambda c: E("F", f"m_round N X_ {c[0]}", True))
            self.fail(n, f"round() of a value of kind {e.kind} (only the one-argument form on a number)")
        if name == "len":
            e = one()
            if e.kind == "S":
                return self.lift([e], lambda c: E("Z", f"py_len {c[0]}"))
            self.fail(n, f"len() of a value of kind {e.kind}")
        if name == "int":
            e = one()
            if e.kind == "S":
                return self.lift([e], lambda c: E("Z", f"py_int_of_str {c[0]}", True))
            self.fail(n, f"int() of a value of kind {e.kind}")
        if name == "type":
            e = one()
            if e.kind == "V":
                return self.lift([e], lambda c: E("PT", f"py_type {c[0]}"))
            if e.kind == "CLS":
                self.fail(n, "type() of a class")
            self.fail(n, f"type() of a value of kind {e.kind}")
        if name == "isinstance" and len(args) == 2 and isinstance(args[1], ast.Tuple) and args[1].elts:
            # isinstance(x, (A, B)) is isinstance(x, A) or isinstance(x, B)
            parts = [self.call_name(ast.copy_location(ast.Call(func=n.func, args=[args[0], c2], keywords=[]), n), name, env)
                     for c2 in args[1].elts]
            if any(p.raises for p in parts[1:]):
                self.fail(n, "isinstance with a tuple on an expression that may raise")
            return E("B", " || ".join(paren(p.code) for p in parts), parts[0].raises) if not parts[0].raises else \
                self.fail(n, "isinstance with a tuple on an expression that may raise")
        if name in ("isinstance", "issubclass"):
            if len(args) != 2 or not isinstance(args[1], ast.Name) or args[1].id in env:
                self.fail(n, f"{name} with a second argument that is not a class name")
            e, c2 = self.expr(args[0], env), args[1].id
            if name == "isinstance" and e.kind == "V" and c2 in ("Quantity", "SI"):
                return self.lift([e], lambda c: E("B", f"py_isinstance_{c2} {c[0]}"))
            if name == "issubclass" and e.kind == "PT" and c2 == "Quantity":
                return self.lift([e], lambda c: E("B", f"py_issubclass_Quantity {c[0]}"))
            self.fail(n, f"{name}(<{e.kind}>, {c2})")
        if name == "list":
            if len(args) == 1 and isinstance(args[0], ast.Call) and isinstance(args[0].func, ast.Name) and args[0].func.id == "map" \
                    and "map" not in env and not args[0].keywords and len(args[0].args) == 3:
                lam, a, b = args[0].args
                if isinstance(lam, ast.Name) and lam.id in env and env[lam.id].kind == "FN":
                    lam = env[lam.id].code
                if isinstance(lam, ast.Lambda) and len(self.closed_lambda(lam, n)) == 2:
                    px, py = [x.arg for x in lam.args.args]
                    if isinstance(lam.body, ast.BinOp) and isinstance(lam.body.op, (ast.Add, ast.Sub)) \
                            and isinstance(lam.body.left, ast.Name) and isinstance(lam.body.right, ast.Name) \
                            and [lam.body.left.id, lam.body.right.id] == [px, py]:
                        op = "Z.add" if isinstance(lam.body.op, ast.Add) else "Z.sub"
                    else:
                        r = self.expr(lam.body, {px: E("Z", ident(px)), py: E("Z", ident(py)), "@assigned": frozenset()})
                        if r.kind != "Z" or r.raises:
                            self.fail(n, "map with a lambda that is not a plain int expression of its two parameters")
                        op = f"(fun {ident(px)} {ident(py)} : Z => {r.code})"
                    ea, eb = self.expr(a, env), self.expr(b, env)
                    if ea.kind == "L" and eb.kind == "L":
                        return self.lift([ea, eb], lambda c: E("L", f"py_map2 {op} {c[0]} {c[1]}", False, "fresh"))
            self.fail(n, "list(...) other than list(map(lambda x, y: x +/- y, a, b)) on two int lists")
        if name == "SI":
            return self.construct("SI", args, n, env)
        if name == "Dimensionless":
            t = self.ctx.fresh("c")
            init = self.want("Quantity", "__init__", n)
            g = self.want_glue("gen_Quantity_construct", n)
            argv = self.arguments(init, args, n, env)
            return self.lift(argv, lambda c: E("V", f"do {t} <- py_global_Dimensionless; " + " ".join([g, t] + c), True, "Q"))
        self.fail(n, f"call of {name}")

    def call_attr(self, n, f, env) -> E:
        a, v, args = f.attr, f.value, n.args
        # super().__new__(cls, x, **kwargs)  ==  float.__new__(cls, x)
        if isinstance(v, ast.Call) and isinstance(v.func, ast.Name) and v.func.id == "super" and "super" not in env:
            m = self.ctx.m
            if v.args or v.keywords or a != "__new__" or m.name != "__new__" or len(args) != 2 \
                    or not (isinstance(args[0], ast.Name) and args[0].id == "cls") \
                    or any(k.arg is not None or not (isinstance(k.value, ast.Name) and k.value.id == m.kwarg) for k in n.keywords):
                self.fail(n, "super() other than super().__new__(cls, x, **kwargs) inside __new__")
            e = self.expr(args[1], env)
            if e.kind == "F":
                return e
            if e.kind == "V":
                return self.lift([e], lambda c: E("F", f"py_float_new {c[0]}", True))
            self.fail(n, f"float.__new__ of a value of kind {e.kind}")
        if isinstance(v, ast.Name) and v.id == "math" and "math" not in env:
            if a in MATH_CALLS and self.math_ok and len(args) == 1 and not n.keywords:
                e = self.expr(args[0], env)
                if e.kind == "F":
                    self.ctx.m.uses_math = True
                    return self.lift([e], lambda c: E("F", f"{MATH_CALLS[a]} N X_ {c[0]}", True))
            self.fail(n, "math call other than math.floor / math.ceil / math.trunc of a number")
        if isinstance(v, ast.Name) and v.id == "re" and "re" not in env:
            if a == "match" and self.re_ok and len(args) == 2 and isinstance(args[0], ast.Constant) and args[0].value == "[0-9]":
                e = self.expr(args[1], env)
                if e.kind == "S":
                    return self.lift([e], lambda c: E("B", f"py_match_digit {c[0]}"))
            self.fail(n, "re call other than re.match('[0-9]', <str>) used as a truth value")
        if isinstance(v, ast.Name) and v.id in ("SI", "Quantity") and v.id not in env:
            m = self.methods.get((v.id, a))
            if m is None or m.deco != "staticmethod":
                self.fail(n, f"{v.id}.{a}(...) is not a call of a static method")
            return self.method_call(v.id, a, None, args, n, env)
        o = self.expr(v, env)
        if o.kind == "DD" and a == "get" and len(args) == 2:
            k, d = self.expr(args[0], env), self.expr(args[1], env)
            if k.kind == "S" and d.kind == "S":
                return self.lift([o, k, d], lambda c: E("GS", f"py_display_get {c[0]} {c[1]} {c[2]}"))
            self.fail(n, "_displayunits.get(k, default) with non-str arguments")
        if o.kind == "S" and a == "startswith" and len(args) == 1:
            t = self.expr(args[0], env)
            if t.kind == "S":
                return self.lift([o, t], lambda c: E("B", f"py_startswith {c[0]} {c[1]}"))
        if o.kind in ("CLS", "PT"):
            m = self.methods.get(("Quantity", a))
            if m is None or m.deco != "classmethod":
                self.fail(n, f"<class>.{a}(...) is not a call of a class method of Quantity")
            return self.method_call("Quantity", a, o, args, n, env)
        if o.kind == "V":
            if o.static in ("Q", "SI"):
                cls = "Quantity" if o.static == "Q" else "SI"
                if (cls, a) not in self.methods:
                    self.fail(n, f"{cls} has no method {a}")
                if self.methods[(cls, a)].deco == "property":
                    self.fail(n, f"call of the property {cls}.{a}")
                return self.method_call(cls, a, o, args, n, env, is_self=isinstance(v, ast.Name) and v.id == "self")
            g, ret, pk = self.want_dyn(a, n)
            if len(args) != len(pk):
                self.fail(n, f"dynamic call of {a} with {len(args)} arguments")
            argv = [self.coerce(self.expr(x, env), k, n) for x, k in zip(args, pk)]
            return self.lift([o] + argv, lambda c: E(ret[0], " ".join([g] + c), True, ret[1]))
        self.fail(n, f"method call .{a}() on a value of kind {o.kind}")

    def binop(self, n, env) -> E:
        a, b = self.expr(n.left, env), self.expr(n.right, env)
        op, k = n.op, (None, None)
        k = (a.kind, b.kind)
        if isinstance(op, (ast.Mult, ast.Div)) and a.kind == "V" and a.static in ("Q", "SI"):
            # the left operand's own method runs (see the header: no reflected method can take precedence)
            cls = "Quantity" if a.static == "Q" else "SI"
            name = "__mul__" if isinstance(op, ast.Mult) else "__truediv__"
            m = self.want(cls, name, n)
            self.note_dep(m)
            if [pk for _n, pk, _d in m.params] != ["V"]:
                self.fail(n, f"{cls}.{name} does not take exactly one object")
            bb = self.coerce(b, "V", n)
            return self.lift([a, bb], lambda c: E(m.ret[0], f"{m.gname} {c[0]} {c[1]}", True, m.ret[1]))
        if isinstance(op, ast.Add):
            if k == ("F", "F"):
                return self.lift([a, b], lambda c: E("F", f"fadd N {c[0]} {c[1]}"))
            if k == ("Z", "Z"):
                return self.lift([a, b], lambda c: E("Z", f"Z.add {c[0]} {c[1]}"))
            if k == ("S", "S"):
                return self.lift([a, b], lambda c: E("S", f"{c[0]} ++ {c[1]}"))
            if k == ("T", "S"):
                return self.lift([a, b], lambda c: E("T", f"({c[0]} ++ [PStr {c[1]}])%list"))
            if k == ("T", "T"):
                return self.lift([a, b], lambda c: E("T", f"({c[0]} ++ {c[1]})%list"))
            if k == ("T", "GS"):
                return self.lift([a, b], lambda c: E("T", f"py_text_add_gstr {c[0]} {c[1]}", True))
        elif isinstance(op, ast.Sub):
            if k == ("F", "F"):
                return self.lift([a, b], lambda c: E("F", f"fsub N {c[0]} {c[1]}"))
            if k == ("Z", "Z"):
                return self.lift([a, b], lambda c: E("Z", f"Z.sub {c[0]} {c[1]}"))
        elif isinstance(op, ast.Mult):
            if k == ("F", "F"):
                return self.lift([a, b], lambda c: E("F", f"fmul N {c[0]} {c[1]}"))
            if k == ("Z", "Z"):
                return self.lift([a, b], lambda c: E("Z", f"Z.mul {c[0]} {c[1]}"))
            if k == ("V", "F"):
                return self.lift([a, b], lambda c: E("F", f"py_val_times {c[0]} {c[1]}", True))
            if k == ("F", "V"):
                return self.lift([a, b], lambda c: E("F", f"py_float_times {c[0]} {c[1]}", True))
        elif isinstance(op, ast.Div):
            if k == ("F", "F"):
                return self.lift([a, b], lambda c: E("F", f"py_truediv {c[0]} {c[1]}", True))
            if k == ("F", "V"):
                return self.lift([a, b], lambda c: E("F", f"py_float_over {c[0]} {c[1]}", True))
        self.fail(n, f"operator {type(op).__name__} on values of kinds {a.kind}, {b.kind}")

    def number_pair(self, n, env):
        """`type(x) == float or type(x) == int` (either order) on one name -> the name"""
        if not (isinstance(n, ast.BoolOp) and isinstance(n.op, ast.Or) and len(n.values) == 2):
            return None
        seen = []
        for v in n.values:
            if not (isinstance(v, ast.Compare) and len(v.ops) == 1 and isinstance(v.ops[0], ast.Eq)
                    and isinstance(v.left, ast.Call) and isinstance(v.left.func, ast.Name) and v.left.func.id == "type"
                    and "type" not in env and len(v.left.args) == 1 and isinstance(v.left.args[0], ast.Name)
                    and isinstance(v.comparators[0], ast.Name) and v.comparators[0].id in ("float", "int")
                    and v.comparators[0].id not in env):
                return None
            seen.append((v.left.args[0].id, v.comparators[0].id))
        if seen[0][0] != seen[1][0] or {seen[0][1], seen[1][1]} != {"float", "int"}:
            return None
        return seen[0][0]

    def number_test(self, n, env):
        """the test `x is a float or an int` in one of its spellings -> (name, negated), else None:
        type(x) == float or type(x) == int;  type(x) != float and type(x) != int;  type(x) [not] in (float, int)"""
        x = self.number_pair(n, env)
        if x is not None:
            return x, False
        if isinstance(n, ast.BoolOp) and isinstance(n.op, ast.And) and len(n.values) == 2 and \
                all(isinstance(v, ast.Compare) and len(v.ops) == 1 and isinstance(v.ops[0], ast.NotEq) for v in n.values):
            flipped = ast.BoolOp(op=ast.Or(), values=[ast.Compare(left=v.left, ops=[ast.Eq()], comparators=v.comparators)
                                                      for v in n.values])
            x = self.number_pair(flipped, env)
            if x is not None:
                return x, True
        if isinstance(n, ast.Compare) and len(n.ops) == 1 and isinstance(n.ops[0], (ast.In, ast.NotIn)) \
                and self.is_type_call(n.left, env) and isinstance(n.left.args[0], ast.Name) \
                and isinstance(n.comparators[0], (ast.Tuple, ast.List, ast.Set)) \
                and all(isinstance(c, ast.Name) and c.id not in env for c in n.comparators[0].elts) \
                and sorted(c.id for c in n.comparators[0].elts) == ["float", "int"]:
            return n.left.args[0].id, isinstance(n.ops[0], ast.NotIn)
        return None

    def boolop(self, n, env) -> E:
        nt = self.number_test(n, env)
        if nt is not None:
            e = self.expr(ast.copy_location(ast.Name(id=nt[0], ctx=ast.Load()), n), env)
            if e.kind != "V":
                self.fail(n, f"type test on a value of kind {e.kind}")
            return E("B", f"negb (py_is_number {paren(e.code)})" if nt[1] else f"py_is_number {paren(e.code)}")
        vs = [self.expr(v, env) for v in n.values]
        if any(v.kind != "B" for v in vs):
            self.fail(n, "and / or of values that are not bools")      # (a str operand would make the VALUE a str)
        is_or = isinstance(n.op, ast.Or)
        if not any(v.raises for v in vs):
            return E("B", (" || " if is_or else " && ").join(paren(v.code) for v in vs))
        # short circuit: a later operand is evaluated (and may raise) only if the earlier ones did not decide
        last = vs[-1]
        code = last.code if last.raises else f"Val {paren(last.code)}"
        for v in reversed(vs[:-1]):
            short = "Val true" if is_or else "Val false"
            if v.raises:
                t = self.ctx.fresh()
                code = f"do {t} <- {rp(v.code)};\nif {t} then {short if is_or else '(' + code + ')'} else {'(' + code + ')' if is_or else short}"
            else:
                code = f"if {v.code} then {short if is_or else '(' + code + ')'} else {'(' + code + ')' if is_or else short}"
        return E("B", code, True)

    def is_type_call(self, n, env):
        return isinstance(n, ast.Call) and isinstance(n.func, ast.Name) and n.func.id == "type" and "type" not in env \
            and len(n.args) == 1 and not n.keywords

    def str_test(self, n, env):
        """normal forms: `len(s) > 0`, `len(s) != 0`, `len(s) >= 1`, `s != ''` are  negb (s =? "");  `len(s) == 0`,
        `len(s) < 1`, `len(s) <= 0`, `s == ''` are  s =? "";  `s[:1] == 'c'` (one character) is  s.startswith('c')"""
        if not (isinstance(n, ast.Compare) and len(n.ops) == 1):
            return None
        op, l, r = n.ops[0], n.left, n.comparators[0]

        def is_len(x):
            return isinstance(x, ast.Call) and isinstance(x.func, ast.Name) and x.func.id == "len" and "len" not in env \
                and len(x.args) == 1 and not x.keywords

        def const(x, v):
            return isinstance(x, ast.Constant) and type(x.value) is type(v) and x.value == v
        flip = {ast.Lt: ast.Gt, ast.Gt: ast.Lt, ast.LtE: ast.GtE, ast.GtE: ast.LtE, ast.Eq: ast.Eq, ast.NotEq: ast.NotEq}
        if type(op) in flip and is_len(r) and not is_len(l):
            op, l, r = flip[type(op)](), r, l
        subj, empty = None, None
        if is_len(l):
            if (isinstance(op, ast.Gt) and const(r, 0)) or (isinstance(op, ast.NotEq) and const(r, 0)) or \
                    (isinstance(op, ast.GtE) and const(r, 1)):
                subj, empty = l.args[0], False
            elif (isinstance(op, ast.Eq) and const(r, 0)) or (isinstance(op, ast.Lt) and const(r, 1)) or \
                    (isinstance(op, ast.LtE) and const(r, 0)):
                subj, empty = l.args[0], True
        elif isinstance(op, (ast.Eq, ast.NotEq)) and (const(r, "") or const(l, "")):
            subj, empty = (l if const(r, "") else r), isinstance(op, ast.Eq)
        if subj is not None:
            e = self.expr(subj, env)
            if e.kind != "S":
                return None
            return self.lift([e], lambda c: E("B", f'String.eqb {c[0]} ""' if empty else f'negb (String.eqb {c[0]} "")'))
        # s[:1] == 'c'
        if isinstance(op, (ast.Eq, ast.NotEq)):
            for a, b in ((l, r), (r, l)):
                if isinstance(a, ast.Subscript) and isinstance(a.slice, ast.Slice) and a.slice.lower is None and a.slice.step is None \
                        and const(a.slice.upper, 1) and isinstance(b, ast.Constant) and isinstance(b.value, str) and len(b.value) == 1:
                    e = self.expr(a.value, env)
                    if e.kind != "S":
                        return None
                    lit = self.expr(b, env)
                    r_ = self.lift([e], lambda c: E("B", f"py_startswith {c[0]} {lit.code}"))
                    return r_ if isinstance(op, ast.Eq) else self.lift([r_], lambda c: E("B", f"negb {c[0]}"))
        return None

    def truth(self, e: E, at) -> E:
        """the truth value of an expression used as a test: a bool, or a str (true when not empty)"""
        if e.kind == "B":
            return e
        if e.kind == "S":
            return self.lift([e], lambda c: E("B", f'negb (String.eqb {c[0]} "")'))
        self.fail(at, f"test of kind {e.kind} (only bool-valued tests and the emptiness of a str)")

    def compare(self, n, env) -> E:
        if len(n.ops) != 1:
            self.fail(n, "chained comparison")
        nt = self.number_test(n, env)
        if nt is not None:
            return self.boolop(n, env)
        stt = self.str_test(n, env)
        if stt is not None:
            return stt
        op, l, r = n.ops[0], n.left, n.comparators[0]
        neg = isinstance(op, (ast.NotEq, ast.NotIn))

        def wrap(e: E) -> E:
            if not neg:
                return e
            return self.lift([e], lambda c: E("B", f"negb {c[0]}"))
        if isinstance(op, (ast.Eq, ast.NotEq)) and (self.is_type_call(l, env) or self.is_type_call(r, env)):
            if self.is_type_call(l, env) and self.is_type_call(r, env):
                if not any(isinstance(x.args[0], ast.Name) and x.args[0].id == "self" for x in (l, r)):
                    self.fail(n, "type(a) == type(b) without `self` on one side")
                a, b = self.expr(l, env), self.expr(r, env)
                return wrap(self.lift([a, b], lambda c: E("B", f"py_type_eqb {c[0]} {c[1]}")))
            t, other = (l, r) if self.is_type_call(l, env) else (r, l)
            if isinstance(other, ast.Name) and other.id == "SI" and "SI" not in env:
                a = self.expr(t, env)
                return wrap(self.lift([a], lambda c: E("B", f"py_type_eqb {c[0]} TSI")))
            self.fail(n, "type(x) compared with something else than type(y) or SI "
                         "(float / int only as the pair `type(x) == float or type(x) == int`)")
        a, b = self.expr(l, env), self.expr(r, env)
        k = (a.kind, b.kind)
        if isinstance(op, (ast.In, ast.NotIn)):
            if a.kind == "S" and b.kind in ("DU", "DD", "DS"):
                return wrap(self.lift([a, b], lambda c: E("B", f"py_str_in {c[0]} {c[1]}")))
            if a.kind == "PT" and b.kind == "DC":
                return wrap(self.lift([a, b], lambda c: E("B", f"py_type_in {c[0]} {c[1]}")))
            self.fail(n, f"`in` between kinds {a.kind}, {b.kind}")
        if isinstance(op, (ast.Eq, ast.NotEq)):
            f = {("F", "F"): "feqb N", ("S", "S"): "String.eqb", ("Z", "Z"): "Z.eqb", ("L", "L"): "py_list_eqb"}.get(k)
            if f is None:
                self.fail(n, f"== between kinds {a.kind}, {b.kind}")
            return wrap(self.lift([a, b], lambda c: E("B", f"{f} {c[0]} {c[1]}")))
        table = {ast.Lt: ("lt", False), ast.LtE: ("le", False), ast.Gt: ("lt", True), ast.GtE: ("le", True)}
        if type(op) in table and k in (("F", "F"), ("Z", "Z")):
            which, swap = table[type(op)]
            f = {("F", "lt"): "fltb N", ("F", "le"): "fleb N", ("Z", "lt"): "Z.ltb", ("Z", "le"): "Z.leb"}[(a.kind, which)]
            return self.lift([a, b], lambda c: E("B", f"{f} {c[1]} {c[0]}" if swap else f"{f} {c[0]} {c[1]}"))
        self.fail(n, f"comparison {type(op).__name__} between kinds {a.kind}, {b.kind}")

    def subscript(self, n, env) -> E:
        if isinstance(n.value, ast.Name) and n.value.id in env and env[n.value.id].kind == "L":
            o = E("L", env[n.value.id].code)          # reading an item does not hand the list on
        else:
            o = self.expr(n.value, env)
        s = n.slice
        if isinstance(s, ast.Slice):
            if o.kind != "S" or s.step is not None:
                self.fail(n, "slice of something else than a str, or with a step")

            def bound(x):
                if isinstance(x, ast.Constant) and type(x.value) is int and x.value >= 0:
                    return E("Z", str(x.value))          # a nat literal
                if isinstance(x, ast.Call) and isinstance(x.func, ast.Name) and x.func.id == "len" and "len" not in env \
                        and len(x.args) == 1:
                    e = self.expr(x.args[0], env)
                    if e.kind == "S" and not e.raises:
                        return E("Z", f"(String.length {paren(e.code)})")
                self.fail(n, "slice bound other than a non-negative int literal or len(<str>)")
            if s.lower is None and s.upper is not None:
                u = bound(s.upper)
                return self.lift([o], lambda c: E("S", f"py_str_take {u.code} {c[0]}"))
            if s.upper is None and s.lower is not None:
                lo = bound(s.lower)
                return self.lift([o], lambda c: E("S", f"py_str_drop {lo.code} {c[0]}"))
            self.fail(n, "slice other than s[:n] or s[n:]")
        i = self.expr(s, env)
        k = (o.kind, i.kind)
        if k == ("DU", "S"):
            return self.lift([o, i], lambda c: E("F", f"py_units_get {c[0]} {c[1]}", True))
        if k == ("DS", "S"):
            return self.lift([o, i], lambda c: E("Z", f"py_sidict_get {c[0]} {c[1]}", True))
        if k == ("DC", "PT"):
            return self.lift([o, i], lambda c: E("PT", f"py_clsdict_get {c[0]} {c[1]}", True))
        if k == ("L", "Z"):
            return self.lift([o, i], lambda c: E("Z", f"py_index {c[0]} {c[1]}", True))
        if k == ("TUP", "Z"):
            return self.lift([o, i], lambda c: E("S", f"py_index {c[0]} {c[1]}", True))
        self.fail(n, f"subscript of a value of kind {o.kind} with an index of kind {i.kind}")

    # ------------------------------------------------------------------ glue: construction, dispatch by run-time class
    def want_glue(self, name, at) -> str:
        st = self.glue.get(name)
        if st is True:
            self.note_glue(name)
            return name
        if isinstance(st, Unsupported):
            raise st
        if st == "busy":
            self.fail(at, f"recursive use of {name}")
        self.glue[name] = "busy"
        saved = self.ctx
        try:
            if name == "gen_Quantity_construct":
                new, init = self.want("Quantity", "__new__", at), self.want("Quantity", "__init__", at)
                if new.ret[0] != "F" or [k for _n, k, _d in new.params] != [k for _n, k, _d in init.params]:
                    self.fail(new.node, "Quantity.__new__ / __init__ do not take the same arguments")
                ps = "".join(f" ({ident(n)} : {GTYPE[k]})" for n, k, _d in init.params)
                av = " ".join(ident(n) for n, _k, _d in init.params)
                text = (f"(* cls(value, unit): __new__, then __init__ on the new object (its _unit not assigned yet) *)\n"
                        f"Definition {name} (cls_ : nat){ps} : result gval :=\n  {USES}\n"
                        f"  do f_ <- {new.gname} cls_ {av};\n  {init.gname} (GNamed cls_ f_ \"\") {av}.")
            elif name == "gen_SI_construct":
                new, init = self.want("SI", "__new__", at), self.want("SI", "__init__", at)
                if new.ret[0] != "F" or [k for _n, k, _d in new.params] != [k for _n, k, _d in init.params]:
                    self.fail(new.node, "SI.__new__ / __init__ do not take the same arguments")
                ps = "".join(f" ({ident(n)} : {GTYPE[k]})" for n, k, _d in init.params)
                av = " ".join(ident(n) for n, _k, _d in init.params)
                text = (f"(* SI(value, unit): __new__, then __init__ on the new object (_sisig, _unit not assigned yet) *)\n"
                        f"Definition {name}{ps} : result gval :=\n  {USES}\n"
                        f"  do f_ <- {new.gname} {av};\n  {init.gname} (GSI f_ [] \"\") {av}.")
            elif name == "py_construct_type":
                g = self.want_glue("gen_Quantity_construct", at)
                init = self.want("Quantity", "__init__", at)
                ps = "".join(f" ({ident(n)} : {GTYPE[k]})" for n, k, _d in init.params)
                av = " ".join(ident(n) for n, _k, _d in init.params)
                text = (f"(* <class value>(value, unit): only quantity classes are constructed this way *)\n"
                        f"Definition {name} (t_ : pytype){ps} : result gval :=\n  {USES}\n"
                        f"  match t_ with TNamed c_ => {g} c_ {av} | _ => Raise Unmodelled end.")
            elif name == "dyn_str_effect":
                q, s = self.want("Quantity", "__str__", at), self.want("SI", "__str__", at)
                text = (f"(* str(x) for its effect: the __str__ of the object's class runs; str of a number or a str is total *)\n"
                        f"Definition {name} (o_ : gval) : result unit :=\n  {USES}\n  match o_ with\n"
                        f"  | GNamed _ _ _ => do _ <- {q.gname} o_; Val tt\n  | GSI _ _ _ => do _ <- {s.gname} o_; Val tt\n"
                        f"  | _ => Val tt\n  end.")
            else:
                self.fail(at, f"internal: unknown glue {name}")
            self.defs.append((name, text))
            self.glue[name] = True
            self.note_glue(name)
            return name
        except Unsupported as exc:
            self.glue[name] = exc
            raise
        finally:
            self.ctx = saved

    def note_glue(self, name):
        if self.ctx is not None and name not in self.ctx.m.deps:
            self.ctx.m.deps.append(name)

    def want_dyn(self, meth, at):
        """x.meth(..) on an object whose class is only known at run time"""
        name = f"dyn_{meth}"
        st = self.glue.get(name)
        if isinstance(st, tuple):
            self.note_glue(name)
            return st
        if isinstance(st, Unsupported):
            raise st
        if st == "busy":
            self.fail(at, f"recursive use of {name}")
        self.glue[name] = "busy"
        saved = self.ctx
        try:
            arms, rets, pks = [], [], []
            for cls, pat in (("Quantity", "GNamed c_ _ _"), ("SI", "GSI _ _ _")):
                m0 = self.methods.get((cls, meth))
                if m0 is None:
                    arms.append(f"  | {pat} => Raise AttributeError")
                    continue
                if m0.deco in ("property", "staticmethod"):
                    self.fail(at, f"dynamic call of {cls}.{meth}, which is a {m0.deco}")
                m = self.want(cls, meth, at)
                if m.uses_math:
                    self.fail(at, f"dynamic call of {cls}.{meth}, which uses the math roundings")
                rets.append(m.ret)
                pks.append([k for _n, k, _d in m.params])
                av = "".join(f" a{i}_" for i in range(len(m.params)))
                arms.append(f"  | {pat} => {m.gname} {'c_' if m.deco == 'classmethod' else 'o_'}{av}")
            if not rets:
                self.fail(at, f"neither Quantity nor SI has a method {meth}")
            if any(p != pks[0] for p in pks) or any(r[0] != rets[0][0] for r in rets):
                self.fail(at, f"Quantity.{meth} and SI.{meth} differ in their parameters / kind of result")
            ret = (rets[0][0], rets[0][1] if all(r[1] == rets[0][1] for r in rets) and len(rets) == 2 else None)
            if meth in FLOAT_BUILTIN_METHODS and not pks[0] and ret[0] == "V":
                arms.append(f"  | GNum x_ => Val ({FLOAT_BUILTIN_METHODS[meth].format(x='x_')})")
                ret = (ret[0], None)
            else:
                arms.append("  | GNum _ => Raise AttributeError")
            arms.append("  | GStrObj => Raise AttributeError")
            ps = "".join(f" (a{i}_ : {GTYPE[k]})" for i, k in enumerate(pks[0]))
            text = (f"(* x.{meth}(..) by the class of x at run time (a float has {'' if meth in FLOAT_BUILTIN_METHODS else 'no '}"
                    f"such method, a str has none) *)\n"
                    f"Definition {name} (o_ : gval){ps} : result {paren(GTYPE[ret[0]])} :=\n  {USES}\n  match o_ with\n" + "\n".join(arms) + "\n  end.")
            self.defs.append((name, text))
            self.glue[name] = (name, ret, pks[0])
            self.note_glue(name)
            return self.glue[name]
        except Unsupported as exc:
            self.glue[name] = exc
            raise
        finally:
            self.ctx = saved


# ---------------------------------------------------------------------- driver
def read_source(path: Path):
    raw = path.read_bytes()
    text = raw.decode("utf-8", errors="replace").replace("\r\n", "\n").replace("\r", "\n")
    return text, hashlib.sha1(text.encode("utf-8")).hexdigest()


HEADER = """(* GENERATED by translator/py2gallina_units.py from {src}
   (sha1 of the text {sha}).  Do not edit: the file is rewritten on every run.
   Shallow embedding of the method bodies of the classes Quantity and SI; coq/Units/GenAgree.v
   proves each definition equal to the hand-written function of Units/Dispatch.v / SIString.v. *)
From Coq Require Import ZArith List Bool String Ascii DecimalString.
From PV Require Import Units.Tables Units.SIString Units.Dispatch.
Import ListNotations.
Local Open Scope string_scope.
"""


def main(argv):
    out_dir, keep_going, i = None, False, 0
    while i < len(argv):
        if argv[i] == "--out" and i + 1 < len(argv):
            out_dir = Path(argv[i + 1])
            i += 2
        elif argv[i] == "--keep-going":
            keep_going = True
            i += 1
        else:
            print(f"usage: {sys.argv[0]} [--out DIR [--keep-going]]", file=sys.stderr)
            return 64
    keep_going = keep_going and out_dir is not None

    def report(info):
        if out_dir is not None:
            out_dir.mkdir(parents=True, exist_ok=True)
            (out_dir / "Gen_Methods.json").write_text(json.dumps(info, indent=1) + "\n")

    base = {"repo": str(REPO), "source": str(SRC)}
    hand_static = [f"{c}.{m}" for (c, m) in EXTERNAL]

    def whole_failure(line, what, msg):
        print(f"py2gallina_units: TRANSLATION FAILED\n{msg}", file=sys.stderr)
        report({**base, "ok": False, "methods": [], "definitions": [],
                "hand_transcribed_only": [f"{c}.{m}" for c, m in METHODS],
                "failures": [{"class": None, "method": None, "file": str(SRC), "line": line, "construct": what, "error": msg}]})
        return 2
    try:
        text, sha = read_source(SRC)
    except OSError as exc:
        return whole_failure(0, "unreadable source", f"{SRC}:0: cannot read: {exc}")
    base["source_sha1"] = sha
    try:
        tr = Translator(text)
    except Unsupported as exc:
        return whole_failure(exc.lineno, exc.what, str(exc))
    except SyntaxError as exc:
        return whole_failure(exc.lineno or 0, "syntax error", f"{SRC}:{exc.lineno}: unsupported construct: syntax error: {exc.msg}")
    failures = []
    for cls, name in METHODS:
        try:
            tr.want(cls, name)
        except Unsupported as exc:
            failures.append({"class": cls, "method": name, "file": str(SRC), "line": exc.lineno, "construct": exc.what,
                             "error": str(exc)})
            if not keep_going:
                return whole_failure(exc.lineno, exc.what, str(exc))
    gen = HEADER.format(src=SRC, sha=sha) + PRELUDE + "\n" + "\n\n".join(t for _n, t in tr.defs) + "\n" + EPILOGUE
    target = (out_dir or (VERIF / "coq" / "Units")) / "Gen_Methods.v"
    target.parent.mkdir(parents=True, exist_ok=True)
    if not target.exists() or target.read_text() != gen:
        target.write_text(gen)
    h = hashlib.sha1()
    for r in sorted(tr.records, key=lambda r: (r["lines"][0], r["what"])):
        h.update((r["what"] + ":" + r["sha1"] + "\n").encode())
    failed = {f"{f['class']}.{f['method']}" for f in failures}
    info = {**base, "ok": not failures, "translated_text_sha1": h.hexdigest(),
            "generated_sha1": hashlib.sha1(gen.encode()).hexdigest(), "definitions": [n for n, _t in tr.defs],
            "methods": tr.records, "failures": failures,
            "hand_transcribed_only": sorted(failed) + [x for x in hand_static if x not in failed]}
    report(info)
    for f in failures:
        print(f"py2gallina_units: TRANSLATION FAILED ({f['class']}.{f['method']} left out)\n{f['error']}", file=sys.stderr)
    print(f"py2gallina_units: {len(tr.defs)} definitions ({len(tr.records)} methods) from {SRC} -> {target} "
          f"(translated text sha1 {info['translated_text_sha1'][:12]})")
    return 2 if failures else 0


if __name__ == "__main__":
    sys.exit(main(sys.argv[1:]))
