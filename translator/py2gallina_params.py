#!/usr/bin/env python3
"""py2gallina_params.py -- regenerate the Gallina text of the input-parameter model from the source.

Reads  $VERIF_REPO/src/pydsol/core/parameters.py  and  .../model.py  (default /repo) with Python's
`ast` module -- the modules under test are never imported -- and translates the bodies of the
methods the hand-written model coq/Params/Model.v transcribes (see METHODS) into Gallina
definitions  gen_<Class>_<method>  over the model's own types (`pyval`, `num`, `param`, `exn`,
`res`).  coq/Params/GenAgree.v then proves every generated definition equal to the hand-written
function.

The translation is a shallow embedding and FAIL-CLOSED: every construct that is not in the subset
below ends the run with exit status 2 and `file:line: unsupported construct: ...`.  Nothing is
skipped or guessed.  (With --keep-going the method concerned -- and every method that needs it --
is left out and named in Gen_Params.json; the exit status is non-zero all the same.)

Supported subset (anything else fails)
  statements   docstring; `pass`; `if / elif / else`; `raise Exc(<message>)` with Exc one of EXN;
               `return`, `return e`; `self._x = e`, `name = e`, `<child>._parent = self`,
               `self._value[k] = v`; the call statements `super().__init__(..)`,
               `parent.add(self)`, `<map>.add(p)`, `<map>.get(k).set_value(v)`
  expressions  str / int / bool / None literals, `{}`; names of parameters and locals; `self._x`;
               `self.<property>` and `<parameter object>.<property>` (inlined: the property must
               be `return self._y`); `value.si`; `quantity._units`; `isinstance`, `issubclass`;
               comparisons (also chained) `<= < >= > == != is is-not in not-in`, `and`, `or`, `not`;
               `len(s)`, `float(p)`, `type(v)`, `list(d.keys())`,
               `all([isinstance(x, str) for x in options])`; `s.split('.')`, `parts[<int>]`,
               `s.find('.')`, `s[<find> + 1:]`, `a + b` on str; `d[k]`, `d.keys()`, `d.pop(k)`,
               `{k: v for k, v in sorted(d.items(), key=lambda item: item[1])}`;
               the method calls `<map>.get(k)`, `<map>.remove(k)`, `<parent>.extended_key()`
               additionally: `a if c else b`; tuples in `return` and `a, b = <tuple>`; `dict(sorted(d.items(),
               key=lambda item: item[1]))`; `< <= > >= == !=` on ints (`s.find('.') >= 0`); messages built with `%`,
               `.format`, `str()`, adjacent literals
  helpers      a call of a PRIVATE HELPER -- a module-level function `f(..)`, a method `self.m(..)` that is not one
               of the translated interface methods, a static method `self.m(..)` / `Cls.m(..)` -- is translated by
               inlining the callee's body at the call site: arguments are evaluated first, in the order written, and
               bound to the callee's parameters; `return e` inside the helper becomes the value of the call and the
               text after the call continues there (an early return needs no `else`); a raise inside the helper
               carries the object state as it is at that point of the CALLER (so a validation helper called after
               the registration is seen to run after it); a helper called inside an expression may not change the
               object.  Refused with file:line: recursion, *args / **kwargs, non-literal defaults, decorators other
               than staticmethod, loops / try / with / nested defs in the body, a subclass overriding the helper,
               `self` inside a function or static method.
  shapes       control flow is translated in continuation-passing style, so guard clauses with early returns, nested
               if / else, `elif`, `not (a or b)` / `not a and not b`, conditional expressions and locals holding a
               sub-expression all yield the same or a provably equal text; coq/Params/GenAgree.v proves the
               equalities by case analysis on the tests, not on the shape of the text.
Meaning given to them (the trusted part; the fixed PRELUDE spells it out in Gallina)
  * a method that can raise yields `res T` (`Val x | Raise kind`); a method that changes its object
    yields `mres S A` (`MOk state result | MExn kind state`): the state AT THE RAISE is part of the
    answer, so "register first, validate later" and "validate first" translate differently;
    assignments to `self._x` become let-bound new versions in program order (SSA);
  * Python values range over the model's universe `pyval`; `isinstance` is decided on it by
    `py_isinstance` (bool is an int; Quantity and SI are floats; SI is not a Quantity); a constructor
    argument ranges over its own small universe (`keyarg`, `numarg`, ...: a well-typed value or
    "something else") and may be used as a value only where an isinstance guard established its type;
  * `a <= b` between values is `py_le` : TypeError unless both are plain numbers (int, bool, float --
    a Quantity or SI refuses to be compared with a number), False as soon as a NaN is involved,
    exact otherwise; a chained comparison evaluates left to right and stops at the first False;
  * a parameter object is a node `param` of the tree; its parent is its position (the `_parent`
    attribute is not stored: `add` must set it, which is checked); a dict of parameters is the
    list of children in insertion order; `sorted` is the stable insertion sort by `__lt__`;
  * a reference obtained from `d[k]` / `<map>.get(k)` is an access path: changing the object
    through it changes the tree at that place (`replace_child`); a method that returns such a
    reference yields, besides the lookup, the update-through-the-reference `gen_.._get__upd`;
  * a recursive method becomes a Fixpoint on explicit fuel (`Raise OtherError` when it runs out);
    call sites give `S (length key)` resp. `S (length ancestors)`;
  * during construction `self` is the record `pobj` of the attributes assigned so far (a
    class-specific attribute not yet assigned shows as NaN / [] / class 0); `parent.add(self)` stores
    the reference, so assignments made afterwards are visible in the parent (`py_reregister`);
  * the message of an exception is not evaluated (formatting is trusted not to raise).

Trusted (joins the trusted base of C18): this file -- the subset semantics above -- and the tables
SCHEMA / PARAM_UNIVERSE saying which attribute is which field of the model's `param`.

usage: py2gallina_params.py [--out DIR [--keep-going]]
       default DIR: <verif>/coq/Params, file Gen_Params.v; with --out also Gen_Params.json.
"""
from __future__ import annotations

import ast
import hashlib
import json
import os
import re
import sys
import warnings
from pathlib import Path

VERIF = Path(__file__).resolve().parent.parent
REPO = Path(os.environ.get("VERIF_REPO", "/repo"))
CORE = REPO / "src" / "pydsol" / "core"
FILES = {"parameters": CORE / "parameters.py", "model": CORE / "model.py"}

EXN = ("TypeError", "ValueError", "KeyError", "NotImplementedError", "AttributeError")

LEAF = ["InputParameterInt", "InputParameterFloat", "InputParameterStr", "InputParameterBool",
        "InputParameterQuantity", "InputParameterSelectionList", "InputParameterUnit"]
ALL8 = ["InputParameterMap"] + LEAF

# attribute -> (pobj projection, type) ; the attributes of a parameter object
BASE_FIELDS = [("_key", "o_key", "S"), ("_display_priority", "o_prio", "Q"), ("_read_only", "o_ro", "B"),
               ("_default_value", "o_default", "V"), ("_value", "o_value", "V")]
SPEC_FIELDS = [("_min", "o_min", "Num"), ("_max", "o_max", "Num"), ("_options", "o_opts", "Strs"),
               ("_type", "o_type", "Cls"), ("_children", "o_children", "D")]
UNSET = {"Num": "(NF FNaN)", "Strs": "[]", "Cls": "0%N", "D": "[]"}
IGNORED = ("_name", "_description", "_parent", "_format")
# class -> {source attribute -> pobj attribute}  (what the class calls its own attributes)
ATTR_ALIAS = {"InputParameterQuantity": {"_min_si": "_min", "_max_si": "_max"},
              "InputParameterMap": {"_value": "_children"}}
# class -> the fields of `self` its set_value sees, in the order of the generated binders, and the
# constraint constructor of the model that carries them
LEAF_SELF = {
    "InputParameter": ([("_read_only", "B")], None),
    "InputParameterInt": ([("_read_only", "B"), ("_min", "Num"), ("_max", "Num")], "CInt {_min} {_max}"),
    "InputParameterFloat": ([("_read_only", "B"), ("_min", "Num"), ("_max", "Num")], "CFloat {_min} {_max}"),
    "InputParameterStr": ([("_read_only", "B")], "CStr"),
    "InputParameterBool": ([("_read_only", "B")], "CBool"),
    "InputParameterQuantity": ([("_read_only", "B"), ("_type", "Cls"), ("_min", "Num"), ("_max", "Num")], "CQty {_type} {_min} {_max}"),
    "InputParameterSelectionList": ([("_read_only", "B"), ("_options", "Strs")], "CSel {_options}"),
    "InputParameterUnit": ([("_read_only", "B"), ("_type", "Cls"), ("_options", "Strs")], "CUnit {_type} {_options}"),
}

# the value universe of every parameter, by name
PARAM_UNIVERSE = {"key": "KA", "name": "NA", "default_value": "V", "display_priority": "PA", "parent": "PO",
                  "description": "Ign", "read_only": "BA", "min_value": "NumA", "max_value": "NumA",
                  "min_si": "NumA", "max_si": "NumA", "format_str": "FA", "options": "OA", "quantity": "QC",
                  "value": "V"}
GTYPE = {"V": "pyval", "KA": "keyarg", "NA": "namearg", "PA": "prioarg", "PO": "option param", "BA": "boolarg",
         "NumA": "numarg", "FA": "fmtarg", "OA": "optsarg", "QC": "qclsarg", "S": "string", "P": "param",
         "B": "bool", "Num": "num", "Strs": "list string", "Cls": "N", "Q": "Q", "D": "list param"}
# what the harness passes when it leaves a keyword argument out (checked against the source's defaults)
EXPECTED_DEFAULTS = {"min_value": ("-math.inf", "math.inf"), "max_value": ("math.inf",), "min_si": ("-math.inf",),
                     "max_si": ("math.inf",), "read_only": ("False",), "parent": ("None",), "description": ("None",)}
BUILTINS_USED = ("isinstance", "issubclass", "len", "float", "type", "list", "all", "sorted", "super", "str", "int",
                 "bool", "dict")

# (file, class, method, kind)   kind: set | ctor | add | get | remove | ext | lt | value | mset | mget | madd
METHODS = (
    [("parameters", "InputParameter", "__lt__", "lt")] +
    [("parameters", c, "set_value", "set") for c in ["InputParameter", "InputParameterMap"] + LEAF[:-1]] +
    [("parameters", c, "value", "value") for c in ALL8[:-1]] +
    [("parameters", "InputParameterMap", "add", "add"),
     ("parameters", "InputParameterMap", "get", "get"),
     ("parameters", "InputParameterMap", "remove", "remove"),
     ("parameters", "InputParameter", "extended_key", "ext"),
     ("parameters", "InputParameter", "__init__", "ctor")] +
    [("parameters", c, "__init__", "ctor") for c in ALL8] +
    [("model", "DSOLModel", "set_parameter", "mset"),
     ("model", "DSOLModel", "get_parameter", "mget"),
     ("model", "DSOLModel", "add_parameter", "madd")])

PRELUDE = r"""
(* ---- fixed prelude: Python primitives on the value universe of the model ---- *)
(* a call that changes its object: the new state and the result, or the exception and the state at the raise *)
Inductive mres (S A : Type) := MOk (s : S) (a : A) | MExn (e : exn) (s : S).
Arguments MOk {S A} s a.
Arguments MExn {S A} e s.

(* constructor arguments: a value of the documented type, or something else *)
Inductive keyarg := KStr (s : string) | KBad.
Inductive namearg := NameOk | NameNotStr | NameEmpty.          (* a non-empty str | not a str | "" *)
Inductive prioarg := PrioNum (q : Q) | PrioBad.                (* an int or float | something else *)
Inductive boolarg := BoolOk (b : bool) | BoolBad.
Inductive numarg := NumOk (n : num) | NumBad.
Inductive fmtarg := FmtOk | FmtBad.
Inductive optsarg := OptsOk (l : list string) | OptsNotList | OptsNonStr.   (* a list of str | no list | a list with a non-str *)
Inductive qclsarg := QCls (cls : N) (units : list string).     (* a Quantity subclass with the keys of its _units *)

Definition keyarg_is_str (k : keyarg) : bool := match k with KStr _ => true | KBad => false end.
Definition keyarg_str (k : keyarg) : string := match k with KStr s => s | KBad => EmptyString end.
Definition namearg_is_str (n : namearg) : bool := match n with NameNotStr => false | _ => true end.
Definition namearg_len (n : namearg) : Z := match n with NameOk => 1%Z | _ => 0%Z end.
Definition prioarg_is_num (p : prioarg) : bool := match p with PrioNum _ => true | PrioBad => false end.
Definition prioarg_q (p : prioarg) : Q := match p with PrioNum q => q | PrioBad => 0 end.
Definition boolarg_is_bool (b : boolarg) : bool := match b with BoolOk _ => true | BoolBad => false end.
Definition boolarg_b (b : boolarg) : bool := match b with BoolOk x => x | BoolBad => false end.
Definition numarg_is_num (a : numarg) : bool := match a with NumOk _ => true | NumBad => false end.
Definition numarg_num (a : numarg) : num := match a with NumOk n => n | NumBad => NF FNaN end.
Definition fmtarg_is_str (f : fmtarg) : bool := match f with FmtOk => true | FmtBad => false end.
Definition optsarg_is_list (o : optsarg) : bool := match o with OptsNotList => false | _ => true end.
Definition optsarg_all_str (o : optsarg) : bool := match o with OptsOk _ => true | _ => false end.
Definition optsarg_list (o : optsarg) : list string := match o with OptsOk l => l | _ => [] end.
Definition qclsarg_cls (q : qclsarg) : N := match q with QCls c _ => c end.
Definition qclsarg_units (q : qclsarg) : list string := match q with QCls _ u => u end.

(* isinstance on the value universe: bool is an int; Quantity and SI are floats; SI is not a Quantity *)
Inductive pyclass := K_int | K_float | K_str | K_bool | K_list | K_Quantity.
Definition py_isinstance1 (v : pyval) (k : pyclass) : bool :=
  match k, v with
  | K_int, VInt _ | K_int, VBool _ => true
  | K_float, VFloat _ | K_float, VQty _ _ _ => true
  | K_float, VOther t => N.eqb t 2
  | K_str, VStr _ => true
  | K_bool, VBool _ => true
  | K_list, VOther t => N.eqb t 0
  | K_Quantity, VQty _ _ _ => true
  | _, _ => false
  end.
Definition py_isinstance (v : pyval) (ks : list pyclass) : bool := existsb (py_isinstance1 v) ks.
(* isinstance(v, <a quantity class>) ; type(v) of a Quantity *)
Definition py_isinstance_qcls (v : pyval) (cls : N) : bool := match v with VQty c _ _ => N.eqb c cls | _ => false end.
Definition py_type_qcls (v : pyval) : N := match v with VQty c _ _ => c | _ => 0%N end.
(* v.si *)
Definition py_si (v : pyval) : res pyval := match v with VQty _ si _ => Val (VFloat si) | _ => Raise AttributeError end.

(* comparisons between values: only plain numbers compare (a Quantity / SI refuses a plain number) *)
Definition py_of_num (n : num) : pyval := match n with NI z => VInt z | NF f => VFloat f end.
Definition py_number (v : pyval) : option xr :=
  match v with
  | VInt z => Some (XFin (inject_Z z))
  | VBool b => Some (XFin (if b then 1 else 0))
  | VFloat f => Some (flt_x f)
  | _ => None
  end.
Definition x_ltb (a b : xr) : bool := x_leb a b && negb (x_leb b a).
Definition py_cmp (f : xr -> xr -> bool) (a b : pyval) : res bool :=
  match py_number a, py_number b with Some x, Some y => Val (f x y) | _, _ => Raise TypeError end.
Definition py_le := py_cmp x_leb.
Definition py_lt := py_cmp x_ltb.
Definition py_ge (a b : pyval) := py_cmp x_leb b a.
Definition py_gt (a b : pyval) := py_cmp x_ltb b a.
Definition py_q_lt (a b : Q) : bool := negb (Qle_bool b a).
Definition py_q_le (a b : Q) : bool := Qle_bool a b.

(* membership: in a list of str (the value is known to be a str); in the keys of a dict (hashes the value) *)
Definition py_in_strs (v : pyval) (l : list string) : bool := match v with VStr s => mem_str s l | _ => false end.
Definition py_in_keys (v : pyval) (keys : list string) : res bool :=
  match v with
  | VStr s => Val (mem_str s keys)
  | VQty _ _ _ => Raise TypeError                                  (* __eq__ without __hash__ *)
  | VOther t => if N.eqb t 0 || N.eqb t 2 || N.eqb t 3 then Raise TypeError else Val false   (* list, SI, dict *)
  | _ => Val false
  end.

(* str *)
Fixpoint py_contains_char (c : ascii) (s : string) : bool :=
  match s with EmptyString => false | String a r => Ascii.eqb a c || py_contains_char c r end.
Fixpoint py_split (c : ascii) (s : string) : list string :=
  match s with
  | EmptyString => [EmptyString]
  | String a r =>
      if Ascii.eqb a c then EmptyString :: py_split c r
      else match py_split c r with seg :: rest => String a seg :: rest | [] => [String a EmptyString] end
  end.
Fixpoint py_find_char (c : ascii) (s : string) : Z :=           (* -1 when absent *)
  match s with
  | EmptyString => (-1)%Z
  | String a r => if Ascii.eqb a c then 0%Z else match py_find_char c r with Zneg _ => (-1)%Z | z => (z + 1)%Z end
  end.
Fixpoint py_drop (n : nat) (s : string) : string :=
  match n, s with O, _ => s | S m, String _ r => py_drop m r | S _, EmptyString => EmptyString end.
Definition py_slice_from (z : Z) (s : string) : string := py_drop (Z.to_nat z) s.    (* s[z:] for z >= 0 *)
Definition py_list_get (l : list string) (i : nat) : res string :=
  match nth_error l i with Some x => Val x | None => Raise OtherError end.

(* a dict of parameters = the children in insertion order *)
Definition py_children (p : param) : list param := match p with Map _ ch => ch | Leaf _ _ _ _ _ => [] end.
Definition py_set_children (p : param) (ch : list param) : param := match p with Map h _ => Map h ch | Leaf _ _ _ _ _ => p end.
Definition py_is_map (p : param) : bool := match p with Map _ _ => true | Leaf _ _ _ _ _ => false end.
Definition py_dict_get (k : string) (ch : list param) : res param :=
  match find_child k ch with Some c => Val c | None => Raise KeyError end.
Definition py_dict_set (k : string) (v : param) (ch : list param) : list param :=
  if has_key k ch then replace_child k v ch else ch ++ [v].
(* sorted(.., key = the object): stable insertion sort by __lt__ *)
Fixpoint py_insert_by (lt : param -> param -> bool) (x : param) (l : list param) : list param :=
  match l with [] => [x] | y :: r => if lt y x then y :: py_insert_by lt x r else x :: l end.
Definition py_sorted_by (lt : param -> param -> bool) (l : list param) : list param := fold_right (py_insert_by lt) [] l.

(* an object under construction: the attributes assigned so far *)
Inductive pclass := K_InputParameterMap | K_InputParameterInt | K_InputParameterFloat | K_InputParameterStr
  | K_InputParameterBool | K_InputParameterQuantity | K_InputParameterSelectionList | K_InputParameterUnit.
Record pobj := mkObj { o_reg : bool;                 (* parent.add(self) has stored the reference *)
                       o_key : string; o_prio : Q; o_ro : bool; o_default : pyval; o_value : pyval;
                       o_min : num; o_max : num; o_opts : list string; o_type : N; o_children : list param }.
(* the node of the tree an object of dynamic class k with identity id is *)
Definition obj_param (k : pclass) (id : nat) (o : pobj) : param :=
  let h := mkHdr id (o_key o) (o_prio o) in
  let leaf c := Leaf h (o_ro o) c (o_default o) (o_value o) in
  match k with
  | K_InputParameterMap => Map h (o_children o)
  | K_InputParameterInt => leaf (CInt (o_min o) (o_max o))
  | K_InputParameterFloat => leaf (CFloat (o_min o) (o_max o))
  | K_InputParameterStr => leaf CStr
  | K_InputParameterBool => leaf CBool
  | K_InputParameterQuantity => leaf (CQty (o_type o) (o_min o) (o_max o))
  | K_InputParameterSelectionList => leaf (CSel (o_opts o))
  | K_InputParameterUnit => leaf (CUnit (o_type o) (o_opts o))
  end.
(* the parent holds a reference: what was assigned after parent.add(self) shows there too *)
Definition py_reregister (reg : bool) (par : option param) (p : param) : option param :=
  match reg, par with
  | true, Some (Map h ch) => Some (Map h (replace_child (pkey p) p ch))
  | _, _ => par
  end.
(* a call that changes a child of self in place: the child's new state goes where the child was *)
Definition py_through_child {A : Type} (self : param) (k : string) (ch : list param) (r : mres param A) : mres param A :=
  match r with
  | MOk c a => MOk (py_set_children self (replace_child k c ch)) a
  | MExn e c => MExn e (py_set_children self (replace_child k c ch))
  end.
(* what get_parameter hands out: a value, or the dict of a map *)
Inductive pyres := RV (v : pyval) | RDict (ch : list param).
Definition fuel_of (key : string) : nat := S (String.length key).
"""


class Unsupported(Exception):
    def __init__(self, src, node, what):
        self.lineno = getattr(node, "lineno", 0) or 0
        self.what = what
        self.src = str(src)
        super().__init__(f"{src}:{self.lineno}: unsupported construct: {what}")


class V:
    """a translated value: universe tag + atomic Gallina text (or a constant), facts live in the environment"""
    __slots__ = ("ty", "tx", "const", "prov", "src", "items")

    def __init__(self, ty, tx=None, const=None, prov=None, items=None):
        self.ty, self.tx, self.const, self.prov, self.src, self.items = ty, tx, const, prov, None, items


def ind(text: str, n: int = 2) -> str:
    pad = " " * n
    return "\n".join(pad + l if l else l for l in text.split("\n"))


def par(t: str) -> str:
    s = t.strip()
    if "\n" in s or s.startswith(("let ", "if ", "match ")):
        return "(" + s + ")"
    return s


def fx(v, fact):
    """the keys under which a fact about a value is recorded"""
    return [(v.tx, fact)] + ([("src:" + v.src, fact)] if v.src is not None else [])


def cstr(s: str) -> str:
    return '"' + s.replace('"', '""') + '"%string'


class Env:
    def __init__(self):
        self.fields = {}       # attribute -> V | None (not assigned yet)
        self.locals = {}
        self.facts = frozenset()
        self.refined = {}      # ast.dump(expr) -> V
        self.state = {}        # family-specific: current state variables
        self.dirty = False

    def clone(self):
        e = Env()
        e.fields, e.locals, e.facts = dict(self.fields), dict(self.locals), self.facts
        e.refined, e.state, e.dirty = dict(self.refined), dict(self.state), self.dirty
        return e

    def plus(self, facts):
        if not facts:
            return self
        e = self.clone()
        e.facts = self.facts | frozenset(facts)
        return e

    def has(self, v, fact):
        """a fact established by a guard about this value, or about the (side-effect free) expression it is the value of"""
        if isinstance(v, str):
            return (v, fact) in self.facts
        return (v.tx, fact) in self.facts or (v.src is not None and ("src:" + v.src, fact) in self.facts)

    def forget_expressions(self):
        self.facts = frozenset(f for f in self.facts if not f[0].startswith("src:"))


BASES = {"InputParameter": ["InputParameterInterface"], "InputParameterMap": ["InputParameter"],
         "InputParameterInt": ["InputParameter"], "InputParameterFloat": ["InputParameter"],
         "InputParameterStr": ["InputParameter"], "InputParameterBool": ["InputParameter"],
         "InputParameterQuantity": ["InputParameter"], "InputParameterSelectionList": ["InputParameter"],
         "InputParameterUnit": ["InputParameterSelectionList"], "DSOLModel": ["ModelInterface"]}
IMPORTS = {"parameters": {"Quantity": "pydsol.core.units"},
           "model": {"InputParameterMap": "pydsol.core.parameters", "InputParameter": "pydsol.core.parameters"}}
FORBIDDEN_DUNDER = ("__getattr__", "__getattribute__", "__setattr__", "__delattr__", "__slots__", "__new__",
                    "__init_subclass__", "__class_getitem__", "__set_name__", "__contains__", "__getitem__",
                    "__setitem__", "__hash__", "__bool__", "__len__")


class Module:
    def __init__(self, name: str, path: Path, text: str):
        self.name, self.path = name, path
        with warnings.catch_warnings():
            warnings.simplefilter("ignore")
            self.tree = ast.parse(text)
        self.lines = text.split("\n")
        self.classes = {}
        self.checks()

    def fail(self, node, what):
        raise Unsupported(self.path, node, what)

    def checks(self):
        imported = {}
        for st in self.tree.body:
            names = []
            if isinstance(st, ast.Import):
                for a in st.names:
                    names.append(a.asname or a.name.split(".")[0])
            elif isinstance(st, ast.ImportFrom):
                for a in st.names:
                    if a.name == "*":
                        self.fail(st, "star import (could rebind the names the translation relies on)")
                    names.append(a.asname or a.name)
                    imported[a.asname or a.name] = (st.module, a.name)
            elif isinstance(st, ast.ClassDef):
                names.append(st.name)
                if st.name in self.classes:
                    self.fail(st, f"class {st.name} defined twice")
                self.classes[st.name] = st
            elif isinstance(st, (ast.FunctionDef, ast.AsyncFunctionDef)):
                names.append(st.name)
            elif isinstance(st, (ast.Assign, ast.AnnAssign)):
                for t in (st.targets if isinstance(st, ast.Assign) else [st.target]):
                    if not isinstance(t, ast.Name):
                        self.fail(st, f"module-level assignment to `{ast.unparse(t)[:40]}` (could patch a class)")
                    names.append(t.id)
            elif isinstance(st, ast.Expr) and isinstance(st.value, ast.Constant):
                pass
            else:
                self.fail(st, f"module-level statement {type(st).__name__}")
            for n in names:
                if n in BUILTINS_USED:
                    self.fail(st, f"module rebinds the builtin `{n}`")
                if n in BASES and not isinstance(st, ast.ClassDef) and not (
                        isinstance(st, ast.ImportFrom) and n in IMPORTS.get(self.name, {})):
                    self.fail(st, f"module rebinds the class name `{n}`")
        for n, mod in IMPORTS.get(self.name, {}).items():
            if n in self.classes:
                continue
            if imported.get(n) != (mod, n):
                self.fail(self.tree.body[0] if self.tree.body else self.tree,
                          f"the name `{n}` is not imported from {mod}")
        seen = set()
        for st in self.tree.body:          # a class name may be bound once only
            if isinstance(st, ast.ClassDef):
                if st.name in seen:
                    self.fail(st, f"class {st.name} defined twice")
                seen.add(st.name)

    def class_checks(self, cname):
        c = self.classes.get(cname)
        if c is None:
            raise Unsupported(self.path, self.tree, f"class {cname} not found")
        bases = [ast.unparse(b) for b in c.bases]
        if bases != BASES[cname] or c.keywords:
            self.fail(c, f"class {cname} has bases {bases}, the model assumes {BASES[cname]}")
        if c.decorator_list:
            self.fail(c, f"decorated class {cname}")
        for st in c.body:
            if isinstance(st, ast.FunctionDef):
                if st.name in FORBIDDEN_DUNDER:
                    self.fail(st, f"{cname}.{st.name} (changes what attribute access / membership / hashing mean)")
                continue
            if isinstance(st, ast.Expr) and isinstance(st.value, ast.Constant):
                continue
            if isinstance(st, ast.Pass):
                continue
            self.fail(st, f"statement {type(st).__name__} in the body of class {cname}")
        return c

    def chain(self, cname):
        """the class and its bases inside this module, nearest first"""
        out = []
        while cname in self.classes:
            self.class_checks(cname)
            out.append(cname)
            b = BASES[cname][0]
            cname = b
        return out

    def own_method(self, cname, mname):
        c = self.classes[cname]
        found = [f for f in c.body if isinstance(f, ast.FunctionDef) and f.name == mname]
        if len(found) > 1:
            self.fail(found[1], f"{cname}.{mname} defined twice")
        return found[0] if found else None

    def find_method(self, cname, mname):
        """(owner class, FunctionDef) along the bases, or (None, None)"""
        for c in self.chain(cname):
            f = self.own_method(c, mname)
            if f is not None:
                return c, f
        return None, None


class IgnCond(Exception):
    """the test of an `if` depends on ignored values only"""

    def __init__(self, node=None):
        self.node = node
        super().__init__("test on ignored values")


def within(node, root):
    return node is not None and any(n is node for n in ast.walk(root))


class Ctx:
    def __init__(self, mod, cls, name, fam, node):
        self.mod, self.cls, self.name, self.fam, self.node = mod, cls, name, fam, node
        self.counter = {}
        self.sets_parent = False
        self.fuel = None           # name of the fuel variable available for recursive calls
        self.key = None
        self.frames = []           # helper functions / methods being inlined at this point of the text

    def fresh(self, stem):
        stem = "".join(ch if ch.isalnum() or ch == "_" else "_" for ch in stem).strip("_") or "x"
        self.counter[stem] = self.counter.get(stem, 0) + 1
        return f"{stem}_{self.counter[stem]}"


CMPOPS = {ast.Lt: "<", ast.Gt: ">", ast.LtE: "<=", ast.GtE: ">=", ast.Eq: "==", ast.NotEq: "!=",
          ast.Is: "is", ast.IsNot: "is not", ast.In: "in", ast.NotIn: "not in"}
PYCLS = {"int": "K_int", "float": "K_float", "str": "K_str", "bool": "K_bool", "list": "K_list", "Quantity": "K_Quantity"}


class Translator:
    def __init__(self, mods: dict):
        self.mods = mods
        self.defs = []            # (name, text) in dependency order
        self.sigs = {}            # (file, cls, method, fam) -> signature
        self.failed = {}          # key -> Unsupported
        self.stack = []
        self.ctx = None
        self.translated = []
        self.defaults = []        # (class, parameter, Gallina term)

    # ------------------------------------------------------------------ helpers
    def fail(self, node, what):
        raise Unsupported(self.ctx.mod.path if self.ctx else "?", node, what)

    def body_of(self, f):
        body = list(f.body)
        if body and isinstance(body[0], ast.Expr) and isinstance(body[0].value, ast.Constant) \
                and isinstance(body[0].value.value, str):
            body = body[1:]
        return body

    def scan(self, f):
        for n in ast.walk(f):
            if isinstance(n, (ast.FunctionDef, ast.AsyncFunctionDef, ast.ClassDef)) and n is not f:
                self.fail(n, "nested function / class")
            if isinstance(n, (ast.Yield, ast.YieldFrom, ast.Await, ast.Global, ast.Nonlocal, ast.Try, ast.With,
                              ast.For, ast.While, ast.Delete, ast.Import, ast.ImportFrom, ast.NamedExpr, ast.Starred)):
                self.fail(n, type(n).__name__)

    # ------------------------------------------------------------------ state / raise / return
    def obj_term(self, node, env):
        """the record of the attributes assigned so far (constructor family)"""
        parts = [env.state["reg"]]
        for a, _p, t in BASE_FIELDS:
            v = env.fields.get(a)
            if v is None:
                self.fail(node, f"`self` is used (stored / returned) before self.{a} is assigned")
            parts.append(v.tx)
        for a, _p, t in SPEC_FIELDS:
            v = env.fields.get(a)
            parts.append(UNSET[t] if v is None else v.tx)
        return "(mkObj " + " ".join(parts) + ")"

    def self_param(self, node, env):
        if self.ctx.fam == "ctor":
            return f"(obj_param kls id {self.obj_term(node, env)})"
        if self.ctx.fam in ("add", "remove", "get", "lens", "lt", "ext", "mapset", "mapvalue"):
            return self.map_self(env)
        self.fail(node, "`self` used as a value here")

    def map_self(self, env):
        if not env.dirty:
            return "self"
        return f"(py_set_children self {env.fields['_children'].tx})"

    def state_term(self, node, env):
        fam = self.ctx.fam
        if fam == "set":
            return env.fields["_value"].tx
        if fam in ("add", "remove", "lens", "mapset"):
            return self.map_self(env)
        if fam == "ctor":
            if env.state.get("rereg"):
                return f"(py_reregister {env.state['reg']} {env.state['par']} {self.self_param(node, env)})"
            return env.state["par"]
        if fam in ("mset", "madd"):
            return env.state["root"]
        self.fail(node, f"no object state in a method of kind {fam}")

    def raise_(self, node, env, kind):
        fam = self.ctx.fam
        if fam in ("get", "ext", "mget"):
            return f"Raise {kind}"
        if fam in ("lt", "value", "mapvalue"):
            self.fail(node, "a raise can be reached in a method that is used as a pure function (sort key / property)")
        if fam == "add" and env.state.get("reparented"):
            self.fail(node, "add() can raise after it has set the child's _parent: a refused add would leave the child "
                            "re-parented (its extended key then points into the map that refused it)")
        return f"MExn {kind} {self.state_term(node, env)}"

    def ret(self, node, env, v):
        fam = self.ctx.fam
        if fam in ("get", "ext"):
            if v.ty != ("P" if fam == "get" else "S"):
                self.fail(node, f"return of a value of kind {v.ty}")
            return f"Val {self.atom(v)}"
        if fam == "mget":
            if v.ty != "R":
                self.fail(node, f"return of a value of kind {v.ty}")
            return f"Val {v.tx}"
        if fam == "lt":
            if v.ty != "B":
                self.fail(node, f"return of a value of kind {v.ty} from __lt__")
            return self.atom(v)
        if fam in ("value", "mapvalue"):
            if v.ty != ("D" if fam == "mapvalue" else "V"):
                self.fail(node, f"the value property returns a value of kind {v.ty}")
            return v.tx
        if fam == "remove":
            if v.ty != "P":
                self.fail(node, f"remove returns a value of kind {v.ty}")
            return f"MOk {self.state_term(node, env)} {v.tx}"
        self.fail(node, f"return with a value in a method of kind {fam}")

    def end(self, node, env):
        """falling off the end of the body"""
        fam = self.ctx.fam
        if fam in ("set", "add", "mset", "madd", "mapset"):
            if fam == "add" and not self.ctx.sets_parent:
                self.fail(node, "add() does not set the child's _parent (the model reads a parameter's parent from its "
                                "position in the tree)")
            return f"MOk {self.state_term(node, env)} tt"
        if fam == "ctor":
            return f"MOk {self.state_term(node, env)} {self.obj_term(node, env)}"
        self.fail(node, f"{self.ctx.cls}.{self.ctx.name} can end without `return`")

    def atom(self, v):
        if v.tx is not None:
            return v.tx
        if v.ty == "B":
            return "true" if v.const else "false"
        if v.ty == "S":
            return cstr(v.const)
        if v.ty == "Z":
            return f"{v.const}%Z" if v.const >= 0 else f"({v.const})%Z"
        raise AssertionError(v.ty)

    def bind(self, node, env, call, stem, ty, k, **kw):
        x, e = self.ctx.fresh(stem), self.ctx.fresh("e")
        return (f"match {call} with\n| Raise {e} => {self.raise_(node, env, e)}\n| Val {x} =>\n"
                f"{ind(k(V(ty, x, **kw)))}\nend")

    # ------------------------------------------------------------------ statements
    def block(self, stmts, env, k):
        if not stmts:
            return k(env)
        return self.stmt(stmts[0], env, lambda e2: self.block(stmts[1:], e2, k))

    def stmt(self, s, env, k):
        if isinstance(s, ast.Pass):
            return k(env)
        if isinstance(s, ast.Raise):
            return self.raise_(s, env, self.exc_name(s))
        if isinstance(s, ast.Return):
            return self.return_(s, env)
        if isinstance(s, ast.Assign):
            if len(s.targets) != 1:
                self.fail(s, "multiple assignment targets")
            return self.assign(s, s.targets[0], s.value, env, k)
        if isinstance(s, ast.AnnAssign):
            if s.value is None:
                return k(env)
            return self.assign(s, s.target, s.value, env, k)
        if isinstance(s, ast.If):
            return self.if_(s, env, k)
        if isinstance(s, ast.Expr):
            if isinstance(s.value, ast.Call):
                return self.call_stmt(s, s.value, env, k)
            if isinstance(s.value, ast.Constant):
                return k(env)
            self.fail(s, f"expression statement {type(s.value).__name__}")
        self.fail(s, f"statement {type(s).__name__}")

    def exc_name(self, s):
        e = s.exc
        if s.cause is not None or e is None:
            self.fail(s, "raise without exception / raise ... from")
        if isinstance(e, ast.Call) and isinstance(e.func, ast.Name) and not e.keywords:
            for a in e.args:
                self.message_ok(a)
            nm = e.func.id
        elif isinstance(e, ast.Name):
            nm = e.id
        else:
            self.fail(s, "raise of something else than `Exc(..)`")
        if nm not in EXN:
            self.fail(s, f"raise {nm} (the model knows {', '.join(EXN)})")
        return nm

    def message_ok(self, a):
        """the message of an exception: literals, f-strings and + over names / attributes / constant subscripts"""
        if isinstance(a, ast.Constant) and isinstance(a.value, str):
            return
        if isinstance(a, ast.BinOp) and isinstance(a.op, ast.Add):
            self.message_ok(a.left)
            self.message_ok(a.right)
            return
        if isinstance(a, ast.BinOp) and isinstance(a.op, ast.Mod) and isinstance(a.left, ast.Constant) and isinstance(a.left.value, str):
            items = list(a.right.elts) if isinstance(a.right, ast.Tuple) else [a.right]
            if all(self.plain_ref(x) or isinstance(x, ast.Constant) for x in items):
                return
        if isinstance(a, ast.Call) and isinstance(a.func, ast.Attribute) and a.func.attr == "format" and not a.keywords and \
                isinstance(a.func.value, ast.Constant) and isinstance(a.func.value.value, str) and \
                all(self.plain_ref(x) or isinstance(x, ast.Constant) for x in a.args):
            return
        if isinstance(a, ast.Call) and isinstance(a.func, ast.Name) and a.func.id in ("str", "repr") and len(a.args) == 1 \
                and not a.keywords and self.plain_ref(a.args[0]):
            return
        if isinstance(a, ast.JoinedStr):
            for p in a.values:
                if isinstance(p, ast.Constant):
                    continue
                if isinstance(p, ast.FormattedValue) and p.format_spec is None and p.conversion == -1 and self.plain_ref(p.value):
                    continue
                self.fail(a, "exception message that computes more than names / attributes")
            return
        self.fail(a, "exception argument that is not a message")

    def plain_ref(self, e):
        if isinstance(e, ast.Name):
            return True
        if isinstance(e, ast.Attribute):
            return self.plain_ref(e.value)
        if isinstance(e, ast.Subscript):
            return self.plain_ref(e.value) and isinstance(e.slice, ast.Constant)
        return False

    def if_(self, s, env, k):
        try:
            return self.cond(s.test, env, lambda e1: self.block(s.body, e1, k), lambda e1: self.block(s.orelse, e1, k))
        except IgnCond as exc:
            if not within(exc.node, s.test):
                raise
            for st in list(s.body) + list(s.orelse):
                ok = isinstance(st, (ast.Assign, ast.AnnAssign)) and \
                    all(isinstance(t, ast.Attribute) and isinstance(t.value, ast.Name) and t.value.id == "self"
                        and t.attr in IGNORED and t.attr != "_parent"
                        for t in (st.targets if isinstance(st, ast.Assign) else [st.target])) and \
                    isinstance(st.value, (ast.Constant, ast.Name))
                if not ok:
                    self.fail(st, "a test on an attribute the model does not have guards something else than "
                                  "assignments to such attributes")
            return k(env)

    def return_(self, s, env):
        fam = self.ctx.fam
        if self.ctx.frames:                       # inside an inlined helper: the value of the call
            if s.value is None:
                return self.frame_return(s, env, V("None"))
            return self.expr(s.value, env, lambda v: self.frame_return(s, env, v))
        if s.value is None:
            if fam in ("set", "add", "mset", "madd", "ctor", "mapset"):
                return self.end(s, env)
            self.fail(s, "bare return")
        e = s.value
        if fam == "lens":
            return self.lens_return(s, e, env)
        if fam == "remove":
            # return self._value.pop(key)
            if isinstance(e, ast.Call) and isinstance(e.func, ast.Attribute) and e.func.attr == "pop":
                if len(e.args) != 1 or e.keywords:
                    self.fail(e, "pop() with other than one argument (a default changes its meaning)")
                return self.expr(e.func.value, env, lambda d: self.expr(e.args[0], env, lambda kk: self.pop_(e, d, kk, env)))
            # return <child>.remove(rest)
            if isinstance(e, ast.Call) and isinstance(e.func, ast.Attribute) and e.func.attr == "remove":
                return self.through_child_call(s, e, env, "remove")
        return self.expr(e, env, lambda v: self.ret(s, env, v))

    def pop_(self, node, d, kk, env):
        if d.ty != "D" or d.prov != "self" or kk.ty != "S":
            self.fail(node, "pop() on something else than self's own dict with a str key")
        c = self.ctx.fresh("c")
        e2 = env.clone()
        e2.dirty = True
        ch = self.ctx.fresh("ch")
        e2.fields["_children"] = V("D", ch, prov="self")
        return (f"match find_child {self.atom(kk)} {d.tx} with\n| None => {self.raise_(node, env, 'KeyError')}\n"
                f"| Some {c} =>\n{ind(f'let {ch} := remove_child {self.atom(kk)} {d.tx} in' + chr(10) + self.ret(node, e2, V('P', c)))}\nend")

    def through_child_call(self, node, e, env, meth):
        """return <child of self>.<recursive method>(arg): the child is changed in place"""
        if len(e.args) != 1 or e.keywords:
            self.fail(e, f"{meth}() with other than one positional argument")

        def with_recv(r):
            if r.ty != "P" or not r.prov or r.prov[0] != "child" or not env.has(r, "map"):
                self.fail(e, f"{meth}() on something else than a sub-map stored in self's dict")
            return self.expr(e.args[0], env, lambda a: call(r, a))

        def call(r, a):
            if a.ty != "S":
                self.fail(e, f"{meth}() with a key of kind {a.ty}")
            fam = self.ctx.fam
            if (self.ctx.mod.name, "InputParameterMap", meth if fam != "lens" else "get", fam) not in self.stack:
                self.fail(e, f"call of {meth}() on a child outside {meth}() itself")
            name = "gen_InputParameterMap_" + ("get__upd" if fam == "lens" else meth)
            extra = " f" if fam == "lens" else ""
            if env.dirty:
                self.fail(e, "the dict was changed before the recursive call")
            return (f"py_through_child self {r.prov[1]} {env.fields['_children'].tx} "
                    f"({name} {self.ctx.fuel}{extra} {r.tx} {self.atom(a)})")
        return self.expr(e.func.value, env, with_recv)

    def lens_return(self, s, e, env):
        """`return <reference>` in get(): apply f to the object referred to, in place"""
        if isinstance(e, ast.Call) and isinstance(e.func, ast.Attribute) and e.func.attr == "get":
            return self.through_child_call(s, e, env, "get")

        def fin(r):
            if r.ty != "P" or not r.prov or r.prov[0] != "child":
                self.fail(s, "get() returns something else than an object stored in self's dict (or what a sub-map's get returns)")
            return f"py_through_child self {r.prov[1]} {env.fields['_children'].tx} (f {r.tx})"
        return self.expr(e, env, fin)

    # ------------------------------------------------------------------ private helpers are inlined at the call site
    RESERVED_METHODS = ("get", "remove", "add", "set_value", "extended_key", "__init__", "value")

    def helper_function(self, name):
        """a module-level function of the module being translated (not decorated, defined once)"""
        mod = self.ctx.mod
        found = [st for st in mod.tree.body if isinstance(st, ast.FunctionDef) and st.name == name]
        if len(found) != 1 or found[0].decorator_list:
            return None
        return found[0]

    def helper_method(self, node, name):
        """(FunctionDef, is static) of a helper method called on self, resolved along the bases of the class being
        translated; refused when a class of the module built on the owner defines the name too (dynamic dispatch)"""
        mod = self.ctx.mod
        if name in self.RESERVED_METHODS:
            return None, False
        owner, f = mod.find_method(self.ctx.cls, name)
        if f is None:
            return None, False
        deco = [ast.unparse(d) for d in f.decorator_list]
        if deco not in ([], ["staticmethod"]):
            self.fail(node, f"{owner}.{name} is called as a helper but is decorated with {deco}")
        for c in mod.classes:
            if c != owner and c in BASES and owner in mod.chain(c)[1:] and mod.own_method(c, name) is not None \
                    and c not in mod.chain(self.ctx.cls):
                self.fail(node, f"{c} overrides the helper {owner}.{name} (the call would dispatch on the object's class)")
        return f, deco == ["staticmethod"]

    def inline(self, node, f, call, env, k, selfless, what, owner="(module)"):
        """translate the body of helper f at the call site `call`; k(value, environment after the call)"""
        if any(fr["f"] is f for fr in self.ctx.frames) or f is self.ctx.node:
            self.fail(node, f"recursive helper {f.name} (only the methods of the interface become fixpoints)")
        if len(self.ctx.frames) >= 6:
            self.fail(node, "helpers nested more than 6 deep")
        self.scan(f)
        a = f.args
        if a.vararg or a.kwarg or a.posonlyargs:
            self.fail(f, f"helper {f.name}: *args / **kwargs / positional-only parameters")
        pos = [p.arg for p in a.args]
        skip = 0 if selfless else 1
        if not selfless and (not pos or pos[0] != "self"):
            self.fail(f, f"helper {f.name}: first parameter is not `self`")
        defaults = {}
        for pa, d in list(zip(a.args[len(a.args) - len(a.defaults):], a.defaults)) + \
                [(pa, d) for pa, d in zip(a.kwonlyargs, a.kw_defaults) if d is not None]:
            if not isinstance(d, ast.Constant):
                self.fail(d, f"helper {f.name}: default value of `{pa.arg}` is not a literal")
            defaults[pa.arg] = d
        self.note_source(self.ctx.mod, owner, f.name, f, f"(inlined at its call sites) {what} {f.name}")

        def with_args(args):
            e2 = env.clone()
            e2.locals = {}
            e2.refined = {}

            def bind_defaults(names, i, e3):
                if i == len(names):
                    return run(e3)
                n = names[i]
                if args.get(n) is not None:
                    e3.locals[n] = args[n]
                    return bind_defaults(names, i + 1, e3)
                if n not in defaults:
                    self.fail(call, f"{f.name}() called without a value for `{n}`")
                return self.expr(defaults[n], e3, lambda v: (e3.locals.__setitem__(n, v), bind_defaults(names, i + 1, e3))[1])

            def run(e3):
                frame = {"f": f, "k": k, "caller": env, "selfless": selfless}
                self.ctx.frames.append(frame)
                try:
                    return self.block(self.body_of(f), e3, lambda e4: self.frame_return(f, e4, V("None")))
                finally:
                    assert self.ctx.frames.pop() is frame
            return bind_defaults(pos[skip:] + [p.arg for p in a.kwonlyargs], 0, e2)
        return self.bind_args(call, call, f, env, with_args, skip_self=not selfless)

    def frame_return(self, node, env, v):
        """`return v` (or the end of the body) of the helper being inlined: continue with the caller's text.  The frame
        is off the stack while the caller's continuation is translated."""
        fr = self.ctx.frames.pop()
        try:
            caller = fr["caller"]
            out = env.clone()
            out.locals = dict(caller.locals)
            out.refined = dict(caller.refined)
            same = all((out.fields.get(a) is caller.fields.get(a)) or
                       (out.fields.get(a) is not None and caller.fields.get(a) is not None and
                        out.fields[a].tx == caller.fields[a].tx) for a in set(out.fields) | set(caller.fields)) \
                and out.state == caller.state and out.dirty == caller.dirty
            out.facts = frozenset(f for f in env.facts if not f[0].startswith("src:")) | \
                (frozenset(f for f in caller.facts if f[0].startswith("src:")) if same else frozenset())
            return fr["k"](v, out, same)
        finally:
            self.ctx.frames.append(fr)

    def pure_call(self, node, env, k):
        """continuation for a helper called inside an expression: it may not have changed the object"""
        def done(v, out, same):
            if not same:
                self.fail(node, "a helper called inside an expression changes the object (call it as a statement)")
            return k(v)
        return done

    # ------------------------------------------------------------------ assignments
    def assign(self, node, target, value, env, k):
        fam = self.ctx.fam
        if isinstance(target, ast.Attribute) and isinstance(target.value, ast.Name):
            owner, attr = target.value.id, target.attr
            if owner == "self":
                a = ATTR_ALIAS.get(self.ctx.cls, {}).get(attr, attr)
                if a in IGNORED and not (fam == "ext"):
                    if not isinstance(value, (ast.Constant, ast.Name)):
                        if attr == "_parent":
                            self.fail(node, "self._parent is assigned something else than the `parent` argument")
                        # the value is evaluated for what it can raise, then dropped (it must be a plain value)
                        def drop(v):
                            if v.ty in ("Self", "P", "PO", "D", "Tuple"):
                                self.fail(node, f"self.{attr} (not in the model) is given a reference to an object of the model")
                            return k(env)
                        return self.expr(value, env, drop)
                    if isinstance(value, ast.Name) and value.id not in env.locals:
                        self.fail(value, f"name `{value.id}`")
                    if attr == "_parent" and not (isinstance(value, ast.Name) and value.id == "parent"):
                        self.fail(node, "self._parent is assigned something else than the `parent` argument")
                    return k(env)
                ftypes = {x: t for x, _p, t in BASE_FIELDS + SPEC_FIELDS}
                allowed = {"set": ["_value"], "add": ["_children"], "ctor": list(ftypes)}.get(fam, [])
                if a not in allowed:
                    self.fail(node, f"assignment to self.{attr} in a method of kind {fam}")

                def done(v):
                    cv = self.coerce(node, ftypes[a], v, env)
                    e2 = env.clone()
                    e2.dirty = True
                    e2.forget_expressions()
                    if fam == "ctor" and env.state.get("registered"):
                        e2.state["rereg"] = True
                    if cv.tx.isidentifier() or cv.tx in ("[]", "VNone"):
                        e2.fields[a] = cv
                        return k(e2)
                    nm = self.ctx.fresh("f" + a)
                    e2.fields[a] = V(cv.ty, nm, prov=("self" if cv.ty == "D" else None))
                    return f"let {nm} := {cv.tx} in\n{k(e2)}"
                return self.expr(value, env, done)
            # <child>._parent = self
            tv = env.locals.get(owner)
            if attr == "_parent" and tv is not None and tv.ty == "P" and fam == "add" and \
                    isinstance(value, ast.Name) and value.id == "self":
                self.ctx.sets_parent = True
                # the model reads a parameter's parent from its position in the tree, so re-parenting must
                # coincide with the registration: no raise may be reachable once the child is re-parented
                e2 = env.clone()
                e2.state["reparented"] = True
                return k(e2)
            self.fail(node, f"assignment to {owner}.{attr}")
        if isinstance(target, ast.Subscript):
            # self._value[k] = v
            def sub(d):
                if d.ty != "D" or d.prov != "self" or fam != "add":
                    self.fail(node, "item assignment to something else than self's own dict in add()")
                return self.expr(target.slice, env, lambda kk: self.expr(value, env, lambda v: put(d, kk, v)))

            def put(d, kk, v):
                if kk.ty != "S" or v.ty != "P":
                    self.fail(node, f"dict item of kinds {kk.ty} -> {v.ty}")
                if not v.tx.startswith("p_") or kk.tx != f"(pkey {v.tx})":
                    self.fail(node, "a parameter is stored under something else than its own key")
                e2 = env.clone()
                e2.dirty = True
                e2.forget_expressions()
                nm = self.ctx.fresh("ch")
                e2.fields["_children"] = V("D", nm, prov="self")
                return f"let {nm} := py_dict_set {kk.tx} {v.tx} {d.tx} in\n{k(e2)}"
            return self.expr(target.value, env, sub)
        if isinstance(target, ast.Tuple):
            # a, b = <tuple> : only names, only a tuple of the same length (what a helper returns)
            if not all(isinstance(t, ast.Name) for t in target.elts) or len({t.id for t in target.elts}) != len(target.elts):
                self.fail(node, "tuple assignment to something else than distinct names")

            def unpack(v, env1):
                if v.ty != "Tuple" or len(v.items) != len(target.elts):
                    self.fail(node, f"a value of kind {v.ty} is unpacked into {len(target.elts)} names")
                e2 = env1.clone()
                for t, item in zip(target.elts, v.items):
                    self.check_local_target(node, t.id, env1)
                    if item.ty == "Tuple":
                        self.fail(node, "nested tuple")
                    e2.locals[t.id] = item
                return k(e2)
            h = self.inlinable(value, env)
            if h is not None:
                return h(lambda v, out, same: unpack(v, out))
            return self.expr(value, env, lambda v: unpack(v, env))
        if isinstance(target, ast.Name):
            self.check_local_target(node, target.id, env)

            def loc(v, env=env):
                e2 = env.clone()
                # a pure projection of a name is substituted, anything bigger is let-bound
                if v.tx is None or v.tx.isidentifier() or re.fullmatch(r"\((pkey|pprio|keyarg_str|prioarg_q|py_children) \w+\)", v.tx):
                    e2.locals[target.id] = v
                    return k(e2)
                nm = self.ctx.fresh("v_" + target.id)
                e2.locals[target.id] = V(v.ty, nm, prov=v.prov)
                for (t, f) in env.facts:
                    if t == v.tx:
                        e2.facts = e2.facts | {(nm, f)}
                return f"let {nm} := {v.tx} in\n{k(e2)}"
            h = self.inlinable(value, env)
            if h is not None:
                return h(lambda v, out, same: loc(v, out))
            return self.expr(value, env, loc)
        self.fail(node, f"assignment target {type(target).__name__}")

    def check_local_target(self, node, name, env):
        if name == "self" or name in BUILTINS_USED or name in BASES:
            self.fail(node, f"assignment to `{name}`")
        if name in env.locals and env.locals[name].tx == "p_" + name and not self.ctx.frames:
            self.fail(node, f"assignment to the parameter `{name}`")

    def inlinable(self, e, env):
        """when e is a call of a private helper: a function taking the continuation k(value, env after, unchanged?)"""
        if not isinstance(e, ast.Call):
            return None
        f = e.func
        if isinstance(f, ast.Name) and f.id not in env.locals and f.id not in BUILTINS_USED and f.id not in BASES:
            fd = self.helper_function(f.id)
            if fd is not None:
                return lambda k: self.inline(e, fd, e, env, k, True, "function")
        if isinstance(f, ast.Attribute) and isinstance(f.value, ast.Name) and f.value.id in self.ctx.mod.classes and \
                f.value.id not in env.locals and f.value.id in BASES and f.attr not in self.RESERVED_METHODS:
            # Cls.helper(..) : only a static method of a class of this module
            owner, fd = self.ctx.mod.find_method(f.value.id, f.attr)
            if fd is not None and [ast.unparse(d) for d in fd.decorator_list] == ["staticmethod"]:
                return lambda k: self.inline(e, fd, e, env, k, True, "static method", owner)
        if isinstance(f, ast.Attribute) and isinstance(f.value, ast.Name) and f.value.id == "self" and \
                not (self.ctx.frames and self.ctx.frames[-1]["selfless"]):
            fd, static = self.helper_method(e, f.attr)
            if fd is not None:
                owner = self.ctx.mod.find_method(self.ctx.cls, f.attr)[0]
                return lambda k: self.inline(e, fd, e, env, k, static, "static method" if static else "method", owner)
        return None

    def coerce(self, node, fty, v, env):
        """a value stored in an attribute of the model"""
        t = v.ty
        if fty == t and t in ("S", "Q", "B", "V", "Num", "Strs", "Cls", "D"):
            return V(t, self.atom(v), prov=v.prov)
        if fty == "S" and t == "KA" and env.has(v, "ok"):
            return V("S", f"(keyarg_str {v.tx})")
        if fty == "B" and t == "BA" and env.has(v, "ok"):
            return V("B", f"(boolarg_b {v.tx})")
        if fty == "V" and t == "None":
            return V("V", "VNone")
        if fty == "Num" and t == "NumA" and env.has(v, "ok"):
            return V("Num", f"(numarg_num {v.tx})")
        if fty == "Strs" and t == "OA" and env.has(v, "list") and env.has(v, "allstr"):
            return V("Strs", f"(optsarg_list {v.tx})")
        if fty == "Cls" and t == "QC":
            return V("Cls", f"(qclsarg_cls {v.tx})")
        self.fail(node, f"value of kind {t} stored in an attribute of kind {fty}" +
                  (" (no isinstance guard established its type)" if t in ("KA", "BA", "NumA", "OA") else ""))

    def as_param(self, node, pty, v, env):
        """a value passed for a parameter of universe pty"""
        t = v.ty
        if t == pty and v.tx is not None:
            return v.tx
        if pty == "KA" and t == "S":
            return f"(KStr {self.atom(v)})"
        if pty == "NA" and t == "S" and v.const is not None:
            return "NameOk" if v.const else "NameEmpty"
        if pty == "V" and t == "None":
            return "VNone"
        if pty == "PA" and t == "Z" and v.const is not None:
            return f"(PrioNum {v.const})" if v.const >= 0 else f"(PrioNum ({v.const}))"
        if pty == "PA" and t == "Q":
            return f"(PrioNum {v.tx})"
        if pty == "PO" and t == "None":
            return "None"
        if pty == "PO" and t == "P":
            return f"(Some {v.tx})"
        if pty == "BA" and t == "B":
            return f"(BoolOk {self.atom(v)})"
        if pty == "NumA" and t == "Num":
            return f"(NumOk {v.tx})"
        if pty == "FA" and t == "S" and v.const is not None:
            return "FmtOk"
        if pty == "OA" and t == "Strs":
            return f"(OptsOk {v.tx})"
        if pty == "P" and t == "Self":
            return self.self_param(node, env)
        if pty == "S" and t == "S":
            return self.atom(v)
        self.fail(node, f"argument of kind {t} passed for a parameter of kind {pty}")

    # ------------------------------------------------------------------ expressions (CPS: k gets an atomic value)
    def expr(self, e, env, k):
        key = ast.dump(e)
        if key in env.refined:
            return k(env.refined[key])
        if isinstance(e, (ast.Attribute, ast.Subscript)):
            k0 = k

            def k(v, k0=k0, key=key):
                if v.src is None and v.tx is not None:
                    v.src = key
                return k0(v)
        if isinstance(e, ast.Constant):
            c = e.value
            if c is None:
                return k(V("None"))
            if isinstance(c, bool):
                return k(V("B", const=c))
            if isinstance(c, int):
                return k(V("Z", const=c))
            if isinstance(c, str):
                return k(V("S", const=c))
            self.fail(e, f"literal {c!r}")
        if isinstance(e, ast.Name):
            if e.id == "self":
                if self.ctx.frames and self.ctx.frames[-1]["selfless"]:
                    self.fail(e, "`self` inside a function / static method")
                return k(V("Self"))
            if e.id in env.locals:
                return k(env.locals[e.id])
            self.fail(e, f"name `{e.id}` (not a parameter or a local assigned on every path before)")
        if isinstance(e, ast.Dict):
            if e.keys:
                self.fail(e, "non-empty dict literal")
            return k(V("D", "[]"))
        if isinstance(e, ast.Attribute):
            return self.attribute(e, env, k)
        if isinstance(e, ast.Subscript):
            return self.subscript(e, env, k)
        if isinstance(e, ast.BinOp):
            if not isinstance(e.op, ast.Add):
                self.fail(e, f"binary operator {type(e.op).__name__}")
            return self.expr(e.left, env, lambda a: self.expr(e.right, env, lambda b: self.add_(e, a, b, k)))
        if isinstance(e, (ast.Compare, ast.BoolOp)) or (isinstance(e, ast.UnaryOp) and isinstance(e.op, ast.Not)):
            return self.bool_value(e, env, k)
        if isinstance(e, ast.Call):
            return self.call(e, env, k)
        if isinstance(e, ast.DictComp):
            return self.dictcomp(e, env, k)
        if isinstance(e, ast.Tuple):
            def elts(i, acc):
                if i == len(e.elts):
                    return k(V("Tuple", items=list(acc)))
                return self.expr(e.elts[i], env, lambda v: elts(i + 1, acc + [v]))
            return elts(0, [])
        if isinstance(e, ast.IfExp):
            # a if c else b : the branch taken is the only one evaluated
            try:
                return self.cond(e.test, env, lambda e1: self.expr(e.body, e1, k), lambda e1: self.expr(e.orelse, e1, k))
            except IgnCond as exc:
                if not within(exc.node, e.test):
                    raise
                if not all(isinstance(x, (ast.Constant, ast.Name)) for x in (e.body, e.orelse)):
                    self.fail(e, "a conditional expression on a value the model does not have chooses between computed values")
                for x in (e.body, e.orelse):
                    if isinstance(x, ast.Name) and x.id not in env.locals:
                        self.fail(x, f"name `{x.id}`")
                return k(V("Ign"))
        self.fail(e, f"expression {type(e).__name__}")

    def add_(self, node, a, b, k):
        if a.ty == "S" and b.ty == "S":
            return k(V("S", f"(String.append {self.atom(a)} {self.atom(b)})"))
        if a.ty == "Z" and b.ty == "Z":
            if a.const is not None and b.const is not None:
                return k(V("Z", const=a.const + b.const))
            lo = None
            for x, y in ((a, b), (b, a)):
                if x.prov == "ge-1" and y.const is not None and y.const >= 1:
                    lo = "ge0"
            return k(V("Z", f"({self.atom(a)} + {self.atom(b)})%Z", prov=lo))
        self.fail(node, f"`+` between values of kinds {a.ty} and {b.ty}")

    def bool_value(self, e, env, k):
        """a boolean expression used as a value: both outcomes continue"""
        return self.cond(e, env, lambda e1: k(V("B", const=True)), lambda e1: k(V("B", const=False)), as_value=k)

    # ---- attributes
    def property_target(self, mod, cname, attr, node):
        """the attribute a property returns: `return self._y`"""
        owner, f = mod.find_method(cname, attr)
        if f is None:
            return None
        if [ast.unparse(d) for d in f.decorator_list] != ["property"]:
            self.fail(node, f"{owner}.{attr} is used as an attribute but is not a plain property")
        body = self.body_of(f)
        if len(body) == 1 and isinstance(body[0], ast.Return) and isinstance(body[0].value, ast.Attribute) and \
                isinstance(body[0].value.value, ast.Name) and body[0].value.value.id == "self" and \
                f.args.args and f.args.args[0].arg == "self" and len(f.args.args) == 1:
            self.note_source(mod, owner, attr, f, f"(inlined) property {owner}.{attr}")
            return body[0].value.attr
        self.fail(f, f"property {owner}.{attr} is not `return self._x`")

    def attribute(self, e, env, k):
        if isinstance(e.value, ast.Name) and e.value.id == "self":
            if self.ctx.frames and self.ctx.frames[-1]["selfless"]:
                self.fail(e, "`self` inside a function / static method")
            a = ATTR_ALIAS.get(self.ctx.cls, {}).get(e.attr, e.attr)
            if a in env.fields:
                v = env.fields[a]
                if v is None:
                    self.fail(e, f"self.{e.attr} is read before it is assigned")
                return k(v)
            if e.attr in IGNORED:
                return k(V("Ign"))
            if not e.attr.startswith("_"):
                t = self.property_target(self.ctx.mod, self.ctx.cls, e.attr, e)
                if t is not None:
                    return self.attribute(ast.copy_location(ast.Attribute(value=e.value, attr=t, ctx=ast.Load()), e), env, k)
            self.fail(e, f"attribute self.{e.attr}, which the model does not have here")

        def on(x):
            if x.ty == "P" and x.tx is None:
                self.fail(e, "a reference obtained for a call that changes the object is used for something else")
            if x.ty == "P":
                return self.obj_attr(e, x, e.attr, env, k)
            if x.ty == "V" and e.attr == "si":
                if not env.has(x, "qty"):
                    self.fail(e, f"`.si` of a value that no isinstance guard established to be a Quantity")
                return self.bind(e, env, f"py_si {x.tx}", "si", "V", lambda v: k(v), prov="number")
            if x.ty == "QC" and e.attr == "_units":
                return k(V("UD", f"(qclsarg_units {x.tx})"))
            if x.ty == "Ign":
                return k(V("Ign"))
            self.fail(e, f"attribute `.{e.attr}` of a value of kind {x.ty}")
        return self.expr(e.value, env, on)

    def obj_attr(self, node, x, attr, env, k):
        """an attribute of another parameter object (a node of the tree)"""
        if attr == "_key":
            return k(V("S", f"(pkey {x.tx})"))
        if attr == "_display_priority":
            return k(V("Q", f"(pprio {x.tx})"))
        if attr == "_value":
            if not env.has(x, "map"):
                self.fail(node, "`._value` of a parameter object that no isinstance guard established to be a map")
            return k(V("D", f"(py_children {x.tx})", prov=("of", x.tx)))
        if attr == "value":
            # dynamic dispatch: every class has its own property
            self.need_dispatch("value")
            return k(V("R", f"(gen_dispatch_value {x.tx})"))
        if not attr.startswith("_"):
            pm = self.mods["parameters"]
            t = self.property_target(pm, "InputParameter", attr, node)
            if t is not None:
                for c in ALL8:          # a subclass must not override it
                    if pm.own_method(c, attr) is not None:
                        self.fail(node, f"{c} overrides the property `{attr}` (dynamic dispatch is not resolved here)")
                return self.obj_attr(node, x, t, env, k)
        self.fail(node, f"attribute `.{attr}` of a parameter object")

    # ---- subscripts
    def subscript(self, e, env, k):
        sl = e.slice
        if isinstance(sl, ast.Slice):
            if sl.upper is not None or sl.step is not None or sl.lower is None:
                self.fail(e, "slice other than s[n:]")

            def sliced(s):
                if s.ty != "S":
                    self.fail(e, f"slice of a value of kind {s.ty}")

                def lower(z):
                    if z.ty != "Z" or not ((z.const is not None and z.const >= 0) or z.prov == "ge0"):
                        self.fail(e, "slice bound that is not known to be >= 0 (only literals and s.find(c) + n, n >= 1)")
                    return k(V("S", f"(py_slice_from {self.atom(z)} {self.atom(s)})"))
                return self.expr(sl.lower, env, lower)
            return self.expr(e.value, env, sliced)

        def sub(c):
            if c.ty == "L":
                if not (isinstance(sl, ast.Constant) and isinstance(sl.value, int) and not isinstance(sl.value, bool) and sl.value >= 0):
                    self.fail(e, "list index that is not a literal >= 0")
                return self.bind(e, env, f"py_list_get {c.tx} {sl.value}", "x", "S", k)
            if c.ty == "D":
                def got(kk):
                    if kk.ty != "S":
                        self.fail(e, f"dict key of kind {kk.ty}")
                    prov = ("child", self.atom(kk)) if c.prov == "self" else None
                    return self.bind(e, env, f"py_dict_get {self.atom(kk)} {c.tx}", "c", "P", k, prov=prov)
                return self.expr(sl, env, got)
            self.fail(e, f"subscript of a value of kind {c.ty}")
        return self.expr(e.value, env, sub)

    def dictcomp(self, e, env, k):
        """{k: v for k, v in sorted(D.items(), key=lambda item: item[1])} : the same dict, ordered by the values"""
        ok = len(e.generators) == 1 and not e.generators[0].ifs and not e.generators[0].is_async
        g = e.generators[0] if ok else None
        ok = ok and isinstance(g.target, ast.Tuple) and len(g.target.elts) == 2 and all(isinstance(x, ast.Name) for x in g.target.elts)
        ok = ok and isinstance(e.key, ast.Name) and isinstance(e.value, ast.Name) and \
            [e.key.id, e.value.id] == [x.id for x in g.target.elts] and e.key.id != e.value.id
        if not ok:
            self.fail(e, "dict comprehension other than {k: v for k, v in sorted(d.items(), key=lambda item: item[1])}")
        return self.sorted_items(e, g.iter, env, k)

    def sorted_items(self, e, it, env, k):
        """the dict rebuilt from sorted(D.items(), key=lambda item: item[1])"""
        ok = isinstance(it, ast.Call) and isinstance(it.func, ast.Name) and it.func.id == "sorted" and \
            "sorted" not in env.locals and len(it.args) == 1 and len(it.keywords) == 1 and it.keywords[0].arg == "key"
        if ok:
            lam, src = it.keywords[0].value, it.args[0]
            ok = isinstance(lam, ast.Lambda) and len(lam.args.args) == 1 and not lam.args.defaults and \
                not lam.args.kwonlyargs and not lam.args.vararg and not lam.args.kwarg and \
                isinstance(lam.body, ast.Subscript) and isinstance(lam.body.value, ast.Name) and \
                lam.body.value.id == lam.args.args[0].arg and isinstance(lam.body.slice, ast.Constant) and lam.body.slice.value == 1
            ok = ok and isinstance(src, ast.Call) and isinstance(src.func, ast.Attribute) and src.func.attr == "items" and \
                not src.args and not src.keywords
        if not ok:
            self.fail(e, "a dict is rebuilt from something else than sorted(d.items(), key=lambda item: item[1])")

        def srt(d):
            if d.ty != "D":
                self.fail(e, f".items() of a value of kind {d.ty}")
            lt = self.method("parameters", "InputParameter", "__lt__", "lt", e)
            return k(V("D", f"(py_sorted_by {lt['name']} {d.tx})", prov=d.prov))
        return self.expr(src.func.value, env, srt)

    # ---- calls in expressions
    def call(self, e, env, k):
        f = e.func
        h = self.inlinable(e, env)
        if h is not None:
            return h(self.pure_call(e, env, k))
        if isinstance(f, ast.Name) and f.id == "dict" and "dict" not in env.locals:
            # dict(sorted(d.items(), key=lambda item: item[1])) : the same dict, ordered by the values
            if len(e.args) != 1 or e.keywords:
                self.fail(e, "dict(..) other than dict(sorted(d.items(), key=lambda item: item[1]))")
            return self.sorted_items(e, e.args[0], env, k)
        if isinstance(f, ast.Name) and f.id not in env.locals:
            if f.id in ("isinstance", "issubclass", "all"):
                return self.bool_value(e, env, k)
            if e.keywords or len(e.args) != 1:
                self.fail(e, f"call of `{f.id}` with keywords / other than one argument")
            if f.id == "len":
                def ln(v):
                    if v.ty == "S":
                        return k(V("Z", f"(Z.of_nat (String.length {self.atom(v)}))"))
                    if v.ty == "KA" and env.has(v, "ok"):
                        return k(V("Z", f"(Z.of_nat (String.length (keyarg_str {v.tx})))"))
                    if v.ty == "NA" and env.has(v, "ok"):
                        return k(V("Z", f"(namearg_len {v.tx})"))
                    self.fail(e, f"len() of a value of kind {v.ty}" + (" without an isinstance guard" if v.ty in ("KA", "NA") else ""))
                return self.expr(e.args[0], env, ln)
            if f.id == "float":
                def fl(v):
                    if v.ty == "PA" and env.has(v, "ok"):
                        return k(V("Q", f"(prioarg_q {v.tx})"))
                    if v.ty == "Q":
                        return k(v)
                    self.fail(e, f"float() of a value of kind {v.ty}" + (" without an isinstance guard" if v.ty == "PA" else ""))
                return self.expr(e.args[0], env, fl)
            if f.id == "type":
                def ty(v):
                    if v.ty == "V" and env.has(v, "qty"):
                        return k(V("Cls", f"(py_type_qcls {v.tx})"))
                    self.fail(e, "type() of something else than a value an isinstance guard established to be a Quantity")
                return self.expr(e.args[0], env, ty)
            if f.id == "list":
                def li(v):
                    if v.ty == "UDK":
                        return k(V("Strs", v.tx))
                    self.fail(e, f"list() of a value of kind {v.ty}")
                return self.expr(e.args[0], env, li)
            self.fail(e, f"call of `{f.id}`")
        if isinstance(f, ast.Attribute):
            if e.keywords:
                self.fail(e, "keyword arguments in a method call")
            return self.expr(f.value, env, lambda r: self.method_call(e, r, f.attr, env, k))
        self.fail(e, f"call `{ast.unparse(e)[:60]}`")

    def one_char(self, node, args, env):
        if len(args) == 1 and isinstance(args[0], ast.Constant) and isinstance(args[0].value, str) and len(args[0].value) == 1:
            return '"' + ('""' if args[0].value == '"' else args[0].value) + '"%char'
        self.fail(node, "argument that is not a one-character literal")

    def method_call(self, e, r, meth, env, k):
        if r.ty == "P" and r.tx is None:
            self.fail(e, "a reference obtained for a call that changes the object is used for something else")
        if r.ty == "S":
            if meth == "split":
                return k(V("L", f"(py_split {self.one_char(e, e.args, env)} {self.atom(r)})"))
            if meth == "find":
                return k(V("Z", f"(py_find_char {self.one_char(e, e.args, env)} {self.atom(r)})", prov="ge-1"))
        if r.ty in ("D", "UD") and meth == "keys" and not e.args:
            return k(V("DK" if r.ty == "D" else "UDK", r.tx, prov=r.prov))
        if r.ty == "P" and meth == "get" and len(e.args) == 1:
            if not env.has(r, "map"):
                self.fail(e, "get() on a parameter object that is not known to be a map")

            def g(a):
                if a.ty != "S":
                    self.fail(e, f"get() with a key of kind {a.ty}")
                if getattr(self, "ref_mode", False):
                    # the receiver of a mutating call: the reference, not the object (no lookup is made here)
                    return k(V("P", None, prov=("getref", r.tx, self.atom(a))))
                sig = self.method("parameters", "InputParameterMap", "get", "get", e)
                fuel = self.ctx.fuel if ("parameters", "InputParameterMap", "get", "get") in self.stack else f"(fuel_of {self.atom(a)})"
                return self.bind(e, env, f"{sig['name']} {fuel} {r.tx} {self.atom(a)}", "p", "P", k,
                                 prov=("get", r.tx, self.atom(a)))
            return self.expr(e.args[0], env, g)
        if r.ty == "P" and meth == "extended_key" and not e.args:
            if not r.prov or r.prov[0] != "parent":
                self.fail(e, "extended_key() of an object whose own parents are not known")
            key = ("parameters", "InputParameter", "extended_key", "ext")
            sig = self.method(*key, e)
            fuel = self.ctx.fuel if key in self.stack else f"(S (List.length {r.prov[1]}))"
            return self.bind(e, env, f"{sig['name']} {fuel} {r.prov[1]} {r.tx}", "s", "S", k)
        self.fail(e, f"method call `.{meth}()` on a value of kind {r.ty}")

    # ------------------------------------------------------------------ conditions
    def branch(self, node, v, env, kt, kf, ft=(), ff=(), as_value=None):
        if v.ty == "Ign":
            raise IgnCond(node)
        if v.ty == "RB":                                   # res bool
            b, ex = self.ctx.fresh("b"), self.ctx.fresh("e")
            return (f"match {v.tx} with\n| Raise {ex} => {self.raise_(node, env, ex)}\n| Val {b} =>\n"
                    + ind(f"if {b} then\n{ind(par(kt(env.plus(ft))))}\nelse\n{ind(par(kf(env.plus(ff))))}") + "\nend")
        if v.ty != "B":
            self.fail(node, f"truth value of a value of kind {v.ty} (only bools are tested)")
        if v.const is not None:
            return kt(env.plus(ft)) if v.const else kf(env.plus(ff))
        if as_value is not None:
            return as_value(v)
        return f"if {v.tx} then\n{ind(par(kt(env.plus(ft))))}\nelse\n{ind(par(kf(env.plus(ff))))}"

    def merge_isinstance_or(self, e):
        """isinstance(x, A) or isinstance(x, B)  ==  isinstance(x, (A, B))   (x a name)"""
        if not (isinstance(e, ast.BoolOp) and isinstance(e.op, ast.Or)):
            return e
        subj, types = None, []
        for x in e.values:
            if not (isinstance(x, ast.Call) and isinstance(x.func, ast.Name) and x.func.id == "isinstance" and
                    len(x.args) == 2 and not x.keywords and isinstance(x.args[0], ast.Name)):
                return e
            if subj is None:
                subj = x.args[0].id
            elif subj != x.args[0].id:
                return e
            t = x.args[1]
            types += list(t.elts) if isinstance(t, ast.Tuple) else [t]
        new = ast.Call(func=ast.Name(id="isinstance", ctx=ast.Load()),
                       args=[ast.Name(id=subj, ctx=ast.Load()), ast.Tuple(elts=types, ctx=ast.Load())], keywords=[])
        return ast.fix_missing_locations(ast.copy_location(new, e))

    def cond(self, e, env, kt, kf, as_value=None):
        e = self.merge_isinstance_or(e)
        if isinstance(e, ast.BoolOp):
            first, rest = e.values[0], e.values[1:]
            more = rest[0] if len(rest) == 1 else ast.copy_location(ast.BoolOp(op=e.op, values=rest), e)
            if isinstance(e.op, ast.And):
                return self.cond(first, env, lambda e1: self.cond(more, e1, kt, kf), kf)
            return self.cond(first, env, kt, lambda e1: self.cond(more, e1, kt, kf))
        if isinstance(e, ast.UnaryOp) and isinstance(e.op, ast.Not):
            return self.cond(e.operand, env, kf, kt)
        if isinstance(e, ast.Compare):
            nodes = [e.left] + list(e.comparators)

            def step(i, a, env_i):
                def with_b(b):
                    op = CMPOPS.get(type(e.ops[i]))
                    if op is None:
                        self.fail(e, f"comparison operator {type(e.ops[i]).__name__}")
                    last = i + 1 == len(e.ops)
                    return self.compare(e, op, nodes[i], a, nodes[i + 1], b, env_i,
                                        kt if last else (lambda e2: step(i + 1, b, e2)), kf,
                                        as_value if (last and i == 0) else None)
                return self.expr(nodes[i + 1], env_i, with_b)
            return self.expr(e.left, env, lambda a: step(0, a, env))
        if isinstance(e, ast.Call) and isinstance(e.func, ast.Name) and e.func.id in ("isinstance", "issubclass", "all") \
                and e.func.id not in env.locals:
            return self.guard_call(e, env, kt, kf, as_value)
        return self.expr(e, env, lambda v: self.branch(e, v, env, kt, kf, as_value=as_value))

    def guard_call(self, e, env, kt, kf, as_value):
        fn = e.func.id
        if e.keywords:
            self.fail(e, f"{fn}() with keyword arguments")
        if fn == "all":
            # all([isinstance(x, str) for x in options])
            a = e.args[0] if len(e.args) == 1 else None
            ok = isinstance(a, (ast.ListComp, ast.GeneratorExp)) and len(a.generators) == 1 and not a.generators[0].ifs \
                and isinstance(a.generators[0].target, ast.Name) and isinstance(a.elt, ast.Call) \
                and isinstance(a.elt.func, ast.Name) and a.elt.func.id == "isinstance" and len(a.elt.args) == 2 \
                and isinstance(a.elt.args[0], ast.Name) and a.elt.args[0].id == a.generators[0].target.id \
                and isinstance(a.elt.args[1], ast.Name) and a.elt.args[1].id == "str" and not a.elt.keywords
            if not ok:
                self.fail(e, "all(..) other than all([isinstance(x, str) for x in <options>])")

            def allstr(o):
                if o.ty != "OA" or not env.has(o, "list"):
                    self.fail(e, "all(isinstance(x, str) ..) over something else than the options argument known to be a list")
                return self.branch(e, V("B", f"(optsarg_all_str {o.tx})"), env, kt, kf, ft=fx(o, "allstr"), as_value=as_value)
            return self.expr(a.generators[0].iter, env, allstr)
        if len(e.args) != 2:
            self.fail(e, f"{fn}() with other than two arguments")
        t = e.args[1]
        tnames = [t] if not isinstance(t, ast.Tuple) else list(t.elts)

        def with_x(x):
            if fn == "issubclass":
                if x.ty == "QC" and [ast.unparse(n) for n in tnames] == ["Quantity"]:
                    return self.branch(e, V("B", const=True), env, kt, kf)
                self.fail(e, f"issubclass test `{ast.unparse(e)[:60]}`")
            if all(isinstance(n, ast.Name) for n in tnames):
                names = frozenset(n.id for n in tnames)
                for n in names:
                    if n in env.locals:
                        self.fail(e, f"isinstance against the local `{n}`")
                return self.isinstance_names(e, x, names, env, kt, kf, as_value)
            if len(tnames) == 1:
                # isinstance(value, self._type)
                def with_t(tv):
                    if x.ty == "V" and tv.ty == "Cls":
                        return self.branch(e, V("B", f"(py_isinstance_qcls {x.tx} {tv.tx})"), env, kt, kf,
                                           ft=fx(x, "qty"), as_value=as_value)
                    self.fail(e, f"isinstance of a value of kind {x.ty} against a value of kind {tv.ty}")
                return self.expr(tnames[0], env, with_t)
            self.fail(e, "isinstance against something else than class names")
        return self.expr(e.args[0], env, with_x)

    def isinstance_names(self, e, x, names, env, kt, kf, as_value):
        def out(tx, facts):
            return self.branch(e, V("B", tx), env, kt, kf, ft=facts, as_value=as_value)
        t = x.ty
        if t == "None":
            if names & {"NoneType", "object"}:
                self.fail(e, "isinstance(None, ..) against NoneType / object")
            return self.branch(e, V("B", const=False), env, kt, kf)
        if t == "V":
            if not names <= set(PYCLS):
                self.fail(e, f"isinstance test `{ast.unparse(e)[:60]}` cannot be decided on the model's value universe")
            facts = fx(x, "inst")
            if names <= {"int", "float", "bool"}:
                facts += fx(x, "cmp")
            if names == {"str"}:
                facts += fx(x, "str")
            if names == {"Quantity"}:
                facts += fx(x, "qty")
            order = [n for n in PYCLS if n in names]
            return out(f"(py_isinstance {x.tx} [{'; '.join(PYCLS[n] for n in order)}])", facts)
        table = {("KA", frozenset({"str"})): "keyarg_is_str", ("NA", frozenset({"str"})): "namearg_is_str",
                 ("PA", frozenset({"int", "float"})): "prioarg_is_num", ("BA", frozenset({"bool"})): "boolarg_is_bool",
                 ("NumA", frozenset({"int", "float"})): "numarg_is_num", ("FA", frozenset({"str"})): "fmtarg_is_str",
                 ("OA", frozenset({"list"})): "optsarg_is_list"}
        fn = table.get((t, names))
        if fn is not None and x.tx is not None:
            return out(f"({fn} {x.tx})", fx(x, "ok") + fx(x, "list") if t == "OA" else fx(x, "ok"))
        if t in ("P", "Self"):
            if names == {"InputParameter"}:
                return self.branch(e, V("B", const=True), env, kt, kf)
            if names == {"InputParameterMap"} and t == "P":
                return out(f"(py_is_map {x.tx})", fx(x, "map"))
        self.fail(e, f"isinstance test `{ast.unparse(e)[:60]}` cannot be decided on the universe of its subject ({t})")

    def eq_none_const(self, node, op):
        """`<parameter object> == None` calls InputParameter.__eq__ / __ne__: it must answer a constant for None"""
        meth = "__eq__" if op == "==" else "__ne__"
        pm = self.mods["parameters"]
        owner, f = pm.find_method("InputParameter", meth)
        for c in ALL8:
            if pm.own_method(c, meth) is not None:
                self.fail(node, f"{c} overrides {meth}")
        if f is None:
            return op == "!="            # object identity
        body = self.body_of(f)
        want = (op == "!=")
        ok = len(f.args.args) == 2 and not f.decorator_list and body and isinstance(body[0], ast.If) and \
            ast.unparse(body[0].test) == f"not isinstance({f.args.args[1].arg}, InputParameter)" and \
            len(body[0].body) == 1 and isinstance(body[0].body[0], ast.Return) and \
            isinstance(body[0].body[0].value, ast.Constant) and body[0].body[0].value.value is want
        if not ok:
            self.fail(f, f"InputParameter.{meth} does not start with `if not isinstance(other, InputParameter): return {want}` "
                         "(needed to decide `<parameter> " + op + " None`)")
        self.note_source(pm, owner, meth, f, f"(first statement) {owner}.{meth}: the answer for None")
        return want

    def compare(self, node, op, an, a, bn, b, env, kt, kf, as_value):
        def out(tx, ty="B"):
            return self.branch(node, V(ty, tx), env, kt, kf, as_value=as_value if ty == "B" else None)
        # ---- None tests
        if op in ("==", "!=", "is", "is not") and (a.ty == "None" or b.ty == "None"):
            x, xn = (a, an) if b.ty == "None" else (b, bn)
            positive = op in ("==", "is")          # true when x is None
            if x.ty == "None":
                return self.branch(node, V("B", const=positive), env, kt, kf)
            if x.ty == "Ign":
                raise IgnCond(node)
            if x.ty in ("P", "Self"):
                if op in ("==", "!="):
                    self.eq_none_const(node, op)
                return self.branch(node, V("B", const=not positive), env, kt, kf)
            if x.ty in ("PO", "Anc"):
                if op in ("==", "!="):
                    self.eq_none_const(node, op)
                p = self.ctx.fresh("par")
                e_some = env.clone()
                e_none = env.clone()
                e_none.refined[ast.dump(xn)] = V("None")
                if x.ty == "PO" and env.state.get("par") == x.tx:
                    e_none.state["par"] = "None"
                if x.ty == "PO":
                    e_some.refined[ast.dump(xn)] = V("P", p, prov=("optparent",))
                    if env.state.get("par") == x.tx:
                        e_some.state["par"] = f"(Some {p})"
                    k_none, k_some = (kt, kf) if positive else (kf, kt)
                    return (f"match {x.tx} with\n| None =>\n{ind(k_none(e_none))}\n| Some {p} =>\n{ind(k_some(e_some))}\nend")
                rest = self.ctx.fresh("anc")
                e_some.refined[ast.dump(xn)] = V("P", p, prov=("parent", rest))
                k_none, k_some = (kt, kf) if positive else (kf, kt)
                return (f"match {x.tx} with\n| [] =>\n{ind(k_none(e_none))}\n| {p} :: {rest} =>\n{ind(k_some(e_some))}\nend")
            self.fail(node, f"comparison of a value of kind {x.ty} with None")
        # ---- membership
        if op in ("in", "not in"):
            neg = op == "not in"
            kt2, kf2 = (kf, kt) if neg else (kt, kf)

            def out2(tx, ty="B"):
                if neg and ty == "B" and as_value is not None:
                    return self.branch(node, V("B", f"(negb {tx})"), env, kt, kf, as_value=as_value)
                return self.branch(node, V(ty, tx), env, kt2, kf2)
            if a.ty == "S" and a.const is not None and len(a.const) == 1 and b.ty == "S":
                ch = '"' + ('""' if a.const == '"' else a.const) + '"%char'
                return out2(f"(py_contains_char {ch} {self.atom(b)})")
            if a.ty == "S" and a.const is not None and len(a.const) == 1 and b.ty == "KA" and env.has(b, "ok"):
                ch = '"' + ('""' if a.const == '"' else a.const) + '"%char'
                return out2(f"(py_contains_char {ch} (keyarg_str {b.tx}))")
            if a.ty == "S" and b.ty in ("D", "DK"):
                return out2(f"(has_key {self.atom(a)} {b.tx})")
            if a.ty == "V" and b.ty in ("UD", "UDK"):
                return out2(f"(py_in_keys {a.tx} {b.tx})", "RB")
            if a.ty == "V" and b.ty in ("Strs", "OA"):
                if not env.has(a, "str"):
                    self.fail(node, "`in <list of str>` of a value that no isinstance guard established to be a str")
                lst = b.tx if b.ty == "Strs" else self.coerce(node, "Strs", b, env).tx
                return out2(f"(py_in_strs {a.tx} {lst})")
            self.fail(node, f"`{op}` between values of kinds {a.ty} and {b.ty}")
        # ---- equality of ints / strings
        if op in ("==", "!="):
            if a.ty == "Z" and b.ty == "Z":
                tx = f"({self.atom(a)} =? {self.atom(b)})%Z"
            elif a.ty == "S" and b.ty == "S":
                tx = f"(String.eqb {self.atom(a)} {self.atom(b)})"
            else:
                self.fail(node, f"`{op}` between values of kinds {a.ty} and {b.ty}")
            return out(tx if op == "==" else f"(negb {tx})")
        # ---- order
        if op in ("<", "<=", ">", ">="):
            if a.ty == "Z" and b.ty == "Z":
                x, y = (self.atom(a), self.atom(b)) if op in ("<", "<=") else (self.atom(b), self.atom(a))
                return out(f"({x} {'<?' if op in ('<', '>') else '<=?'} {y})%Z")
            if a.ty == "Q" and b.ty == "Q":
                x, y = (a.tx, b.tx) if op in ("<", "<=") else (b.tx, a.tx)
                return out(f"({'py_q_lt' if op in ('<', '>') else 'py_q_le'} {x} {y})")

            def num(v):
                if v.ty == "V":
                    if not (env.has(v, "cmp") or v.prov == "number"):
                        self.fail(node, "a value is compared that no isinstance guard established to be an int / float / bool")
                    return v.tx
                if v.ty == "Num":
                    return f"(py_of_num {v.tx})"
                if v.ty == "NumA" and env.has(v, "ok"):
                    return f"(py_of_num (numarg_num {v.tx}))"
                self.fail(node, f"`{op}` on a value of kind {v.ty}" + (" without an isinstance guard" if v.ty == "NumA" else ""))
            fn = {"<": "py_lt", "<=": "py_le", ">": "py_gt", ">=": "py_ge"}[op]
            return out(f"({fn} {num(a)} {num(b)})", "RB")
        self.fail(node, f"comparison `{op}`")

    # ------------------------------------------------------------------ calls as statements
    def bind_args(self, node, call, fdef, env, k, skip_self=True):
        """evaluate the arguments of `call` against the signature `fdef`; k gets {parameter: V | None (left out)}"""
        a = fdef.args
        if a.vararg or a.kwarg or a.posonlyargs:
            self.fail(fdef, "*args / **kwargs / positional-only parameters")
        pos = [p.arg for p in a.args][1 if skip_self else 0:]
        kwonly = [p.arg for p in a.kwonlyargs]
        if len(call.args) > len(pos):
            self.fail(call, "too many positional arguments")
        given = {}
        for name, arg in zip(pos, call.args):
            given[name] = arg
        for kw in call.keywords:
            if kw.arg is None or kw.arg not in pos + kwonly or kw.arg in given:
                self.fail(call, f"keyword argument `{kw.arg}`")
            given[kw.arg] = kw.value
        order = list(pos[:len(call.args)]) + [kw.arg for kw in call.keywords]      # the order they are written (= evaluated) in
        # Python evaluates the arguments in the order they are written; they are all pure names / literals here
        vals = {}

        def go(i):
            if i == len(order):
                return k({n: vals.get(n) for n in pos + kwonly})
            return self.expr(given[order[i]], env, lambda v: (vals.__setitem__(order[i], v), go(i + 1))[1])
        return go(0)

    def call_stmt(self, s, c, env, k):
        f = c.func
        fam = self.ctx.fam
        # ---- super().__init__(..)
        if isinstance(f, ast.Attribute) and isinstance(f.value, ast.Call) and isinstance(f.value.func, ast.Name) \
                and f.value.func.id == "super" and not f.value.args and not f.value.keywords:
            if fam != "ctor" or f.attr != "__init__":
                self.fail(c, "super() call other than super().__init__(..) in a constructor")
            if any(env.fields[a] is not None for a, _p, _t in BASE_FIELDS + SPEC_FIELDS) or env.state.get("registered"):
                self.fail(c, "super().__init__(..) after attributes of self were assigned")
            base = BASES[self.ctx.cls][0]
            mod = self.ctx.mod
            if base not in mod.classes:
                self.fail(c, f"super().__init__ of {self.ctx.cls}: the base {base} is outside the module")
            owner, bf = mod.find_method(base, "__init__")
            if bf is None:
                self.fail(c, f"{base} has no __init__ in the module")
            sig = self.method(mod.name, owner, "__init__", "ctor", c)

            def with_args(args):
                txs = []
                for pn, ty in sig["params"]:
                    v = args.get(pn)
                    if v is None:
                        d = sig["defaults"].get(pn)
                        if d is None:
                            self.fail(c, f"super().__init__ called without `{pn}`")
                        txs.append(d)
                    else:
                        txs.append(self.as_param(c, ty, v, env))
                        if pn == "parent" and txs[-1] != env.state["par"]:
                            self.fail(c, "super().__init__ is given another parent than this constructor's own `parent`")
                if "parent" not in [pn for pn, _ in sig["params"]]:
                    self.fail(c, "the base constructor has no `parent`")
                o, pr, ex = self.ctx.fresh("o"), self.ctx.fresh("par"), self.ctx.fresh("e")
                e2 = env.clone()
                for a, proj, t in BASE_FIELDS + SPEC_FIELDS:
                    e2.fields[a] = V(t, f"({proj} {o})", prov=("self" if t == "D" else None))
                e2.state.update(par=pr, reg=f"(o_reg {o})", registered=True, rereg=False)
                e2.refined = {}
                return (f"match {sig['name']} kls id {' '.join(txs)} with\n| MExn {ex} {pr} => MExn {ex} {pr}\n"
                        f"| MOk {pr} {o} =>\n{ind(k(e2))}\nend")
            return self.bind_args(c, c, bf, env, with_args)
        h = self.inlinable(c, env)
        if h is not None:
            # a helper called for what it raises / changes: its value is dropped
            return h(lambda v, out, same: k(out))
        if not isinstance(f, ast.Attribute):
            self.fail(c, f"call statement `{ast.unparse(c)[:60]}`")
        # ---- <map>.get(key).set_value(value)  (the reference may come out of a helper)
        if f.attr == "set_value" and fam == "mset":
            if c.keywords or len(c.args) != 1:
                self.fail(c, "set_value(..) with other than one positional argument")

            def with_ref(r):
                self.ref_mode = False
                try:
                    if r.ty != "P" or not r.prov or r.prov[0] not in ("getref", "get"):
                        self.fail(c, "set_value() on something else than what <map>.get(key) returns")
                    return self.expr(c.args[0], env, lambda v: with_all(V("P", r.prov[1]), V("S", r.prov[2]), v))
                finally:
                    self.ref_mode = True

            def with_all(r, kk, v):
                if r.ty != "P" or r.tx != env.state["root"] or kk.ty != "S" or v.ty != "V":
                    self.fail(c, "get(key).set_value(value) on something else than the model's parameter map")
                self.method("parameters", "InputParameterMap", "get", "lens", c)
                self.need_dispatch("set_value")
                r2, ex = self.ctx.fresh("root"), self.ctx.fresh("e")
                e2 = env.clone()
                e2.state["root"] = r2
                e2.facts = e2.facts | {(r2, "map")}
                e2.fields["_input_parameters"] = V("P", r2)
                return (f"match gen_InputParameterMap_get__upd (fuel_of {self.atom(kk)}) (fun x => gen_dispatch_set_value x {v.tx}) "
                        f"{r.tx} {self.atom(kk)} with\n| MExn {ex} {r2} => MExn {ex} {r2}\n| MOk {r2} _ =>\n{ind(k(e2))}\nend")
            self.ref_mode = True
            try:
                return self.expr(f.value, env, lambda r, *_: with_ref(r))
            finally:
                self.ref_mode = False
        # ---- <map>.add(p)
        if f.attr == "add":
            if c.keywords or len(c.args) != 1:
                self.fail(c, "add() with other than one positional argument")

            def with_recv(r):
                if r.ty != "P" or not env.has(r, "map"):
                    self.fail(c, "add() on something that is not known to be a parameter map")
                return self.expr(c.args[0], env, lambda p: do_add(r, p))

            def do_add(r, p):
                sig = self.method("parameters", "InputParameterMap", "add", "add", c)
                ptx = self.as_param(c, "P", p, env)
                m, ex = self.ctx.fresh("m"), self.ctx.fresh("e")
                e2 = env.clone()
                if fam == "ctor":
                    if p.ty != "Self" or r.prov != ("optparent",) or env.state["par"] != f"(Some {r.tx})":
                        self.fail(c, "add() in a constructor other than <parent>.add(self)")
                    if env.state.get("registered"):
                        self.fail(c, "self is added to the parent twice")
                    e2.state.update(par=f"(Some {m})", reg="true", registered=True)
                    e2.refined = {}
                    e_ex = env.clone()
                    e_ex.state["par"] = f"(Some {m})"
                    return (f"match {sig['name']} {r.tx} {ptx} with\n| MExn {ex} {m} => {self.raise_(c, e_ex, ex)}\n"
                            f"| MOk {m} _ =>\n{ind(k(e2))}\nend")
                if fam == "madd":
                    if r.tx != env.state["root"]:
                        self.fail(c, "add() on something else than the model's parameter map")
                    e2.state["root"] = m
                    e2.fields["_input_parameters"] = V("P", m)
                    e2.facts = e2.facts | {(m, "map")}
                    return (f"match {sig['name']} {r.tx} {ptx} with\n| MExn {ex} {m} => MExn {ex} {m}\n"
                            f"| MOk {m} _ =>\n{ind(k(e2))}\nend")
                self.fail(c, f"add() called in a method of kind {fam}")
            return self.expr(f.value, env, with_recv)
        self.fail(c, f"call statement `{ast.unparse(c)[:60]}`")

    # ------------------------------------------------------------------ methods
    def note_source(self, mod, cls, meth, f, what):
        rec = {"file": str(mod.path.relative_to(REPO)) if str(mod.path).startswith(str(REPO)) else str(mod.path),
               "class": cls, "method": meth, "what": what, "lines": [f.lineno, f.end_lineno],
               "sha1": hashlib.sha1("\n".join(mod.lines[f.lineno - 1:f.end_lineno]).encode("utf-8")).hexdigest()}
        if not any(r["class"] == cls and r["method"] == meth and r["what"] == what for r in self.translated):
            self.translated.append(rec)

    def method(self, modname, cls, name, fam, node=None):
        """translate (once) and return the signature of the generated definition"""
        key = (modname, cls, name, fam)
        if key in self.sigs:
            return self.sigs[key]
        if key in self.failed:
            raise Unsupported(self.ctx.mod.path if self.ctx else self.mods[modname].path, node,
                              f"needs {cls}.{name}, which could not be translated "
                              f"({self.failed[key].what} at line {self.failed[key].lineno})")
        if key in self.stack:
            return {"name": f"gen_{cls}_{name}" + ("__upd" if fam == "lens" else ""), "recursive": True}
        mod = self.mods[modname]
        saved = self.ctx
        mark = (len(self.defs), len(self.translated), len(self.defaults))
        self.stack.append(key)
        try:
            mod.chain(cls)
            f = mod.own_method(cls, name)
            if f is None:
                raise Unsupported(mod.path, mod.classes[cls], f"method {cls}.{name} not found")
            self.ctx = Ctx(mod, cls, name, fam, f)
            want_deco = ["property"] if fam in ("value", "mapvalue") else []
            if [ast.unparse(d) for d in f.decorator_list] != want_deco:
                self.fail(f, f"{cls}.{name}: decorators {[ast.unparse(d) for d in f.decorator_list]}, expected {want_deco}")
            if not f.args.args or f.args.args[0].arg != "self":
                self.fail(f, f"{cls}.{name}: first parameter is not `self`")
            self.scan(f)
            sig = getattr(self, "tr_" + fam)(mod, cls, name, f)
            self.sigs[key] = sig
            self.note_source(mod, cls, name, f, sig["name"])
            return sig
        except Unsupported as exc:
            del self.defs[mark[0]:]
            del self.translated[mark[1]:]
            del self.defaults[mark[2]:]
            self.failed[key] = exc
            raise
        finally:
            self.stack.pop()
            self.ctx = saved

    def params_of(self, f, universe, allow_defaults=False):
        a = f.args
        if a.vararg or a.kwarg or a.posonlyargs:
            self.fail(f, "*args / **kwargs / positional-only parameters")
        if (a.defaults or any(d is not None for d in a.kw_defaults)) and not allow_defaults:
            self.fail(f, "default values of parameters")
        out = []
        for p in a.args[1:] + a.kwonlyargs:
            ty = universe.get(p.arg)
            if ty is None:
                self.fail(p, f"parameter `{p.arg}` of {self.ctx.cls}.{self.ctx.name} has no declared value universe")
            out.append((p.arg, ty))
        return out

    def emit(self, name, header, text):
        self.defs.append((name, header + "\n" + text))

    def header(self, mod, cls, name, f, extra=""):
        return f"(* {cls}.{name}{extra}  -- {mod.path.name} lines {f.lineno}-{f.end_lineno} *)"

    # ---- set_value of the leaf classes / of the map
    def tr_set(self, mod, cls, name, f):
        params = self.params_of(f, {"value": "V"})
        if [p for p, _ in params] != ["value"]:
            self.fail(f, "set_value has other parameters than `value`")
        env = Env()
        env.locals["value"] = V("V", "p_value")
        gname = f"gen_{cls}_set_value"
        if cls == "InputParameterMap":
            self.ctx.fam = "mapset"
            env.fields = {"_children": V("D", "(py_children self)", prov="self"), "_key": V("S", "(pkey self)")}
            text = self.block(self.body_of(f), env, lambda e: self.end(f, e))
            self.emit(gname, self.header(mod, cls, name, f),
                      f"Definition {gname} (self : param) (p_value : pyval) : mres param unit :=\n{ind(text)}.")
            return {"name": gname, "fields": None}
        fields = LEAF_SELF[cls][0]
        for a, t in fields:
            env.fields[a] = V(t, "f" + a)
        env.fields["_value"] = V("V", "f_value")
        text = self.block(self.body_of(f), env, lambda e: self.end(f, e))
        binders = " ".join(f"(f{a} : {GTYPE[t]})" for a, t in fields) + " (f_value : pyval) (p_value : pyval)"
        self.emit(gname, self.header(mod, cls, name, f),
                  f"Definition {gname} {binders} : mres pyval unit :=\n{ind(text)}.")
        return {"name": gname, "fields": [a for a, _ in fields]}

    # ---- the value property
    def tr_value(self, mod, cls, name, f):
        if len(f.args.args) != 1 or f.args.kwonlyargs:
            self.fail(f, "property with parameters")
        env = Env()
        gname = f"gen_{cls}_value"
        if cls == "InputParameterMap":
            self.ctx.fam = "mapvalue"
            env.fields = {"_children": V("D", "(py_children self)", prov="self")}
            text = self.block(self.body_of(f), env, lambda e: self.end(f, e))
            self.emit(gname, self.header(mod, cls, name, f), f"Definition {gname} (self : param) : list param :=\n{ind(text)}.")
        else:
            env.fields = {"_value": V("V", "f_value")}
            text = self.block(self.body_of(f), env, lambda e: self.end(f, e))
            self.emit(gname, self.header(mod, cls, name, f), f"Definition {gname} (f_value : pyval) : pyval :=\n{ind(text)}.")
        return {"name": gname}

    # ---- __lt__
    def tr_lt(self, mod, cls, name, f):
        params = self.params_of(f, {"other": "P"})
        if len(params) != 1:
            self.fail(f, "__lt__ with other than one parameter")
        env = Env()
        env.fields = {"_display_priority": V("Q", "(pprio self)"), "_key": V("S", "(pkey self)")}
        env.locals[params[0][0]] = V("P", "p_other")
        for c in ALL8:
            if mod.own_method(c, "__lt__") is not None:
                self.fail(mod.own_method(c, "__lt__"), f"{c} overrides __lt__ (the sort in add() would dispatch on the class)")
        text = self.block(self.body_of(f), env, lambda e: self.end(f, e))
        gname = f"gen_{cls}___lt__"
        self.emit(gname, self.header(mod, cls, name, f), f"Definition {gname} (self p_other : param) : bool :=\n{ind(text)}.")
        return {"name": gname}

    # ---- InputParameterMap.add
    def map_env(self):
        env = Env()
        env.fields = {"_children": V("D", "ch_0", prov="self"), "_key": V("S", "(pkey self)"),
                      "_display_priority": V("Q", "(pprio self)")}
        return env

    def tr_add(self, mod, cls, name, f):
        params = self.params_of(f, {"input_parameter": "P"})
        if len(params) != 1:
            self.fail(f, "add() with other than one parameter")
        env = self.map_env()
        env.locals[params[0][0]] = V("P", "p_" + params[0][0])
        text = self.block(self.body_of(f), env, lambda e: self.end(f, e))
        gname = f"gen_{cls}_add"
        self.emit(gname, self.header(mod, cls, name, f),
                  f"Definition {gname} (self : param) (p_{params[0][0]} : param) : mres param unit :=\n"
                  f"  let ch_0 := py_children self in\n{ind(text)}.")
        return {"name": gname}

    def fuel_wrap(self, text, out_of_fuel):
        return f"match fuel with\n| O => {out_of_fuel}\n| S fuel' =>\n{ind(text)}\nend"

    # ---- InputParameterMap.get : the lookup, and the update through the reference it returns
    def tr_get(self, mod, cls, name, f, lens=False):
        params = self.params_of(f, {"key": "S"})
        if len(params) != 1:
            self.fail(f, "get() with other than one parameter")
        for c in LEAF:
            if mod.own_method(c, name) is not None:
                self.fail(mod.own_method(c, name), f"{c} defines {name}()")
        env = self.map_env()
        env.locals["key"] = V("S", "p_key")
        self.ctx.fuel = "fuel'"
        text = self.block(self.body_of(f), env, lambda e: self.end(f, e))
        if lens:
            gname = f"gen_{cls}_get__upd"
            body = self.fuel_wrap("let ch_0 := py_children self in\n" + text, "MExn OtherError self")
            self.emit(gname, self.header(mod, cls, name, f, " (update through the returned reference)"),
                      f"Fixpoint {gname} {{A : Type}} (fuel : nat) (f : param -> mres param A) (self : param) (p_key : string) "
                      f": mres param A :=\n{ind(body)}.")
        else:
            gname = f"gen_{cls}_get"
            body = self.fuel_wrap("let ch_0 := py_children self in\n" + text, "Raise OtherError")
            self.emit(gname, self.header(mod, cls, name, f),
                      f"Fixpoint {gname} (fuel : nat) (self : param) (p_key : string) : res param :=\n{ind(body)}.")
        return {"name": gname}

    def tr_lens(self, mod, cls, name, f):
        return self.tr_get(mod, cls, name, f, lens=True)

    def tr_remove(self, mod, cls, name, f):
        params = self.params_of(f, {"key": "S"})
        if len(params) != 1:
            self.fail(f, "remove() with other than one parameter")
        for c in LEAF:
            if mod.own_method(c, name) is not None:
                self.fail(mod.own_method(c, name), f"{c} defines {name}()")
        env = self.map_env()
        env.locals["key"] = V("S", "p_key")
        self.ctx.fuel = "fuel'"
        text = self.block(self.body_of(f), env, lambda e: self.end(f, e))
        gname = f"gen_{cls}_remove"
        body = self.fuel_wrap("let ch_0 := py_children self in\n" + text, "MExn OtherError self")
        self.emit(gname, self.header(mod, cls, name, f),
                  f"Fixpoint {gname} (fuel : nat) (self : param) (p_key : string) : mres param param :=\n{ind(body)}.")
        return {"name": gname}

    # ---- extended_key
    def tr_ext(self, mod, cls, name, f):
        if len(f.args.args) != 1 or f.args.kwonlyargs:
            self.fail(f, "extended_key() with parameters")
        for c in ALL8:
            if mod.own_method(c, name) is not None:
                self.fail(mod.own_method(c, name), f"{c} overrides {name}()")
        env = Env()
        env.fields = {"_key": V("S", "(pkey self)"), "_parent": V("Anc", "anc")}
        self.ctx.fuel = "fuel'"
        text = self.block(self.body_of(f), env, lambda e: self.end(f, e))
        gname = f"gen_{cls}_extended_key"
        self.emit(gname, self.header(mod, cls, name, f),
                  f"Fixpoint {gname} (fuel : nat) (anc : list param) (self : param) : res string :=\n"
                  f"{ind(self.fuel_wrap(text, 'Raise OtherError'))}.")
        return {"name": gname}

    # ---- constructors
    def tr_ctor(self, mod, cls, name, f):
        params = self.params_of(f, PARAM_UNIVERSE, allow_defaults=True)
        a = f.args
        defaults = {}
        pos = a.args[1:]
        for p, d in list(zip(pos[len(pos) - len(a.defaults):], a.defaults)) + \
                [(p, d) for p, d in zip(a.kwonlyargs, a.kw_defaults) if d is not None]:
            src = ast.unparse(d)
            ty = PARAM_UNIVERSE[p.arg]
            exp = EXPECTED_DEFAULTS.get(p.arg)
            if exp is not None and src not in exp:
                self.fail(d, f"default `{src}` of `{p.arg}`: the check passes {' / '.join(exp)} when it leaves the argument out")
            if ty == "NumA" and src in ("-math.inf", "math.inf"):
                term = "(NumOk (NF FNInf))" if src.startswith("-") else "(NumOk (NF FPInf))"
            elif ty == "BA" and src in ("False", "True"):
                term = f"(BoolOk {src.lower()})"
            elif ty == "PO" and src == "None":
                term = "None"
            elif ty == "Ign":
                term = None
            elif ty == "FA" and isinstance(d, ast.Constant) and isinstance(d.value, str):
                term = "FmtOk"
            else:
                self.fail(d, f"default value `{src}` of `{p.arg}`")
            if term is not None:
                defaults[p.arg] = term
                self.defaults.append((cls, p.arg, term, ty))
        env = Env()
        for at, _p, _t in BASE_FIELDS + SPEC_FIELDS:
            env.fields[at] = None
        gparams = []
        for pn, ty in params:
            if ty == "Ign":
                env.locals[pn] = V("Ign")
            else:
                env.locals[pn] = V(ty, "p_" + pn)
                gparams.append((pn, ty))
        if "parent" not in [p for p, _ in gparams]:
            self.fail(f, "constructor without a `parent` parameter")
        env.state = {"par": "p_parent", "reg": "false", "registered": False, "rereg": False}
        text = self.block(self.body_of(f), env, lambda e: self.end(f, e))
        gname = f"gen_{cls}___init__"
        binders = "(kls : pclass) (id : nat) " + " ".join(f"(p_{pn} : {GTYPE[ty]})" for pn, ty in gparams)
        self.emit(gname, self.header(mod, cls, name, f),
                  f"Definition {gname} {binders} : mres (option param) pobj :=\n{ind(text)}.")
        return {"name": gname, "params": gparams, "defaults": defaults}

    # ---- DSOLModel
    def model_env(self):
        env = Env()
        env.fields = {"_input_parameters": V("P", "root")}
        env.facts = frozenset({("root", "map")})
        env.state = {"root": "root"}
        return env

    def model_checks(self, mod, f):
        """self._input_parameters is the root map: assigned in __init__ from InputParameterMap(..) only"""
        _o, init = mod.find_method("DSOLModel", "__init__")
        if init is None:
            self.fail(f, "DSOLModel has no __init__")
        hits = [n for n in ast.walk(init) if isinstance(n, (ast.Assign, ast.AnnAssign)) and any(
            isinstance(t, ast.Attribute) and t.attr == "_input_parameters"
            for t in (n.targets if isinstance(n, ast.Assign) else [n.target]))]
        if len(hits) != 1 or not (isinstance(hits[0].value, ast.Call) and ast.unparse(hits[0].value.func) == "InputParameterMap"):
            self.fail(init, "DSOLModel.__init__ does not make self._input_parameters one InputParameterMap(..)")
        args = [ast.unparse(x) for x in hits[0].value.args]
        if hits[0].value.keywords or len(args) != 3 or args[0] != "'root'" or args[2] != "1" or hits[0] not in init.body:
            self.fail(hits[0], "the root map is not InputParameterMap('root', <name>, 1) (the model's [init])")
        self.note_source(mod, "DSOLModel", "__init__", hits[0], "(one statement) the root map: key 'root', priority 1")

    def tr_mset(self, mod, cls, name, f):
        params = self.params_of(f, {"key": "S", "value": "V"})
        if [p for p, _ in params] != ["key", "value"]:
            self.fail(f, "set_parameter(key, value) expected")
        self.model_checks(mod, f)
        env = self.model_env()
        env.locals.update(key=V("S", "p_key"), value=V("V", "p_value"))
        text = self.block(self.body_of(f), env, lambda e: self.end(f, e))
        gname = f"gen_{cls}_set_parameter"
        self.emit(gname, self.header(mod, cls, name, f),
                  f"Definition {gname} (root : param) (p_key : string) (p_value : pyval) : mres param unit :=\n{ind(text)}.")
        return {"name": gname}

    def tr_mget(self, mod, cls, name, f):
        params = self.params_of(f, {"key": "S"})
        if [p for p, _ in params] != ["key"]:
            self.fail(f, "get_parameter(key) expected")
        self.model_checks(mod, f)
        env = self.model_env()
        env.locals.update(key=V("S", "p_key"))
        text = self.block(self.body_of(f), env, lambda e: self.end(f, e))
        gname = f"gen_{cls}_get_parameter"
        self.emit(gname, self.header(mod, cls, name, f),
                  f"Definition {gname} (root : param) (p_key : string) : res pyres :=\n{ind(text)}.")
        return {"name": gname}

    def tr_madd(self, mod, cls, name, f):
        params = self.params_of(f, {"input_parameter": "P"})
        if len(params) != 1:
            self.fail(f, "add_parameter(input_parameter) expected")
        self.model_checks(mod, f)
        env = self.model_env()
        env.locals[params[0][0]] = V("P", "p_" + params[0][0])
        text = self.block(self.body_of(f), env, lambda e: self.end(f, e))
        gname = f"gen_{cls}_add_parameter"
        self.emit(gname, self.header(mod, cls, name, f),
                  f"Definition {gname} (root : param) (p_{params[0][0]} : param) : mres param unit :=\n{ind(text)}.")
        return {"name": gname}

    # ---- dynamic dispatch on the class of a parameter object (from SCHEMA: which constraint is which class)
    def need_dispatch(self, what):
        name = f"gen_dispatch_{what}"
        if any(n == name for n, _ in self.defs):
            return
        key = ("dispatch", what)
        if key in self.failed:
            raise self.failed[key]
        pm = self.mods["parameters"]
        saved = self.ctx
        try:
            rows = []
            for cls in LEAF:
                owner, f = pm.find_method(cls, what)
                if f is None:
                    raise Unsupported(pm.path, pm.classes[cls], f"{cls} has no {what}")
                fam = "set" if what == "set_value" else "value"
                sig = self.method("parameters", owner, what, fam, f)
                pat = LEAF_SELF[cls][1]
                names = {a: "a" + a for a, _t in LEAF_SELF[cls][0] if a != "_read_only"}
                cpat = pat.format(**names)
                if what == "set_value":
                    args = " ".join("ro" if a == "_read_only" else names.get(a, "?") for a in sig["fields"])
                    if "?" in args:
                        raise Unsupported(pm.path, f, f"{cls} uses {owner}.set_value, which reads attributes {cls} does not have")
                    rows.append(f"| {cpat} => wrap ({sig['name']} {args} v0 v)" +
                                (f"      (* {cls} has no set_value of its own *)" if owner != cls else ""))
                else:
                    rows.append(f"| {cpat} => RV ({sig['name']} v0)" + (f"      (* inherited from {owner} *)" if owner != cls else ""))
            owner, f = pm.find_method("InputParameterMap", what)
            msig = self.method("parameters", owner, what, "set" if what == "set_value" else "value", f)
            if owner != "InputParameterMap":
                raise Unsupported(pm.path, f, f"InputParameterMap has no {what} of its own")
        except Unsupported as exc:
            self.failed[key] = exc
            raise
        finally:
            self.ctx = saved
        if what == "set_value":
            text = (f"Definition {name} (p : param) (v : pyval) : mres param unit :=\n"
                    f"  match p with\n  | Map _ _ => {msig['name']} p v\n  | Leaf h ro c d v0 =>\n"
                    "      let wrap r := match r with\n"
                    "                    | MOk v1 _ => MOk (Leaf h ro c d v1) tt\n"
                    "                    | MExn e v1 => MExn e (Leaf h ro c d v1)\n"
                    "                    end in\n"
                    "      match c with\n" + ind("\n".join(rows), 6) + "\n      end\n  end.")
        else:
            text = (f"Definition {name} (p : param) : pyres :=\n"
                    f"  match p with\n  | Map _ _ => RDict ({msig['name']} p)\n  | Leaf _ _ c _ v0 =>\n"
                    "      match c with\n" + ind("\n".join(rows), 6) + "\n      end\n  end.")
        self.emit(name, f"(* p.{what}: the method of p's class (which constraint belongs to which class: SCHEMA of the translator) *)", text)


def translate(mods: dict, keep_going: bool = False):
    tr = Translator(mods)
    failures = []
    for modname, cls, meth, fam in METHODS:
        try:
            tr.method(modname, cls, meth, fam)
            if fam == "get":
                tr.method(modname, cls, meth, "lens")
        except Unsupported as exc:
            if not keep_going:
                raise
            failures.append({"class": cls, "method": meth, "kind": fam, "file": exc.src, "line": exc.lineno,
                             "construct": exc.what, "error": str(exc)})
    for what in ("set_value", "value"):
        try:
            tr.need_dispatch(what)
        except Unsupported as exc:
            if not keep_going:
                raise
            failures.append({"class": None, "method": f"dispatch of {what}", "kind": "dispatch", "file": exc.src,
                             "line": exc.lineno, "construct": exc.what, "error": str(exc)})
    return tr, failures


def render(tr: Translator, shas: dict) -> str:
    out = ["(* GENERATED by translator/py2gallina_params.py from src/pydsol/core/parameters.py and model.py -- do not edit.",
           "   sha1 of the source files (line ends normalised): " + ", ".join(f"{k} {v}" for k, v in sorted(shas.items())),
           "   Shallow embedding of the method bodies over the types of Params.Model; see the translator for the",
           "   subset and its meaning.  Params/GenAgree.v proves every definition equal to the hand-written model. *)",
           "From Coq Require Import ZArith QArith List Bool String Ascii.",
           "From PV Require Import Params.Model.",
           "Import ListNotations.",
           "Local Open Scope list_scope.",
           PRELUDE]
    for _name, d in tr.defs:
        out.append(d)
        out.append("")
    seen = set()
    out.append("(* default values of the constructors' keyword arguments, as written in the source *)")
    for cls, pn, term, ty in tr.defaults:
        nm = f"gen_{cls}_default_{pn}"
        if nm in seen:
            continue
        seen.add(nm)
        out.append(f"Definition {nm} : {GTYPE[ty]} := {term}.")
    return "\n".join(out) + "\n"


def read_source(path: Path):
    raw = path.read_bytes()
    text = raw.decode("utf-8", errors="replace").replace("\r\n", "\n").replace("\r", "\n")
    return text, hashlib.sha1(text.encode("utf-8")).hexdigest()


def main(argv):
    out_dir, keep_going, i = None, False, 0
    while i < len(argv):
        if argv[i] == "--out" and i + 1 < len(argv):
            out_dir = Path(argv[i + 1])
            i += 2
        elif argv[i] == "--keep-going":
            keep_going = True
            i += 1
        else:
            print(f"usage: {sys.argv[0]} [--out DIR [--keep-going]]", file=sys.stderr)
            return 64
    keep_going = keep_going and out_dir is not None

    def report(info):
        if out_dir is not None:
            out_dir.mkdir(parents=True, exist_ok=True)
            (out_dir / "Gen_Params.json").write_text(json.dumps(info, indent=1) + "\n")

    base = {"repo": str(REPO), "sources": {k: str(v) for k, v in FILES.items()}}
    texts, shas = {}, {}
    for k, p in FILES.items():
        try:
            texts[k], shas[k] = read_source(p)
        except OSError as exc:
            print(f"py2gallina_params: cannot read {p}: {exc}", file=sys.stderr)
            report({**base, "ok": False, "methods": [], "failures": [
                {"class": None, "method": None, "file": str(p), "line": 0, "construct": "unreadable source", "error": str(exc)}]})
            return 2
    base["source_sha1"] = shas

    def whole_failure(path, line, what, msg):
        print(f"py2gallina_params: TRANSLATION FAILED\n{msg}", file=sys.stderr)
        report({**base, "ok": False, "methods": [], "failures": [
            {"class": None, "method": None, "file": str(path), "line": line, "construct": what, "error": msg}]})
        return 2
    mods = {}
    for k, p in FILES.items():
        try:
            mods[k] = Module(k, p, texts[k])
        except Unsupported as exc:
            return whole_failure(p, exc.lineno, exc.what, str(exc))
        except SyntaxError as exc:
            return whole_failure(p, exc.lineno or 0, "syntax error", f"{p}:{exc.lineno}: unsupported construct: syntax error: {exc.msg}")
    try:
        tr, failures = translate(mods, keep_going)
    except Unsupported as exc:
        return whole_failure(exc.src, exc.lineno, exc.what, str(exc))
    gen = render(tr, shas)
    target = (out_dir or (VERIF / "coq" / "Params")) / "Gen_Params.v"
    target.parent.mkdir(parents=True, exist_ok=True)
    if not target.exists() or target.read_text() != gen:
        target.write_text(gen)
    h = hashlib.sha1()
    for r in sorted(tr.translated, key=lambda r: (r["file"], r["lines"][0], r["what"])):
        h.update((r["what"] + ":" + r["sha1"] + "\n").encode())
    info = {**base, "ok": not failures, "translated_text_sha1": h.hexdigest(),
            "generated_sha1": hashlib.sha1(gen.encode()).hexdigest(), "definitions": [n for n, _ in tr.defs],
            "methods": tr.translated, "failures": failures}
    report(info)
    for f in failures:
        print(f"py2gallina_params: TRANSLATION FAILED ({f['class']}.{f['method']} left out)\n{f['error']}", file=sys.stderr)
    print(f"py2gallina_params: {len(tr.defs)} definitions from {CORE} -> {target} "
          f"(translated text sha1 {info['translated_text_sha1'][:12]})")
    return 2 if failures else 0


if __name__ == "__main__":
    sys.exit(main(sys.argv[1:]))
