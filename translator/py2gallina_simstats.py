#!/usr/bin/env python3
"""py2gallina_simstats.py -- regenerate the Gallina text of the simulation statistics from the source.

Reads, with Python's `ast` module (the modules under test are never imported; CRLF line ends are
normalised), of the tree in $VERIF_REPO (default /repo):

  src/pydsol/core/statistics.py   EventBasedCounter / EventBasedTally / EventBasedWeightedTally /
                                  EventBasedTimestampWeightedTally and SimCounter / SimTally /
                                  SimWeightedTally / SimPersistent: __init__, listen_to, notify,
                                  register, initialize, _fire_events, _fire_initialized, and
                                  TimestampWeightedTally.end_observations as the event-based classes
                                  inherit it (its `self.register` is the publishing one);
  src/pydsol/core/model.py        DSOLModel.__init__ (the dictionary), output_statistics,
                                  add_output_statistic, get_output_statistic;
  src/pydsol/core/simulator.py    of Simulator.initialize the statements about the model
                                  (`model.output_statistics().clear()`, `model.construct_model()`),
                                  in their order;
  pubsub.py / interfaces.py       class names, bases and method names only (method resolution).

and writes Gen_SimStats.v: one definition per (concrete class, method) over the state / log /
publication conventions of coq/Stats/SimStats.v.  coq/Stats/SimGenAgree.v proves every generated
definition equal to the hand-written model.

Method resolution is done here, statically, per CONCRETE class C (C3 linearisation computed from
the class statements): `self.m(..)` is the first m in C's MRO, `super().m(..)` the next one after
the class the text stands in, `P.m(self, ..)` the m found from P on.  An inherited method is
therefore translated once per concrete class it is reached from:
    gen_<C>_<m>              the m that `self.m` means for an object of class C
    gen_<C>_super_<O>_<m>    O.m reached by super() / an explicit parent call although C overrides m
Calls that resolve to EventProducer (fire, fire_timed, has_listeners, add_listener, __init__) and to
the ordinary statistics Counter / Tally / WeightedTally / TimestampWeightedTally (register,
initialize, __init__, the query methods, the attributes _last_value / _active) are the primitives
of the prelude resp. the hand-written functions of Stats/Tally.v, Weighted.v, Timestamp.v (those
classes are translated and proved equal to these functions by translator/py2gallina_stats.py +
Stats/GenAgree.v, the second tie of C09 / C10).

The translation is a shallow embedding and FAIL-CLOSED: a construct outside the subset below ends
the run with exit status 2 and `file:line: unsupported construct: ...`.  Nothing is skipped or
guessed.  With --keep-going (checks only) the definition concerned -- and every definition that
calls it -- is left out and reported ("hand-transcribed only"); the exit status is non-zero all
the same.

Supported subset
  publishing methods (notify, register, initialize, _fire_events, _fire_initialized,
  end_observations): the object is threaded through the statements in program order
  (`do x' <- <statement> x ;; <rest>`: the rest is not reached while an exception propagates)
    statements   docstring; `if / elif / else`; `raise X(..)`; `pass`; `v = e`;
                 `self.fire(StatEvents.E, e)`, `self.fire_timed(t, StatEvents.E, e)`: e is evaluated
                 at that point of the program, on the object as it is then, before the event is
                 delivered; `self.m(..)`, `super().m(..)`, `P.m(self, ..)`; `self._active = False`
    expressions  parameters, locals, `self` (as payload), `True` / `False`;
                 `event.event_type`, `event.content`, `event.content[0|1]`, `event.timestamp`;
                 `StatEvents.E`, `ReplicationInterface.E`, `SimulatorInterface.E`;
                 `self._event_types`, `self._last_value`, `self.simulator.simulator_time` (property
                 `simulator` must be `return self._simulator`); query methods of the ordinary
                 statistic `self.n()`, `self.stdev(False)`, ..; `float(e)` (raises where Python's
                 does); `len(e)`; `Event(t, c)`, `TimedEvent(ts, t, c)`; `isinstance(e, T)`;
                 `==`, `!=`, `in`, `not in`, `not`, `and`, `or`; `self.has_listeners()`
  constructors (__init__, listen_to): the listener tables of the simulator and of the producer,
  the model's dictionary and the attributes of the new object are threaded
    statements   `if`, `raise`, `self._simulator = simulator`, `self._key = key`,
                 `self._event_types[: T] = {StatEvents.E}`, `self._event_types.add(et)`,
                 `simulator.add_listener(X.E, self)`, `producer.add_listener(et, self)`,
                 `P.__init__(self, ..)`, `self.listen_to(..)`,
                 `simulator.model.add_output_statistic(key, self)`
    expressions  `isinstance(p, T)`, `p != None`, `p == None`, `p is [not] None`,
                 `simulator.model != None`, `not`, `and`, `or`
  DSOLModel      `self._output_statistics[: T] = {}`, `return self._output_statistics` (the dict
                 itself; `dict(..)` / `.copy()` is a new dict), `k in d`, `d[k] = v`, `return d[k]`,
                 `isinstance(statistic, StatisticsInterface)`, `raise`
  in all three kinds of method, so that behaviour-preserving rewrites translate to the same or provably equal text:
    helpers      a call of a module-level function of the module under translation, or of a method of its classes
                 that is not part of the translated interface (`self._h(..)`, `super()._h(..)`, `P._h(self, ..)`,
                 static methods), is INLINED: arguments are evaluated in the caller, left to right, and bound to the
                 parameters (keywords, constant defaults); the helper's `return`s become the control flow / the
                 value of the call (statement, `v = h(..)`, `if [not] h(..):`; inside a larger expression only a
                 helper that is one `return <expression>`).  Refused with file:line: recursion, *args / **kwargs /
                 keyword-only parameters, decorators other than staticmethod.
    control flow `return` / `return None` anywhere (guard clause + early return == nested if/else: the rest of a block is
                 handed to both branches of an `if` that may return; otherwise the branches are joined and the rest
                 follows once); conditional expressions `a if c else b` of pure operands
    locals       `v = <expression>` is let-bound at that point of the program (a query method's answer with its
                 possible exception: `py_eval`), so hoisting a PURE sub-expression changes nothing, while reading
                 the object earlier than the source did before changes the text
    tests        `isinstance(e, A) or isinstance(e, B)` / `not .. and not ..` on one expression == the tuple form;
                 `is` / `is not` on event types and None; De Morgan forms are different text but equal by the case
                 analysis of the agreement proofs
    messages     the text of an exception / a logger call (f-strings, `+`, `%`, adjacent literals, a local holding it)
                 is evaluated but has no effect: it may only format names, attributes and literals
Meaning given to them: see the prelude written into the generated file (PRELUDE below).

Trusted (joins the trusted base of C11): this file -- the subset semantics above, the method
resolution -- and its tables: SIG (value universe of every parameter), EVENTS (index of each
published event type per kind of statistic, the numbering of harness/c11_impl.py), QUERIES (the
model function behind each query method), the attribute tables.

usage: py2gallina_simstats.py [--out DIR [--keep-going]]
       default DIR: <verif>/coq/Stats, file Gen_SimStats.v; with --out also Gen_SimStats.json.
"""
from __future__ import annotations

import ast
import hashlib
import json
import os
import sys
import warnings
from pathlib import Path

VERIF = Path(__file__).resolve().parent.parent
REPO = Path(os.environ.get("VERIF_REPO", "/repo"))
CORE = REPO / "src" / "pydsol" / "core"
FILES = {"statistics": "statistics.py", "model": "model.py", "simulator": "simulator.py",
         "pubsub": "pubsub.py", "interfaces": "interfaces.py"}
REL = {k: "src/pydsol/core/" + v for k, v in FILES.items()}

# ---------------------------------------------------------------------------------------------- tables
PLAIN = {"Counter": "KCounter", "Tally": "KTally", "WeightedTally": "KWeighted", "TimestampWeightedTally": "KPersistent"}
KIND_ORDER = ["TimestampWeightedTally", "WeightedTally", "Tally", "Counter"]     # most derived first
# per kind: Coq type of the ordinary statistic's state, injection into SimStats.sstate, initial state
STATE = {"KCounter": ("cstate", "SC", "cinit"), "KTally": ("(tstate N)", "ST", "(tinit N)"),
         "KWeighted": ("(wstate N)", "SW", "(winit N)"), "KPersistent": ("(tsstate N)", "SP", "(tsinit N)")}
STD = {"KCounter": "ETData", "KTally": "ETData", "KWeighted": "ETWeightData", "KPersistent": "ETTimestampData"}
CONCRETE = ["EventBasedCounter", "EventBasedTally", "EventBasedWeightedTally", "EventBasedTimestampWeightedTally",
            "SimCounter", "SimTally", "SimWeightedTally", "SimPersistent"]
PUB_METHODS = ["_fire_events", "register", "_fire_initialized", "initialize", "end_observations", "notify"]
CTOR_METHODS = ["__init__", "listen_to"]
# value universe of the parameters (after self), per kind where it differs
SIG = {
    "register": {"KCounter": ["Cobs"], "KTally": ["Num"], "KWeighted": ["Num", "Num"], "KPersistent": ["Num", "Num"]},
    "_fire_events": {"KCounter": ["Cobs"], "KTally": ["Num"], "KWeighted": ["Num"], "KPersistent": ["Num", "Num"]},
    "_fire_initialized": [], "initialize": [], "end_observations": ["Num"], "notify": ["Event"],
}
GTYPE = {"Cobs": "cobs", "Num": "pyarg (F N)", "Event": "sevent N", "Key": "pykey", "Name": "pynm", "SimArg": "pysim",
         "ProdArg": "pyprod", "EtArg": "pyetarg", "Stat": "pystat", "DKey": "nat"}
# data / lifecycle event types
ETYPES = {("StatEvents", "DATA_EVENT"): "ETData", ("StatEvents", "WEIGHT_DATA_EVENT"): "ETWeightData",
          ("StatEvents", "TIMESTAMP_DATA_EVENT"): "ETTimestampData",
          ("ReplicationInterface", "WARMUP_EVENT"): "ETWarmup",
          ("ReplicationInterface", "END_REPLICATION_EVENT"): "ETEndRepl",
          ("ReplicationInterface", "START_REPLICATION_EVENT"): "(ETSim 0)",
          ("SimulatorInterface", "STARTING_EVENT"): "(ETSim 1)", ("SimulatorInterface", "START_EVENT"): "(ETSim 2)",
          ("SimulatorInterface", "TIME_CHANGED_EVENT"): "(ETSim 3)", ("SimulatorInterface", "STOPPING_EVENT"): "(ETSim 4)",
          ("SimulatorInterface", "STOP_EVENT"): "(ETSim 5)"}
# index of the events a statistic publishes (harness/c11_impl.py EVENT_NAMES, SimStats.pubval)
_T = ["INITIALIZED_EVENT", "OBSERVATION_ADDED_EVENT", "N_EVENT", "MIN_EVENT", "MAX_EVENT", "SUM_EVENT", "MEAN_EVENT",
      "POPULATION_STDEV_EVENT", "POPULATION_VARIANCE_EVENT", "POPULATION_SKEWNESS_EVENT", "POPULATION_KURTOSIS_EVENT",
      "POPULATION_EXCESS_K_EVENT", "SAMPLE_STDEV_EVENT", "SAMPLE_VARIANCE_EVENT", "SAMPLE_SKEWNESS_EVENT",
      "SAMPLE_KURTOSIS_EVENT", "SAMPLE_EXCESS_K_EVENT"]
_W = ["INITIALIZED_EVENT", "OBSERVATION_ADDED_EVENT", "N_EVENT", "MIN_EVENT", "MAX_EVENT", "WEIGHTED_SUM_EVENT",
      "WEIGHTED_MEAN_EVENT", "WEIGHTED_POPULATION_STDEV_EVENT", "WEIGHTED_POPULATION_VARIANCE_EVENT",
      "WEIGHTED_SAMPLE_STDEV_EVENT", "WEIGHTED_SAMPLE_VARIANCE_EVENT"]
EVENTS = {"KCounter": ["INITIALIZED_EVENT", "OBSERVATION_ADDED_EVENT", "N_EVENT", "COUNT_EVENT"], "KTally": _T,
          "KWeighted": _W, "KPersistent": _W}
# query methods of the ordinary statistics: (owner, method) -> (model function applied to the owner's state,
# takes `biased`, constructor of SimStats.pval)
QUERIES = {
    ("Counter", "n"): ("cn", False, "PVInt"), ("Counter", "count"): ("ccount", False, "PVInt"),
    ("Tally", "n"): ("g_n N", False, "PVInt"), ("Tally", "min"): ("g_min N", False, "PVX"),
    ("Tally", "max"): ("g_max N", False, "PVX"), ("Tally", "sum"): ("g_sum N", False, "PVNum"),
    ("Tally", "mean"): ("g_mean N", False, "PVRes"), ("Tally", "stdev"): ("g_stdev N", True, "PVRes"),
    ("Tally", "variance"): ("g_variance N", True, "PVRes"), ("Tally", "skewness"): ("g_skewness N", True, "PVRes"),
    ("Tally", "kurtosis"): ("g_kurtosis N", True, "PVRes"),
    ("Tally", "excess_kurtosis"): ("g_excess_kurtosis N", True, "PVRes"),
    ("WeightedTally", "n"): ("gw_n N", False, "PVInt"), ("WeightedTally", "min"): ("gw_min N", False, "PVX"),
    ("WeightedTally", "max"): ("gw_max N", False, "PVX"), ("WeightedTally", "weighted_sum"): ("gw_sum N", False, "PVNum"),
    ("WeightedTally", "weighted_mean"): ("gw_mean N", False, "PVRes"),
    ("WeightedTally", "weighted_stdev"): ("gw_stdev N", True, "PVRes"),
    ("WeightedTally", "weighted_variance"): ("gw_variance N", True, "PVRes"),
}
# register / initialize of the ordinary statistics: model function, applied to the owner's state
PLAIN_REGISTER = {"Counter": "cregister", "Tally": "tregister N", "WeightedTally": "wregister N",
                  "TimestampWeightedTally": "tsregister N"}
PLAIN_INIT = {"Counter": "cinit", "Tally": "(tinit N)", "WeightedTally": "(winit N)", "TimestampWeightedTally": "(tsinit N)"}
PLAIN_REG_SIG = {"Counter": ["Cobs"], "Tally": ["Num"], "WeightedTally": ["Num", "Num"], "TimestampWeightedTally": ["Num", "Num"]}
# attributes of TimestampWeightedTally read / written by the translated methods
TS_READ = {"_last_value": ("Num", "(ONum (ts_lastval (g_state {x})))")}
TS_WRITE = {"_active": ("Bool", "(fun s => mkTSt (ts_w s) (ts_start s) (ts_last s) (ts_lastval s) {v})")}
RAISES = {"TypeError": "CTypeError", "DSOLError": "CDSOLError", "KeyError": "CKeyError"}
PUB_RAISES = ("TypeError", "ValueError", "DSOLError", "EventError", "KeyError", "OverflowError", "ZeroDivisionError")
# hand-transcribed only (never translated): said in the coverage record of the check
HAND_ONLY = [
    "the subscriber of a statistic's own events (a queue of reactions: SimStats.deliver / prelude py_notify_listener) and the "
    "nesting budget of its re-entrant registrations (SimGenAgree.gen_react_*) - harness artefacts, EventListener.notify is abstract",
    "EventProducer.fire / fire_timed / has_listeners / add_listener of the statistic, the simulator and the model's producer "
    "(prelude py_fire, py_has_listeners, py_sim_add_listener, py_prod_add_listener; the class itself is tied by C08's translation); "
    "a fire on the model's producer stops at the first listener that raises (SimStats.recipients)",
    "Counter / Tally / WeightedTally / TimestampWeightedTally register, initialize, __init__ and query methods: the functions of "
    "Stats/Tally.v, Weighted.v, Timestamp.v (tied by translator/py2gallina_stats.py + Stats/GenAgree.v, C09 / C10)",
    "the simulator producing the observation log and the order of its events (Sim/Model.v, tied by translator/py2gallina_sim.py, C02-C05); "
    "of Simulator.initialize only the two statements about the model are read here",
    "construct_model of the harness (SimStats.construct / build_from: which constructor and listen_to calls create a declared "
    "statistic) and the composition of the translated methods over a whole log (SimGenAgree.gen_stat_run)",
    "the ghost log of operations ps_regs (agreement is stated after erasing it) and the comparison functions of the correspondence",
]

PRELUDE = r"""
(* ---- fixed prelude: Python primitives on the value universe of Stats/SimStats.v ---- *)
Section GenPrelude.
  Variable N : Num.
  Variable S : Type.                 (* state of the ordinary statistic the class extends *)

  (* the object `self` of a publishing statistic: the ordinary statistic's attributes, the
     subscriber's pending reactions, everything delivered so far (newest first), "an exception
     is propagating", "the nesting budget of the model ran out" *)
  Record gst := mkG {
    g_state : S;
    g_q : list (option (payload N));
    g_tr : list (pubrec N);
    g_raised : bool;
    g_nofuel : bool
  }.
  Definition set_gstate (s : S) (x : gst) : gst := mkG s (g_q x) (g_tr x) (g_raised x) (g_nofuel x).
  Definition set_gnofuel (x : gst) : gst := mkG (g_state x) (g_q x) (g_tr x) (g_raised x) true.
  (* raise ... *)
  Definition py_raise (x : gst) : gst := mkG (g_state x) (g_q x) (g_tr x) true (g_nofuel x).
  (* s1; s2  -- s2 is not reached while an exception propagates *)
  Definition py_then (x : gst) (k : gst -> gst) : gst := if g_raised x then x else k x.

  (* what is fixed during one notification: the event types (by index) of this statistic that
     have a listener, the listener's reaction (it may call register), float(simulator_time),
     self._event_types *)
  Record genv := mkEnv {
    e_lsub : list nat;
    e_react : gst -> payload N -> gst;
    e_tm : F N;
    e_types : list etype
  }.

  (* super().register(..) / X.initialize(self) of the ordinary statistic *)
  Definition py_plain (o : outcome S) (x : gst) : gst :=
    match o with Ok s => set_gstate s x | Exn _ s => py_raise (set_gstate s x) end.
  (* self._attr = v  on an attribute of the ordinary statistic *)
  Definition py_update (f : S -> S) (x : gst) : gst := set_gstate (f (g_state x)) x.
  (* v = <query method>(): the query may raise *)
  Definition py_eval (v : pval N) (x : gst) (k : gst) : gst := if pv_raises N v then py_raise x else k.
  (* EventProducer.has_listeners *)
  Definition py_has_listeners (E : genv) : bool := match e_lsub E with [] => false | _ => true end.

  Variable inj : S -> sstate N.      (* how that state reads in the model *)
  Definition emb (x : gst) (regs : list (bool * sop N)) : pst N :=
    mkPst (inj (g_state x)) (g_q x) (g_tr x) regs (g_raised x) (g_nofuel x).
  (* listener.notify(event j carrying v): recorded with the state at that moment, then the
     listener's next reaction *)
  Definition py_notify_listener (E : genv) (j : nat) (v : pval N) (x : gst) : gst :=
    let x1 := mkG (g_state x) (g_q x) (mkPub j v (inj (g_state x)) :: g_tr x) (g_raised x) (g_nofuel x) in
    match g_q x1 with
    | [] => x1
    | None :: q => mkG (g_state x1) q (g_tr x1) (g_raised x1) (g_nofuel x1)
    | Some p :: q => e_react E (mkG (g_state x1) q (g_tr x1) (g_raised x1) (g_nofuel x1)) p
    end.
  (* self.fire(EVENT_j, v): v was evaluated by the caller (and may have raised) *)
  Definition py_fire (E : genv) (j : nat) (v : pval N) (x : gst) : gst :=
    if pv_raises N v then py_raise x
    else if memn j (e_lsub E) then py_notify_listener E j v x else x.
  (* self.fire_timed(t, EVENT_j, v): the time stamp of a published event is not in the model *)
  Definition py_fire_timed {T : Type} (E : genv) (t : T) (j : nat) (v : pval N) (x : gst) : gst :=
    py_fire E j v x.
End GenPrelude.
Arguments mkG {N S} _ _ _ _ _.
Arguments g_state {N S} _.
Arguments g_q {N S} _.
Arguments g_tr {N S} _.
Arguments g_raised {N S} _.
Arguments g_nofuel {N S} _.
Arguments set_gstate {N S} _ _.
Arguments set_gnofuel {N S} _.
Arguments py_raise {N S} _.
Arguments py_then {N S} _ _.
Arguments mkEnv {N S} _ _ _ _.
Arguments e_lsub {N S} _.
Arguments e_react {N S} _.
Arguments e_tm {N S} _.
Arguments e_types {N S} _.
Arguments py_plain {N S} _ _.
Arguments py_update {N S} _ _.
Arguments py_eval {N S} _ _ _.
Arguments py_has_listeners {N S} _.
Arguments emb {N S} _ _ _.
Arguments py_notify_listener {N S} _ _ _ _ _.
Arguments py_fire {N S} _ _ _ _ _.
Arguments py_fire_timed {N S} _ {T} _ _ _ _ _.
Notation "'do' x '<-' e ';;' k" := (py_then e (fun x => k))
  (at level 200, x name, e at level 100, k at level 200, right associativity).

Section GenValues.
  Variable N : Num.
  (* events: isinstance(event, Event) holds for everything notify is called with;
     a TimedEvent is an event with a time stamp *)
  Definition py_is_event (e : sevent N) : bool := true.
  Definition py_is_timed_event (e : sevent N) : bool :=
    match ne_stamp e with Some _ => true | None => false end.
  Definition py_timestamp (e : sevent N) : pyarg (F N) :=
    match ne_stamp e with Some t => ONum t | None => ONotNumber end.
  Definition py_Event (ty : etype) (c : payload N) : sevent N := mkSev ty c None.
  Definition py_TimedEvent (t : F N) (ty : etype) (c : payload N) : sevent N := mkSev ty c (Some t).
  (* the content of a data event: what a counter reads (an int or not), what a tally reads (a
     number or not), what a weighted tally reads (a pair; anything else is represented by a pair
     whose weight is not a number) *)
  Definition py_content_is_int (c : payload N) : bool := match p_c c with CInt _ => true | CNotInt => false end.
  Definition py_content_is_tuple (c : payload N) : bool := true.
  Definition py_content_len (c : payload N) : nat := 2.
  (* isinstance(x, (float, int)); float(x) is defined for numbers within the float range *)
  Definition py_is_number (o : pyarg (F N)) : bool := match o with ONotNumber => false | _ => true end.
  Definition py_float_ok (o : pyarg (F N)) : bool := match o with ONum _ | ONaN => true | _ => false end.
  Definition py_time_float (t : F N) : pyarg (F N) := ONum t.
End GenValues.
Arguments py_is_event {N} _.
Arguments py_is_timed_event {N} _.
Arguments py_timestamp {N} _.
Arguments py_Event {N} _ _.
Arguments py_TimedEvent {N} _ _ _.
Arguments py_content_is_int {N} _.
Arguments py_content_is_tuple {N} _.
Arguments py_content_len {N} _.
Arguments py_is_number {N} _.
Arguments py_float_ok {N} _.
Arguments py_time_float {N} _.

(* constructor arguments *)
Definition py_key_is_str (k : pykey) : bool := match k with KStr _ => true | KNotStr => false end.
Definition py_key_str (k : pykey) : nat := match k with KStr n => n | KNotStr => O end.
Definition py_is_simulator (s : pysim) : bool := match s with SimObj _ => true | NotSim => false end.
Definition py_sim_has_model (s : pysim) : bool := match s with SimObj b => b | NotSim => false end.
Definition py_prod_is_none (p : pyprod) : bool := match p with ProdNone => true | _ => false end.
Definition py_is_producer (p : pyprod) : bool := match p with ProdObj => true | _ => false end.
Definition py_et_is_none (e : pyetarg) : bool := match e with EtNone => true | _ => false end.
Definition py_is_event_type (e : pyetarg) : bool := match e with EtObj _ => true | _ => false end.
Definition py_et (e : pyetarg) : etype := match e with EtObj t => t | _ => ETData end.
Definition py_is_statistic (s : pystat) : bool := match s with StatObj _ => true | NotStat => false end.
Definition py_stat_id (s : pystat) : nat := match s with StatObj n => n | NotStat => O end.
(* s1; s2 in a constructor / in a method of the model *)
Definition c_then (r : cres) (k : cobj -> cres) : cres := match r with COk c => k c | CExn e c => CExn e c end.
Definition d_then (r : dres) (k : registry -> dres) : dres := match r with DOk d => k d | DExn e d => DExn e d end.
(* simulator.add_listener(et, self) / producer.add_listener(et, self) *)
Definition py_sim_add_listener (e : etype) (l : nat) (c : cobj) : cobj :=
  mkCo (add_sub e l (co_sim c)) (co_prod c) (co_dict c) (co_types c) (co_key c) (co_plain c).
Definition py_prod_add_listener (e : etype) (l : nat) (c : cobj) : cobj :=
  mkCo (co_sim c) (add_sub e l (co_prod c)) (co_dict c) (co_types c) (co_key c) (co_plain c).
(* self._event_types = {..} / self._event_types.add(et) / self._key = key *)
Definition py_set_types (s : list etype) (c : cobj) : cobj :=
  mkCo (co_sim c) (co_prod c) (co_dict c) s (co_key c) (co_plain c).
Definition py_types_add (e : etype) (c : cobj) : cobj := py_set_types (set_add e (co_types c)) c.
Definition py_set_key (n : nat) (c : cobj) : cobj :=
  mkCo (co_sim c) (co_prod c) (co_dict c) (co_types c) (Some n) (co_plain c).
(* EventProducer.__init__(self): no listeners yet *)
Definition py_producer_init (c : cobj) : cres := COk c.
(* Counter / Tally / WeightedTally / TimestampWeightedTally.__init__(self, name): TypeError unless
   name is a str, else the initial state of that statistic *)
Definition py_plain_init (k : skind) (nm : pynm) (c : cobj) : cres :=
  match nm with
  | NmStr => COk (mkCo (co_sim c) (co_prod c) (co_dict c) (co_types c) (co_key c) (Some k))
  | NmOther => CExn CTypeError c
  end.
(* a method of the model called on simulator.model *)
Definition py_on_model (r : dres) (c : cobj) : cres :=
  match r with DOk d => COk (co_set_dict d c) | DExn e d => CExn e (co_set_dict d c) end.
(* the model's dictionary: a Python dict in insertion order *)
Definition py_dict_has (d : registry) (k : nat) : bool := match reg_get k d with Some _ => true | None => false end.
Fixpoint py_dict_set (d : registry) (k v : nat) : registry :=
  match d with
  | [] => [(k, v)]
  | (k', v') :: r => if Nat.eqb k' k then (k', v) :: r else (k', v') :: py_dict_set r k v
  end.
Definition py_dict_getitem (d : registry) (k : nat) : option nat := reg_get k d.     (* None: KeyError *)
(* what a method returning a dict hands out: the object's own dict, or a new one *)
Inductive dictval := DSelf | DCopy (d : registry).
Definition py_dict_clear (v : dictval) (own : registry) : registry :=
  match v with DSelf => [] | DCopy _ => own end.
"""


# ---------------------------------------------------------------------------------------------- source
class Unsupported(Exception):
    def __init__(self, file, node, what):
        self.file = file
        self.lineno = (node if isinstance(node, int) else getattr(node, "lineno", 0)) or 0
        self.what = what
        super().__init__(f"{CORE / FILES.get(file, file)}:{self.lineno}: unsupported construct: {what}")


class Source:
    """the five modules, parsed; class table; C3 method resolution"""

    def __init__(self):
        self.text, self.tree, self.sha = {}, {}, {}
        self.classes = {}        # name -> (file key, ClassDef)
        for key, fname in FILES.items():
            raw = (CORE / fname).read_bytes()
            text = raw.decode("utf-8", errors="replace").replace("\r\n", "\n").replace("\r", "\n")
            self.text[key] = text
            self.sha[key] = hashlib.sha1(text.encode("utf-8")).hexdigest()
            with warnings.catch_warnings():
                warnings.simplefilter("ignore")
                try:
                    self.tree[key] = ast.parse(text)
                except SyntaxError as exc:
                    raise Unsupported(key, exc.lineno or 0, f"syntax error: {exc.msg}")
            for node in self.tree[key].body:
                if isinstance(node, ast.ClassDef):
                    if node.name in self.classes:
                        raise Unsupported(key, node, f"class {node.name} defined twice (also in {self.classes[node.name][0]})")
                    self.classes[node.name] = (key, node)
        self._mro = {}

    def lines(self, key, a, b):
        return "\n".join(self.text[key].split("\n")[a - 1:b])

    def bases(self, cname):
        if cname not in self.classes:
            return []                       # ABC, Generic, Exception, object: leaves without methods of interest
        key, node = self.classes[cname]
        out = []
        for b in node.bases:
            if isinstance(b, ast.Name):
                out.append(b.id)
            elif isinstance(b, ast.Subscript) and isinstance(b.value, ast.Name):
                out.append(b.value.id)      # Generic[TIME]
            else:
                raise Unsupported(key, node, f"base class expression `{ast.unparse(b)}` of {cname}")
        if node.keywords:
            raise Unsupported(key, node, f"class keywords of {cname}")
        return out

    def mro(self, cname):
        if cname in self._mro:
            return self._mro[cname]
        bs = self.bases(cname)
        seqs = [list(self.mro(b)) for b in bs] + [list(bs)]
        res = [cname]
        while any(seqs):
            seqs = [s for s in seqs if s]
            for s in seqs:
                cand = s[0]
                if not any(cand in t[1:] for t in seqs):
                    break
            else:
                key = self.classes[cname][0] if cname in self.classes else "statistics"
                raise Unsupported(key, self.classes[cname][1] if cname in self.classes else 0,
                                  f"no consistent method resolution order for {cname}")
            res.append(cand)
            for s in seqs:
                if s and s[0] == cand:
                    del s[0]
        self._mro[cname] = res
        return res

    def methods(self, cname):
        """name -> list of FunctionDef in the class body (several for a property with a setter)"""
        out = {}
        if cname in self.classes:
            for node in self.classes[cname][1].body:
                if isinstance(node, (ast.FunctionDef, ast.AsyncFunctionDef)):
                    out.setdefault(node.name, []).append(node)
        return out

    def find(self, cname, mname, after=None):
        """the class whose `mname` an object of class `cname` gets (searching after `after` for super())"""
        m = self.mro(cname)
        if after is not None:
            if after not in m:
                return None
            m = m[m.index(after) + 1:]
        for c in m:
            if mname in self.methods(c):
                return c
            if c in self.classes:
                # a class attribute of that name shadows inherited methods
                for node in self.classes[c][1].body:
                    tg = []
                    if isinstance(node, ast.Assign):
                        tg = node.targets
                    elif isinstance(node, ast.AnnAssign):
                        tg = [node.target]
                    if any(isinstance(t, ast.Name) and t.id == mname for t in tg):
                        return c + ".<attribute>"
        return None


def strip_doc(body):
    if body and isinstance(body[0], ast.Expr) and isinstance(body[0].value, ast.Constant) and isinstance(body[0].value.value, str):
        return body[1:]
    return body


def ind(text, n=2):
    pad = " " * n
    return "\n".join(pad + l if l else l for l in text.split("\n"))


class V:
    """a translated expression: value universe, Gallina text, conditions under which evaluating it does not raise"""

    def __init__(self, ty, tx, guards=()):
        self.ty, self.tx, self.guards = ty, tx, list(guards)


class Frame:
    """the variables of the method being translated, or of a helper inlined into it"""

    def __init__(self, vars_, O, file, ret=None, fn=None):
        self.vars, self.O, self.file, self.ret, self.fn = vars_, O, file, ret, fn


class Env:
    def __init__(self, C, O, kind, file, mode):
        self.C, self.kind, self.mode = C, kind, mode
        self.frame = Frame({}, O, file)
        self.stack = []           # helpers being inlined (no recursion)
        self.inlined = []         # records of the helpers whose text went into this definition
        self.n = 0
        self.locals_n = {}

    vars = property(lambda self: self.frame.vars)
    O = property(lambda self: self.frame.O)
    file = property(lambda self: self.frame.file)

    def fresh(self, stem):
        self.n += 1
        return f"{stem}_{self.n}"

    def local(self, name):
        self.locals_n[name] = self.locals_n.get(name, 0) + 1
        return f"v_{name}_{self.locals_n[name]}"


def contains_return(stmts):
    for s in stmts:
        if isinstance(s, ast.Return):
            return True
        if isinstance(s, ast.If) and (contains_return(s.body) or contains_return(s.orelse)):
            return True
    return False


# ---------------------------------------------------------------------------------------------- translation
class Translator:
    def __init__(self, src: Source):
        self.src = src
        self.defs = []            # (name, text)
        self.translated = []      # records
        self.done = {}            # (C, O, m) -> name | Unsupported
        self.busy = set()
        self.funcs = {}           # file key -> {name: FunctionDef} module-level functions
        for key, tree in src.tree.items():
            self.funcs[key] = {n.name: n for n in tree.body if isinstance(n, ast.FunctionDef)}

    def fail(self, env_or_file, node, what):
        file = env_or_file.file if isinstance(env_or_file, Env) else env_or_file
        raise Unsupported(file, node, what)

    # -- naming / resolution
    def kind(self, C, node=None):
        m = self.src.mro(C)
        for p in KIND_ORDER:
            if p in m:
                return PLAIN[p]
        raise Unsupported("statistics", node or 0, f"class {C} extends none of the ordinary statistics")

    def def_name(self, C, O, m):
        return f"gen_{C}_{m}" if self.src.find(C, m) == O else f"gen_{C}_super_{O}_{m}"

    def fn_node(self, O, m, file_hint="statistics"):
        if O not in self.src.classes:
            raise Unsupported(file_hint, 0, f"class {O} not found")
        file, cnode = self.src.classes[O]
        fns = self.src.methods(O).get(m)
        if not fns:
            raise Unsupported(file, cnode, f"method {O}.{m} not found")
        if len(fns) != 1:
            raise Unsupported(file, fns[1], f"{O}.{m} defined {len(fns)} times")
        fn = fns[0]
        if isinstance(fn, ast.AsyncFunctionDef):
            raise Unsupported(file, fn, "async def")
        return file, fn

    def define(self, C, O, m, at=None, file="statistics"):
        """translate O.m for objects of concrete class C (once); name of the definition"""
        key = (C, O, m)
        if key in self.done:
            r = self.done[key]
            if isinstance(r, Unsupported):
                raise Unsupported(file, at or 0, f"call of {O}.{m} (for {C}), which could not be translated: {r}")
            return r
        if key in self.busy:
            raise Unsupported(file, at or 0, f"recursive call chain through {O}.{m}")
        self.busy.add(key)
        try:
            if O == "DSOLModel" or O == "Simulator":
                name, text, rec = self.dict_method(O, m)
            elif m in CTOR_METHODS:
                name, text, rec = self.ctor_method(C, O, m)
            elif m in PUB_METHODS:
                name, text, rec = self.pub_method(C, O, m)
            else:
                raise Unsupported(file, at or 0, f"method {O}.{m} is not one this translator knows a signature for")
        except Unsupported as exc:
            self.done[key] = exc
            self.busy.discard(key)
            raise
        self.busy.discard(key)
        self.done[key] = name
        self.defs.append((name, text))
        self.translated.append(rec)
        return name

    def seg_record(self, file, fn):
        a, b = fn.lineno, fn.end_lineno
        seg = self.src.lines(file, a, b)
        return {"file": REL[file], "lines": [a, b], "sha1": hashlib.sha1(seg.encode("utf-8")).hexdigest()}

    def record(self, C, O, m, name, file, fn, env=None):
        r = {"class": O, "concrete_class": C, "method": m, "definition": name, **self.seg_record(file, fn)}
        if env is not None and env.inlined:
            r["inlined_helpers"] = env.inlined
            h = hashlib.sha1(r["sha1"].encode())
            for i in env.inlined:
                h.update(i["sha1"].encode())
            r["sha1"] = h.hexdigest()
        return r

    def plain_args(self, fn, file, n, what):
        a = fn.args
        if a.vararg or a.kwarg or a.kwonlyargs or a.posonlyargs or a.defaults or a.kw_defaults:
            raise Unsupported(file, fn, f"signature of {what}: only plain positional parameters without defaults")
        if fn.decorator_list:
            raise Unsupported(file, fn, f"decorator on {what}")
        if not a.args or a.args[0].arg != "self":
            raise Unsupported(file, fn, f"{what}: first parameter must be self")
        ps = [x.arg for x in a.args[1:]]
        if len(ps) != n:
            raise Unsupported(file, fn, f"{what} takes {len(ps)} parameter(s), the model's has {n}")
        return ps

    # ====================================================================== the statement engine (all three modes)
    # A mode (self.MODES[env.mode]) says how a state is threaded: what the final state reads as (`ok`), how a statement
    # whose result may be an exception is followed by the rest (`bind`), what `raise` is.
    #   pub   object x : gst           ok: x         bind: do x' <- t ;; rest        raise: py_raise x
    #   ctor  tables c : cobj          ok: COk c     bind: c_then (t) (fun c' => ..)  raise: CExn K c
    #   dict  dictionary d : registry  ok: DOk d     bind: d_then (t) (fun d' => ..)  raise: DExn K d
    def ok(self, env, st):
        return {"pub": st, "ctor": f"COk {st}", "dict": f"DOk {st}"}[env.mode]

    def bind(self, env, tx, var, rest):
        if env.mode == "pub":
            return f"do {var} <- {tx} ;;\n{rest}"
        return f"{'c_then' if env.mode == 'ctor' else 'd_then'} ({tx}) (fun {var} =>\n{rest})"

    def stvar(self, env):
        return env.fresh({"pub": "x", "ctor": "c", "dict": "d"}[env.mode])

    def raise_(self, s, env, st):
        nm = self.check_raise(s, env)
        if env.mode == "pub":
            return f"py_raise {st}"
        if nm not in RAISES:
            self.fail(env, s, f"raise {nm} in a constructor / a method of the model")
        return f"{'CExn' if env.mode == 'ctor' else 'DExn'} {RAISES[nm]} {st}"

    def guarded(self, env, guards, st, tx):
        """evaluating the sub-expressions of a statement may raise (only in publishing methods)"""
        for g in reversed(guards):
            tx = f"if negb {g} then py_raise {st} else\n{tx}"
        return tx

    @staticmethod
    def always_raises(stmts):
        return bool(stmts) and isinstance(stmts[-1], ast.Raise)

    def check_raise(self, s, env):
        e = s.exc
        if s.cause is not None or e is None:
            self.fail(env, s, "raise without an exception / with a cause")
        nm = e.func.id if isinstance(e, ast.Call) and isinstance(e.func, ast.Name) else (e.id if isinstance(e, ast.Name) else None)
        if nm not in PUB_RAISES:
            self.fail(env, s, f"raise of `{ast.unparse(e)[:60]}`")
        # the message is evaluated but has no effect: names / attributes / literals in f-strings and concatenations only
        if isinstance(e, ast.Call):
            if e.keywords:
                self.fail(env, s, "keyword arguments of an exception")
            for a in e.args:
                self.message(a, env)
        return nm

    def message(self, e, env):
        """a string built for an exception / the log: no effect, as long as it only formats names, attributes, literals"""
        if isinstance(e, ast.Constant) or isinstance(e, ast.Name):
            return
        if isinstance(e, ast.Attribute):
            return self.message(e.value, env)
        if isinstance(e, ast.JoinedStr):
            for v in e.values:
                if isinstance(v, ast.FormattedValue):
                    self.message(v.value, env)
                    if v.format_spec is not None:
                        self.message(v.format_spec, env)
            return
        if isinstance(e, ast.BinOp) and isinstance(e.op, (ast.Add, ast.Mod)):
            self.message(e.left, env)
            return self.message(e.right, env)
        if isinstance(e, ast.Tuple):
            for v in e.elts:
                self.message(v, env)
            return
        if isinstance(e, ast.Call) and isinstance(e.func, ast.Name) and e.func.id in ("str", "repr", "type") and not e.keywords:
            for a in e.args:
                self.message(a, env)
            return
        if isinstance(e, ast.Call) and isinstance(e.func, ast.Attribute) and e.func.attr == "format" and not e.keywords:
            self.message(e.func.value, env)
            for a in e.args:
                self.message(a, env)
            return
        self.fail(env, e, f"text of a message: `{ast.unparse(e)[:60]}`")

    def is_message(self, e):
        return isinstance(e, ast.JoinedStr) or (isinstance(e, ast.Constant) and isinstance(e.value, str)) or \
            (isinstance(e, ast.BinOp) and isinstance(e.op, (ast.Add, ast.Mod)) and (self.is_message(e.left) or self.is_message(e.right)))

    def seq(self, stmts, env, st, k=None):
        """the statements from state `st` on; k: what follows when they complete normally (None: the method ends).
        Early `return`s are honoured by handing the rest of a block to both branches of an `if` that may return;
        otherwise the branches are joined and the rest follows once."""
        def done(s1):
            return k(s1) if k else self.ok(env, s1)
        if not stmts:
            return done(st)
        s, rest = stmts[0], stmts[1:]
        cont = (lambda s1: self.seq(rest, env, s1, k)) if rest else k
        if isinstance(s, ast.Pass):
            return self.seq(rest, env, st, k)
        if isinstance(s, ast.Expr) and isinstance(s.value, ast.Constant) and isinstance(s.value.value, str):
            return self.seq(rest, env, st, k)          # a string used as a comment
        if isinstance(s, ast.Raise):
            if rest:
                self.fail(env, rest[0], "statement after raise")
            return self.raise_(s, env, st)
        if isinstance(s, ast.Return):
            if rest:
                self.fail(env, rest[0], "statement after return")
            if env.frame.ret is not None:
                return env.frame.ret(st, s.value, s)
            if s.value is not None and not (isinstance(s.value, ast.Constant) and s.value.value is None):
                self.fail(env, s, f"value returned by the method: `{ast.unparse(s.value)[:60]}`")
            return self.ok(env, st)
        if isinstance(s, ast.If):
            return self.if_(s, rest, env, st, k, cont)
        if isinstance(s, (ast.Assign, ast.AnnAssign)):
            tg = s.targets[0] if isinstance(s, ast.Assign) and len(s.targets) == 1 else getattr(s, "target", None)
            if isinstance(tg, ast.Name) and s.value is not None:
                return self.assign_local(s, tg.id, env, st, rest, k)
        if isinstance(s, ast.Expr) and isinstance(s.value, ast.Call):
            h = self.helper(s.value, env, st)
            if h:
                return self.inline(h, s.value, env, st, lambda s1, _v: (cont(s1) if cont else self.ok(env, s1)))
            if self.is_log_call(s.value, env):
                return self.seq(rest, env, st, k)
        kind, tx = self.simple(s, env, st)
        if kind == "none":
            return self.seq(rest, env, st, k)
        v = self.stvar(env)
        if kind == "pure":
            return f"let {v} := {tx} in\n{(cont(v) if cont else self.ok(env, v))}"
        if cont is None:
            return tx
        after = cont(v)
        if after.strip() == self.ok(env, v):       # nothing follows: `do x' <- t ;; x'` is t
            return tx
        return self.bind(env, tx, v, after)

    def is_log_call(self, call, env):
        f = call.func
        if isinstance(f, ast.Attribute) and isinstance(f.value, ast.Name) and f.value.id == "logger" \
                and f.attr in ("debug", "info", "warning", "error", "critical", "exception") and not call.keywords:
            for a in call.args:
                self.message(a, env)
            return True
        return False

    def if_(self, s, rest, env, st, k, cont):
        test = s.test
        # `if helper(..):` -- the helper's returns decide
        neg = False
        t0 = test
        while isinstance(t0, ast.UnaryOp) and isinstance(t0.op, ast.Not):
            neg, t0 = not neg, t0.operand
        if isinstance(t0, ast.Call):
            h = self.helper(t0, env, st)
            if h and not h["simple"]:
                def after(s1, v, neg=neg):
                    if v is None or v.ty != "Bool":
                        self.fail(env, s, "a helper used as a condition must return a truth value on every path")
                    c = f"(negb {v.tx})" if neg else v.tx
                    return self.guarded(env, v.guards, s1,
                                        f"if {c} then\n{ind(self.seq(s.body, env, s1, cont))}\nelse\n{ind(self.seq(s.orelse, env, s1, cont))}")
                return self.inline(h, t0, env, st, after)
        c = self.cond(test, env, st)
        early = contains_return(s.body) or contains_return(s.orelse) or self.calls_returning_helper(s, env)
        if rest and not early:
            if not s.orelse and self.always_raises(s.body) and len(s.body) == 1:
                tx = f"if {c.tx} then\n{ind(self.seq(s.body, env, st, None))}\nelse\n{ind(cont(st))}"
                return self.guarded(env, c.guards, st, tx)
            a = self.seq(s.body, env, st, None)
            b = self.seq(s.orelse, env, st, None)
            v = self.stvar(env)
            return self.guarded(env, c.guards, st, self.bind(env, f"(if {c.tx} then\n{ind(a)}\nelse\n{ind(b)})" if env.mode == "pub"
                                                             else f"if {c.tx} then\n{ind(a)}\nelse\n{ind(b)}", v, cont(v)))
        a = self.seq(s.body, env, st, cont)
        b = self.seq(s.orelse, env, st, cont)
        return self.guarded(env, c.guards, st, f"if {c.tx} then\n{ind(a)}\nelse\n{ind(b)}")

    def calls_returning_helper(self, s, env):
        return False

    def assign_local(self, s, name, env, st, rest, k):
        if not rest and k is None and env.frame.ret is None:
            self.fail(env, s, "assignment as the last statement")
        cont = (lambda s1: self.seq(rest, env, s1, k))
        if isinstance(s.value, ast.Call):
            h = self.helper(s.value, env, st)
            if h and not h["simple"]:
                def after(s1, v):
                    if v is None:
                        self.fail(env, s, "the helper does not return a value on every path")
                    return self.bind_local(name, v, env, s1, cont)
                return self.inline(h, s.value, env, st, after)
        if self.is_message(s.value):
            self.message(s.value, env)
            env.vars[name] = V("Str", "tt")
            return cont(st)
        v = self.ex(s.value, env, st)
        return self.guarded(env, v.guards, st, self.bind_local(name, V(v.ty, v.tx), env, st, cont))

    def bind_local(self, name, v, env, st, cont):
        nm = env.local(name)
        if v.ty == "PVal":                     # a query method was called: it may have raised
            env.vars[name] = V("PVal", nm)
            return f"let {nm} := {v.tx} in\npy_eval {nm} {st} (\n{cont(st)})"
        if v.ty in ("Self", "None", "Str"):
            env.vars[name] = v
            return cont(st)
        env.vars[name] = V(v.ty, nm)
        return f"let {nm} := {v.tx} in\n{cont(st)}"

    # -- helpers: private functions / methods that are not part of the translated interface are inlined
    def helper(self, call, env, st):
        """{fn, file, O, self_v, params bound} when the call is one to a helper defined in the module under translation"""
        f = call.func
        fn = owner = None
        self_v = None
        file = env.file
        args = list(call.args)
        if isinstance(f, ast.Name):
            fn = self.funcs.get(file, {}).get(f.id)
            if fn is None:
                return None
        elif isinstance(f, ast.Attribute):
            try:
                how, O, m, args = self.resolve_call(call, env)
            except Unsupported:
                return None
            if how not in ("self", "super", "parent") or O is None or O not in self.src.classes:
                return None
            ofile = self.src.classes[O][0]
            if ofile != file or O in PLAIN or O in ("EventProducer", "EventListener"):
                return None
            if m in PUB_METHODS or m in CTOR_METHODS or (O, m) in QUERIES or m in ("simulator", "key"):
                return None
            if O in ("DSOLModel", "Simulator") and m in ("output_statistics", "add_output_statistic", "get_output_statistic",
                                                         "initialize", "construct_model"):
                return None
            fns = self.src.methods(O).get(m)
            if not fns or len(fns) != 1 or isinstance(fns[0], ast.AsyncFunctionDef):
                return None
            fn, owner = fns[0], O
            self_v = V("Self", "self")
        else:
            return None
        a = fn.args
        decos = [ast.unparse(d) for d in fn.decorator_list]
        static = decos == ["staticmethod"]
        if (decos and not static) or a.vararg or a.kwarg or a.posonlyargs or a.kwonlyargs:
            raise Unsupported(file, fn, f"helper {fn.name}: decorators / *args / **kwargs / keyword-only parameters are not inlined "
                                        f"(called at line {call.lineno})")
        if fn in env.stack:
            raise Unsupported(file, call, f"recursive helper {fn.name}")
        params = [x.arg for x in a.args]
        if owner is not None and not static:
            if not params or params[0] != "self":
                raise Unsupported(file, fn, f"helper method {fn.name}: first parameter must be self")
            params = params[1:]
        body = strip_doc(fn.body)
        simple = len(body) == 1 and isinstance(body[0], ast.Return) and body[0].value is not None
        return {"fn": fn, "file": file, "O": owner or env.O, "self_v": None if static else self_v, "params": params,
                "args": args, "body": body, "simple": simple, "is_method": owner is not None and not static}

    def bind_args(self, h, call, env, st):
        fn, params = h["fn"], h["params"]
        a = fn.args
        defaults = dict(zip(reversed(params), reversed(a.defaults)))
        given = {}
        if len(h["args"]) > len(params):
            self.fail(env, call, f"helper {fn.name} called with {len(h['args'])} arguments")
        for p, e in zip(params, h["args"]):
            given[p] = e
        for kw in call.keywords:
            if kw.arg is None or kw.arg not in params or kw.arg in given:
                self.fail(env, call, f"keyword argument `{kw.arg}` of helper {fn.name}")
            given[kw.arg] = kw.value
        vals, guards = {}, []
        for p in params:                         # arguments are evaluated left to right, in the caller
            if p in given:
                v = self.arg_value(given[p], env, st)
            elif p in defaults and isinstance(defaults[p], ast.Constant):
                v = self.arg_value(defaults[p], env, st)
            else:
                self.fail(env, call, f"helper {fn.name}: no argument for parameter `{p}`")
            guards += v.guards
            vals[p] = V(v.ty, v.tx)
        if h["self_v"] is not None:
            vals["self"] = h["self_v"]
        return vals, guards

    def arg_value(self, e, env, st):
        if self.is_message(e):
            self.message(e, env)
            return V("Str", "tt")
        return self.ex(e, env, st)

    def inline(self, h, call, env, st, after):
        """the body of helper h at the call site; after(state, value or None): what follows the call"""
        vals, guards = self.bind_args(h, call, env, st)
        caller = env.frame
        fn = h["fn"]
        rec = {"helper": (h["O"] + "." if h["is_method"] else "") + fn.name, **self.seg_record(h["file"], fn)}
        if rec not in env.inlined:
            env.inlined.append(rec)

        def ret(s1, value_node, at):
            callee, stack = env.frame, list(env.stack)
            v = None
            if value_node is not None and not (isinstance(value_node, ast.Constant) and value_node.value is None):
                v = self.ex(value_node, env, s1)          # evaluated in the helper's scope
            env.frame = caller
            env.stack = [f for f in stack if f is not fn]
            try:
                if v is not None and v.guards:
                    return self.guarded(env, v.guards, s1, after(s1, V(v.ty, v.tx)))
                return after(s1, v)
            finally:
                env.frame, env.stack = callee, stack

        env.frame = Frame(vals, h["O"], h["file"], ret=ret, fn=fn)
        env.stack.append(fn)
        try:
            # falling off the end returns None
            tx = self.seq(h["body"], env, st, lambda s1: ret(s1, None, fn))
        finally:
            env.frame = caller
            env.stack.remove(fn)
        return self.guarded(env, guards, st, tx)

    def inline_value(self, h, call, env, st):
        """a helper that is one `return <expression>`: the expression, in the helper's scope"""
        vals, guards = self.bind_args(h, call, env, st)
        caller = env.frame
        fn = h["fn"]
        rec = {"helper": (h["O"] + "." if h["is_method"] else "") + fn.name, **self.seg_record(h["file"], fn)}
        if rec not in env.inlined:
            env.inlined.append(rec)
        env.frame = Frame(vals, h["O"], h["file"], ret=None, fn=fn)
        env.stack.append(fn)
        try:
            v = self.ex(h["body"][0].value, env, st)
        finally:
            env.frame = caller
            env.stack.remove(fn)
        return V(v.ty, v.tx, guards + v.guards)

    # -- dispatch to the mode
    def simple(self, s, env, st):
        return {"pub": self.pub_simple, "ctor": self.cstmt, "dict": self.dstmt}[env.mode](s, env, st)

    def ex(self, e, env, st) -> V:
        if isinstance(e, ast.IfExp):
            c = self.cond(e.test, env, st)
            a, b = self.ex(e.body, env, st), self.ex(e.orelse, env, st)
            if a.ty != b.ty or a.guards or b.guards:
                self.fail(env, e, f"conditional expression `{ast.unparse(e)[:60]}` ({a.ty} / {b.ty})")
            return V(a.ty, f"(if {c.tx} then {a.tx} else {b.tx})", c.guards)
        if isinstance(e, ast.Call):
            h = self.helper(e, env, st)
            if h:
                if not h["simple"]:
                    self.fail(env, e, f"call of the helper {h['fn'].name} inside an expression (only a helper that is one "
                                      "`return <expression>` can be used there)")
                return self.inline_value(h, e, env, st)
        if isinstance(e, ast.Name) and e.id in env.vars:
            return env.vars[e.id]
        if isinstance(e, ast.Constant) and e.value is None:
            return V("None", "tt")
        return {"pub": self.pub_ex, "ctor": self.cex, "dict": self.dex}[env.mode](e, env, st)

    def same_isinstance(self, values, negated):
        """isinstance(e, A) or isinstance(e, B) [or: not .. and not ..] on one expression: isinstance(e, (A, B))"""
        subj, classes = None, []
        for v in values:
            if negated:
                if not (isinstance(v, ast.UnaryOp) and isinstance(v.op, ast.Not)):
                    return None
                v = v.operand
            if not (isinstance(v, ast.Call) and isinstance(v.func, ast.Name) and v.func.id == "isinstance" and len(v.args) == 2
                    and not v.keywords):
                return None
            if subj is None:
                subj = ast.unparse(v.args[0])
            elif ast.unparse(v.args[0]) != subj:
                return None
            t = v.args[1]
            classes += list(t.elts) if isinstance(t, ast.Tuple) else [t]
        first = values[0].operand if negated else values[0]
        merged = ast.Call(func=first.func, args=[first.args[0], ast.Tuple(elts=classes, ctx=ast.Load())], keywords=[])
        return ast.copy_location(merged, first)

    def cond(self, e, env, st) -> V:
        if isinstance(e, ast.UnaryOp) and isinstance(e.op, ast.Not):
            c = self.cond(e.operand, env, st)
            return V("Bool", f"(negb {c.tx})", c.guards)
        if isinstance(e, ast.BoolOp):
            if len(e.values) > 1:
                m = self.same_isinstance(e.values, isinstance(e.op, ast.And))
                if m is not None and isinstance(e.op, ast.Or):
                    return self.cond(m, env, st)
                if m is not None:
                    c = self.cond(m, env, st)
                    return V("Bool", f"(negb {c.tx})", c.guards)
            cs = [self.cond(v, env, st) for v in e.values]
            if any(c.guards for c in cs[1:]):
                self.fail(env, e, "an operand of and / or that may raise")
            op = " && " if isinstance(e.op, ast.And) else " || "
            return V("Bool", "(" + op.join(c.tx for c in cs) + ")", cs[0].guards)
        v = self.ex(e, env, st)
        if v.ty != "Bool":
            self.fail(env, e, f"truth value of `{ast.unparse(e)[:60]}` ({v.ty})")
        return v

    def names_of_classes(self, t, env, e):
        names = sorted({n.id for n in t.elts}) if isinstance(t, ast.Tuple) and all(isinstance(n, ast.Name) for n in t.elts) \
            else ([t.id] if isinstance(t, ast.Name) else None)
        if not names:
            self.fail(env, e, f"isinstance class `{ast.unparse(t)}`")
        return names

    def is_selfname(self, b, env):
        return isinstance(b, ast.Name) and (b.id == "self" and "self" not in env.vars or
                                            (b.id in env.vars and env.vars[b.id].ty == "Self"))

    # ====================================================================== publishing methods
    def pub_method(self, C, O, m):
        file, fn = self.fn_node(O, m)
        kind = self.kind(C, fn)
        sig = SIG[m][kind] if isinstance(SIG[m], dict) else SIG[m]
        if O in PLAIN and m != "end_observations":
            raise Unsupported(file, fn, f"{O}.{m} of the ordinary statistic is a primitive, not translated here")
        if m == "end_observations" and kind != "KPersistent":
            raise Unsupported(file, fn, "end_observations outside the time-stamped statistic")
        ps = self.plain_args(fn, file, len(sig), f"{O}.{m}")
        env = Env(C, O, kind, file, "pub")
        for p, t in zip(ps, sig):
            env.vars[p] = V(t, f"p_{p}")
        name = self.def_name(C, O, m)
        body = strip_doc(fn.body)
        if not body:
            raise Unsupported(file, fn, "empty body")
        tx = self.seq(body, env, "x")
        S = STATE[kind][0]
        params = "".join(f" (p_{p} : {GTYPE[t]})" for p, t in zip(ps, sig))
        head = f"(* {O}.{m} for an object of class {C}  -- {REL[file]} lines {fn.lineno}-{fn.end_lineno} *)\n"
        text = head + f"Definition {name} (E : genv N {S}) (x : gst N {S}){params} : gst N {S} :=\n" + ind(tx) + "."
        return name, text, self.record(C, O, m, name, file, fn, env)

    # -- simple statements of a publishing method: text of the object afterwards
    def pub_simple(self, s, env, x):
        return "res", self.pub_stmt(s, env, x)

    def pub_stmt(self, s, env, x):
        if isinstance(s, ast.Assign) and len(s.targets) == 1 and isinstance(s.targets[0], ast.Attribute):
            t = s.targets[0]
            if self.is_selfname(t.value, env) and t.attr in TS_WRITE and env.kind == "KPersistent":
                ty, tmpl = TS_WRITE[t.attr]
                v = self.ex(s.value, env, x)
                if v.ty != ty or v.guards:
                    self.fail(env, s, f"value assigned to self.{t.attr}")
                return f"py_update {tmpl.format(v=v.tx)} {x}"
            self.fail(env, s, f"assignment to `{ast.unparse(t)}`")
        if not (isinstance(s, ast.Expr) and isinstance(s.value, ast.Call)):
            self.fail(env, s, f"statement `{ast.unparse(s)[:70]}`")
        call = s.value
        if call.keywords:
            self.fail(env, call, "keyword arguments in a call")
        how, O, m, args = self.resolve_call(call, env)
        kind = env.kind
        inj = STATE[kind][1]
        if O == "EventProducer" and m in ("fire", "fire_timed"):
            want = 2 if m == "fire" else 3
            if len(args) != want:
                self.fail(env, call, f"{m} with {len(args)} arguments")
            guards = []
            tt = None
            if m == "fire_timed":
                t = self.ex(args[0], env, x)
                if t.ty not in ("Time", "Num"):
                    self.fail(env, args[0], f"time stamp of fire_timed: `{ast.unparse(args[0])}`")
                guards += t.guards
                tt = t.tx
            j = self.stat_event(args[-2], env)
            pv = self.ex(args[-1], env, x)
            guards += pv.guards
            ptx = self.as_pval(pv, env, args[-1])
            if m == "fire":
                return self.guarded(env, guards, x, f"py_fire {inj} E {j} {ptx} {x}")
            return self.guarded(env, guards, x, f"py_fire_timed {inj} E {tt} {j} {ptx} {x}")
        if O in PLAIN and m in ("register", "initialize"):
            if PLAIN[O] != kind:
                self.fail(env, call, f"{O}.{m} on an object whose ordinary statistic is not {O}")
            st = f"(g_state {x})"
            if m == "initialize":
                if args:
                    self.fail(env, call, "initialize with arguments")
                return f"py_plain (Ok {PLAIN_INIT[O]}) {x}"
            sig = PLAIN_REG_SIG[O]
            if len(args) != len(sig):
                self.fail(env, call, f"{O}.register with {len(args)} arguments")
            vs = [self.coerce(self.ex(a, env, x), t, env, a) for a, t in zip(args, sig)]
            guards = [g for v in vs for g in v.guards]
            return self.guarded(env, guards, x, f"py_plain ({PLAIN_REGISTER[O]} {st} {' '.join(v.tx for v in vs)}) {x}")
        if m in PUB_METHODS and (O not in PLAIN or m == "end_observations") and O in self.src.classes \
                and self.src.classes[O][0] == "statistics":
            name = self.define(env.C, O, m, at=call, file=env.file)
            sig = SIG[m][kind] if isinstance(SIG[m], dict) else SIG[m]
            if len(args) != len(sig):
                self.fail(env, call, f"{O}.{m} called with {len(args)} argument(s)")
            vs = [self.coerce(self.ex(a, env, x), t, env, a) for a, t in zip(args, sig)]
            guards = [g for v in vs for g in v.guards]
            return self.guarded(env, guards, x, " ".join([name, "E", x] + [v.tx for v in vs]))
        self.fail(env, call, f"call of {O}.{m}" if O else f"call `{ast.unparse(call)[:70]}`")

    def resolve_call(self, call, env):
        """(how, owner class, method, argument nodes) of self.m(..) / super().m(..) / P.m(self, ..)"""
        f = call.func
        if not isinstance(f, ast.Attribute):
            self.fail(env, call, f"call `{ast.unparse(call)[:70]}`")
        m = f.attr
        b = f.value
        if self.is_selfname(b, env):
            O = self.src.find(env.C, m)
            if O is None:
                self.fail(env, call, f"self.{m}: no such method in the classes {env.C} extends")
            return "self", O, m, list(call.args)
        if isinstance(b, ast.Call) and isinstance(b.func, ast.Name) and b.func.id == "super" and not b.args and not b.keywords:
            O = self.src.find(env.C, m, after=env.O)
            if O is None:
                self.fail(env, call, f"super().{m}: no such method after {env.O} in the resolution order of {env.C}")
            return "super", O, m, list(call.args)
        if isinstance(b, ast.Name) and b.id in self.src.classes:
            if b.id not in self.src.mro(env.C):
                self.fail(env, call, f"{b.id}.{m}(self, ..): {b.id} is not a base of {env.C}")
            if not call.args or not self.is_selfname(call.args[0], env):
                self.fail(env, call, f"{b.id}.{m}(..) without self as first argument")
            O = self.src.find(b.id, m)
            if O is None:
                self.fail(env, call, f"{b.id}.{m}: no such method")
            return "parent", O, m, list(call.args[1:])
        return "other", None, m, list(call.args)

    def stat_event(self, e, env):
        if isinstance(e, ast.Attribute) and isinstance(e.value, ast.Name) and e.value.id == "StatEvents":
            table = EVENTS[env.kind]
            if e.attr in table:
                return str(table.index(e.attr))
            self.fail(env, e, f"StatEvents.{e.attr} is not an event a {env.kind[1:].lower()} statistic publishes")
        self.fail(env, e, f"event type of a published event: `{ast.unparse(e)}`")

    def as_pval(self, v, env, node):
        if v.ty == "Cobs":
            return f"(PVObsC {v.tx})"
        if v.ty == "Num":
            return f"(PVObsV {v.tx})"
        if v.ty == "Self":
            return "PVSelf"
        if v.ty == "PVal":
            return v.tx
        self.fail(env, node, f"payload of a published event: `{ast.unparse(node)}` ({v.ty})")

    def coerce(self, v, want, env, node):
        if v.ty == want:
            return v
        if want == "Cobs" and v.ty == "Content":
            return V("Cobs", f"(p_c {v.tx})", v.guards)
        self.fail(env, node, f"`{ast.unparse(node)[:60]}` ({v.ty}) where the model expects {want}")

    # -- expressions of a publishing method
    def pub_ex(self, e, env, x) -> V:
        if isinstance(e, ast.Name):
            if e.id == "self":
                return V("Self", "self")
            self.fail(env, e, f"name `{e.id}`")
        if isinstance(e, ast.Constant):
            if e.value is True:
                return V("Bool", "true")
            if e.value is False:
                return V("Bool", "false")
            if isinstance(e.value, int) and not isinstance(e.value, bool) and 0 <= e.value < 100:
                return V("Nat", f"{e.value}%nat")
            self.fail(env, e, f"constant `{e.value!r}`")
        if isinstance(e, ast.Attribute):
            b = e.value
            if isinstance(b, ast.Name) and b.id in env.vars and env.vars[b.id].ty == "Event":
                ev = env.vars[b.id].tx
                if e.attr == "event_type":
                    return V("EType", f"(ne_type {ev})")
                if e.attr == "content":
                    return V("Content", f"(ne_content {ev})")
                if e.attr == "timestamp":
                    return V("Stamp", f"(py_timestamp {ev})")
                self.fail(env, e, f"attribute `{e.attr}` of an event")
            if isinstance(b, ast.Name) and (b.id, e.attr) in ETYPES:
                return V("EType", ETYPES[(b.id, e.attr)])
            if self.is_selfname(b, env):
                if e.attr == "_event_types":
                    return V("ETSet", "(e_types E)")
                if e.attr in TS_READ and env.kind == "KPersistent":
                    ty, tmpl = TS_READ[e.attr]
                    return V(ty, tmpl.format(x=x))
                self.fail(env, e, f"attribute self.{e.attr}")
            if e.attr == "simulator_time" and self.is_self_simulator(b, env):
                return V("Time", "(e_tm E)")
            self.fail(env, e, f"attribute `{ast.unparse(e)}`")
        if isinstance(e, ast.Subscript):
            base = self.ex(e.value, env, x)
            if base.ty == "Content" and isinstance(e.slice, ast.Constant) and e.slice.value in (0, 1) \
                    and not isinstance(e.slice.value, bool):
                return V("Num", f"({'p_w' if e.slice.value == 0 else 'p_v'} {base.tx})", base.guards)
            self.fail(env, e, f"subscript `{ast.unparse(e)}`")
        if isinstance(e, ast.Call):
            return self.call_ex(e, env, x)
        if isinstance(e, (ast.BoolOp, ast.UnaryOp)):
            return self.cond(e, env, x)
        if isinstance(e, ast.Compare):
            return self.compare(e, env, x)
        self.fail(env, e, f"expression `{ast.unparse(e)[:70]}`")

    def is_self_simulator(self, b, env):
        """`self.simulator` (property returning self._simulator) or `self._simulator`"""
        if not (isinstance(b, ast.Attribute) and self.is_selfname(b.value, env)):
            return False
        if b.attr == "_simulator":
            return True
        if b.attr != "simulator":
            return False
        O = self.src.find(env.C, "simulator")
        if O is None or O not in self.src.classes:
            self.fail(env, b, "self.simulator: no such property")
        file, fn = self.fn_node(O, "simulator", env.file)
        decos = [ast.unparse(d) for d in fn.decorator_list]
        body = strip_doc(fn.body)
        if decos != ["property"] or len(body) != 1 or not isinstance(body[0], ast.Return) \
                or ast.unparse(body[0].value) != "self._simulator":
            raise Unsupported(file, fn, f"property {O}.simulator must be `return self._simulator`")
        return True

    def call_ex(self, e, env, x) -> V:
        f = e.func
        if e.keywords:
            self.fail(env, e, "keyword arguments in a call")
        if isinstance(f, ast.Name):
            if f.id == "float" and len(e.args) == 1:
                v = self.ex(e.args[0], env, x)
                if v.ty == "Content":
                    tx = f"(p_v {v.tx})"
                    return V("Num", tx, v.guards + [f"(py_float_ok {tx})"])
                if v.ty in ("Num", "Stamp"):
                    return V("Num", v.tx, v.guards + [f"(py_float_ok {v.tx})"])
                if v.ty == "Time":
                    return V("Num", f"(py_time_float {v.tx})", v.guards)
                self.fail(env, e, f"float() of `{ast.unparse(e.args[0])}` ({v.ty})")
            if f.id == "len" and len(e.args) == 1:
                v = self.ex(e.args[0], env, x)
                if v.ty == "Content":
                    return V("Nat", f"(py_content_len {v.tx})", v.guards)
                self.fail(env, e, f"len() of `{ast.unparse(e.args[0])}`")
            if f.id == "isinstance" and len(e.args) == 2:
                return self.isinstance_(e, env, x)
            if f.id == "Event" and len(e.args) == 2:
                t, c = self.ex(e.args[0], env, x), self.ex(e.args[1], env, x)
                if t.ty == "EType" and c.ty == "Content":
                    return V("Event", f"(py_Event {t.tx} {c.tx})", t.guards + c.guards)
                self.fail(env, e, f"Event({t.ty}, {c.ty})")
            if f.id == "TimedEvent" and len(e.args) == 3:
                ts, t, c = (self.ex(a, env, x) for a in e.args)
                if ts.ty == "Time" and t.ty == "EType" and c.ty == "Content":
                    return V("Event", f"(py_TimedEvent {ts.tx} {t.tx} {c.tx})", ts.guards + t.guards + c.guards)
                self.fail(env, e, f"TimedEvent({ts.ty}, {t.ty}, {c.ty})")
            self.fail(env, e, f"call of `{f.id}`")
        how, O, m, args = self.resolve_call(e, env)
        if how in ("self", "super", "parent") and O == "EventProducer" and m == "has_listeners" and not args:
            return V("Bool", "(py_has_listeners E)")
        if how in ("self", "super", "parent") and (O, m) in QUERIES:
            fn_, biased, ctor = QUERIES[(O, m)]
            st = f"(g_state {x})"
            if env.kind == "KPersistent":
                if O != "WeightedTally":
                    self.fail(env, e, f"query {O}.{m} on a time-stamped statistic")
                st = f"(ts_w (g_state {x}))"
            elif PLAIN[O] != env.kind:
                self.fail(env, e, f"query {O}.{m} on an object whose ordinary statistic is not {O}")
            if biased:
                b = self.biased_arg(O, m, args, env, e, x)
                return V("PVal", f"({ctor} ({fn_} {b} {st}))")
            if args:
                self.fail(env, e, f"{m}() with arguments")
            self.check_query_sig(O, m, env, e, False)
            return V("PVal", f"({ctor} ({fn_} {st}))")
        self.fail(env, e, f"call of {O}.{m}" if O else f"call `{ast.unparse(e)[:70]}`")

    def check_query_sig(self, O, m, env, at, biased):
        file, fn = self.fn_node(O, m, env.file)
        a = fn.args
        ok = not (a.vararg or a.kwarg or a.kwonlyargs or a.posonlyargs) and a.args and a.args[0].arg == "self"
        if biased:
            ok = ok and len(a.args) == 2 and len(a.defaults) == 1 and isinstance(a.defaults[0], ast.Constant) \
                and isinstance(a.defaults[0].value, bool)
        else:
            ok = ok and len(a.args) == 1
        if not ok or fn.decorator_list:
            raise Unsupported(file, fn, f"signature of the query method {O}.{m}")
        return fn

    def biased_arg(self, O, m, args, env, at, x):
        fn = self.check_query_sig(O, m, env, at, True)
        if not args:
            return "true" if fn.args.defaults[0].value else "false"
        if len(args) != 1:
            self.fail(env, at, f"{m}() with {len(args)} arguments")
        v = self.ex(args[0], env, x)
        if v.ty != "Bool" or v.guards:
            self.fail(env, at, f"argument of {m}(): `{ast.unparse(args[0])}`")
        return v.tx

    def isinstance_(self, e, env, x) -> V:
        v = self.ex(e.args[0], env, x)
        t = e.args[1]
        names = self.names_of_classes(t, env, e)
        if v.ty == "Event" and names == ["Event"]:
            return V("Bool", f"(py_is_event {v.tx})", v.guards)
        if v.ty == "Event" and names == ["TimedEvent"]:
            return V("Bool", f"(py_is_timed_event {v.tx})", v.guards)
        if v.ty == "Content" and names == ["int"]:
            return V("Bool", f"(py_content_is_int {v.tx})", v.guards)
        if v.ty == "Content" and names == ["tuple"]:
            return V("Bool", f"(py_content_is_tuple {v.tx})", v.guards)
        if v.ty == "Content" and names == ["float", "int"]:
            return V("Bool", f"(py_is_number (p_v {v.tx}))", v.guards)
        if v.ty == "Num" and names == ["float", "int"]:
            return V("Bool", f"(py_is_number {v.tx})", v.guards)
        self.fail(env, e, f"isinstance(`{ast.unparse(e.args[0])}` : {v.ty}, {ast.unparse(t)})")

    def compare(self, e, env, x) -> V:
        if len(e.ops) != 1:
            self.fail(env, e, "chained comparison")
        op, l, r = e.ops[0], self.ex(e.left, env, x), self.ex(e.comparators[0], env, x)
        g = l.guards + r.guards
        if isinstance(op, (ast.Eq, ast.NotEq, ast.Is, ast.IsNot)) and l.ty == "EType" and r.ty == "EType":
            tx = f"(etype_eqb {l.tx} {r.tx})"           # event types are compared by identity
        elif isinstance(op, (ast.Eq, ast.NotEq)) and l.ty == "Nat" and r.ty == "Nat":
            tx = f"(Nat.eqb {l.tx} {r.tx})"
        elif isinstance(op, (ast.In, ast.NotIn)) and l.ty == "EType" and r.ty == "ETSet":
            tx = f"(et_in {l.tx} {r.tx})"
        else:
            self.fail(env, e, f"comparison `{ast.unparse(e)[:70]}` ({l.ty} vs {r.ty})")
        if isinstance(op, (ast.NotEq, ast.NotIn, ast.IsNot)):
            tx = f"(negb {tx})"
        return V("Bool", tx, g)

    # ====================================================================== constructors, listen_to
    def ctor_method(self, C, O, m):
        file, fn = self.fn_node(O, m)
        kind = self.kind(C, fn)
        a = fn.args
        if a.vararg or a.kwarg or a.posonlyargs or fn.decorator_list or not a.args or a.args[0].arg != "self":
            raise Unsupported(file, fn, f"signature of {O}.{m}")
        pos = [x.arg for x in a.args[1:]]
        kwo = [x.arg for x in a.kwonlyargs]
        env = Env(C, O, kind, file, "ctor")
        if m == "__init__" and len(pos) == 3 and len(kwo) == 2 and not a.defaults:
            if not all(isinstance(d, ast.Constant) and d.value is None for d in a.kw_defaults):
                raise Unsupported(file, fn, f"{O}.__init__: producer / event_type must default to None")
            types = ["Key", "Name", "SimArg", "ProdArg", "EtArg"]
            ps = pos + kwo
        elif m == "__init__" and len(pos) == 1 and not kwo and not a.defaults:
            types, ps = ["Name"], pos
        elif m == "listen_to" and len(pos) == 2 and not kwo and len(a.defaults) <= 1:
            if a.defaults and ast.unparse(a.defaults[0]) != "StatEvents." + {v: k[1] for k, v in ETYPES.items()}[STD[kind]]:
                raise Unsupported(file, fn, f"default event type of {O}.listen_to: `{ast.unparse(a.defaults[0])}`")
            types, ps = ["ProdArg", "EtArg"], pos
        else:
            raise Unsupported(file, fn, f"signature of {O}.{m}: ({', '.join(pos)}; {', '.join(kwo)})")
        for p, t in zip(ps, types):
            env.vars[p] = V(t, f"p_{p}")
        name = self.def_name(C, O, m)
        body = strip_doc(fn.body)
        if not body:
            raise Unsupported(file, fn, "empty body")
        tx = self.seq(body, env, "c")
        params = "".join(f" (p_{p} : {GTYPE[t]})" for p, t in zip(ps, types))
        head = f"(* {O}.{m} for an object of class {C}  -- {REL[file]} lines {fn.lineno}-{fn.end_lineno} *)\n"
        text = head + f"Definition {name} (self : nat) (c : cobj){params} : cres :=\n" + ind(tx) + "."
        return name, text, self.record(C, O, m, name, file, fn, env)

    def param(self, e, env, ty):
        """the text of e when it is a value of universe ty (a parameter, or a local / helper parameter bound to one)"""
        try:
            v = self.ex(e, env, None)
        except Unsupported:
            return None
        return v.tx if (v.ty == ty and not v.guards) else None

    def cetype(self, e, env):
        """an event type: a constant of StatEvents / ReplicationInterface / SimulatorInterface or the event_type parameter"""
        v = self.ex(e, env, None)
        if v.ty == "EType":
            return v.tx
        if v.ty == "EtArg":
            return f"(py_et {v.tx})"
        self.fail(env, e, f"event type `{ast.unparse(e)}`")

    def is_self(self, e, env):
        return self.is_selfname(e, env)

    def cex(self, e, env, st) -> V:
        if isinstance(e, ast.Name):
            if e.id == "self":
                return V("Self", "self")
            self.fail(env, e, f"name `{e.id}`")
        if isinstance(e, ast.Attribute):
            if isinstance(e.value, ast.Name) and (e.value.id, e.attr) in ETYPES:
                return V("EType", ETYPES[(e.value.id, e.attr)])
            if e.attr == "model":
                p = self.param(e.value, env, "SimArg")
                if p:
                    return V("SimModel", p)
            self.fail(env, e, f"attribute `{ast.unparse(e)}`")
        if isinstance(e, ast.Call) and isinstance(e.func, ast.Name) and e.func.id == "isinstance" and len(e.args) == 2 and not e.keywords:
            names = self.names_of_classes(e.args[1], env, e)
            v = self.ex(e.args[0], env, st)
            for ty, cls, fn_ in (("Key", "str", "py_key_is_str"), ("SimArg", "SimulatorInterface", "py_is_simulator"),
                                 ("ProdArg", "EventProducer", "py_is_producer"), ("EtArg", "EventType", "py_is_event_type")):
                if v.ty == ty and names == [cls]:
                    return V("Bool", f"({fn_} {v.tx})")
            self.fail(env, e, f"isinstance test `{ast.unparse(e)}`")
        if isinstance(e, ast.Compare) and len(e.ops) == 1 and isinstance(e.ops[0], (ast.Eq, ast.NotEq, ast.Is, ast.IsNot)):
            l, r = self.ex(e.left, env, st), self.ex(e.comparators[0], env, st)
            if l.ty == "None":
                l, r = r, l
            tx = None
            if r.ty == "None":
                tx = {"ProdArg": f"(py_prod_is_none {l.tx})", "EtArg": f"(py_et_is_none {l.tx})",
                      "SimModel": f"(negb (py_sim_has_model {l.tx}))"}.get(l.ty)
            if tx is None:
                self.fail(env, e, f"comparison `{ast.unparse(e)}` ({l.ty} vs {r.ty})")
            return V("Bool", f"(negb {tx})" if isinstance(e.ops[0], (ast.NotEq, ast.IsNot)) else tx)
        if isinstance(e, (ast.BoolOp, ast.UnaryOp)):
            return self.cond(e, env, st)
        self.fail(env, e, f"expression `{ast.unparse(e)[:70]}`")

    def cstmt(self, s, env, c):
        """('none' | 'pure' | 'res', text): no effect on the tables / a new cobj / a cres"""
        if isinstance(s, (ast.Assign, ast.AnnAssign)):
            tg = s.targets[0] if isinstance(s, ast.Assign) and len(s.targets) == 1 else (s.target if isinstance(s, ast.AnnAssign) else None)
            if s.value is None or not (isinstance(tg, ast.Attribute) and self.is_self(tg.value, env)):
                self.fail(env, s, f"assignment `{ast.unparse(s)[:70]}`")
            if tg.attr == "_simulator" and self.param(s.value, env, "SimArg"):
                return "none", ""
            if tg.attr == "_key" and self.param(s.value, env, "Key"):
                return "pure", f"py_set_key (py_key_str {self.param(s.value, env, 'Key')}) {c}"
            if tg.attr == "_event_types" and isinstance(s.value, ast.Set):
                ets = [self.cetype(x, env) for x in s.value.elts]
                return "pure", f"py_set_types [{'; '.join(ets)}] {c}"
            self.fail(env, s, f"assignment to self.{tg.attr}")
        if not (isinstance(s, ast.Expr) and isinstance(s.value, ast.Call)):
            self.fail(env, s, f"statement `{ast.unparse(s)[:70]}`")
        call = s.value
        if call.keywords:
            self.fail(env, call, "keyword arguments in a call")
        f = call.func
        if not isinstance(f, ast.Attribute):
            self.fail(env, call, f"call `{ast.unparse(call)[:70]}`")
        b, m, args = f.value, f.attr, list(call.args)
        # simulator.add_listener(X, self) / producer.add_listener(et, self)
        if m == "add_listener" and len(args) == 2 and self.is_self(args[1], env):
            if self.param(b, env, "SimArg"):
                return "pure", f"py_sim_add_listener {self.cetype(args[0], env)} self {c}"
            if self.param(b, env, "ProdArg"):
                return "pure", f"py_prod_add_listener {self.cetype(args[0], env)} self {c}"
        # self._event_types.add(et)
        if m == "add" and len(args) == 1 and isinstance(b, ast.Attribute) and self.is_self(b.value, env) and b.attr == "_event_types":
            return "pure", f"py_types_add {self.cetype(args[0], env)} {c}"
        # simulator.model.add_output_statistic(key, self)
        if m == "add_output_statistic" and len(args) == 2 and self.param(args[0], env, "Key") and self.is_self(args[1], env):
            mv = None
            try:
                mv = self.ex(b, env, c)
            except Unsupported:
                pass
            if mv is not None and mv.ty == "SimModel":
                name = self.define("DSOLModel", "DSOLModel", "add_output_statistic", at=call, file=env.file)
                return "res", f"py_on_model ({name} (co_dict {c}) (py_key_str {self.param(args[0], env, 'Key')}) (StatObj self)) {c}"
        how, O, mm, cargs = self.resolve_call(call, env)
        if how in ("super", "parent") and mm == "__init__":
            if O == "EventProducer":
                if cargs:
                    self.fail(env, call, "EventProducer.__init__ with arguments")
                return "res", f"py_producer_init {c}"
            if O in PLAIN:
                if PLAIN[O] != env.kind or len(cargs) != 1 or not self.param(cargs[0], env, "Name"):
                    self.fail(env, call, f"{O}.__init__ called with `{ast.unparse(call)[:60]}`")
                return "res", f"py_plain_init {PLAIN[O]} {self.param(cargs[0], env, 'Name')} {c}"
            if O in self.src.classes and self.src.classes[O][0] == "statistics":
                name = self.define(env.C, O, "__init__", at=call, file=env.file)
                ps = [self.param(a, env, "Name") for a in cargs]
                if len(ps) != 1 or not ps[0]:
                    self.fail(env, call, f"{O}.__init__ called with `{ast.unparse(call)[:60]}`")
                return "res", f"{name} self {c} {ps[0]}"
        if how == "self" and mm == "listen_to" and O in self.src.classes and self.src.classes[O][0] == "statistics":
            name = self.define(env.C, O, "listen_to", at=call, file=env.file)
            if len(cargs) != 2 or not self.param(cargs[0], env, "ProdArg") or not self.param(cargs[1], env, "EtArg"):
                self.fail(env, call, f"listen_to called with `{ast.unparse(call)[:60]}`")
            return "res", f"{name} self {c} {self.param(cargs[0], env, 'ProdArg')} {self.param(cargs[1], env, 'EtArg')}"
        self.fail(env, call, f"call `{ast.unparse(call)[:70]}`")

    # ====================================================================== DSOLModel, Simulator.initialize
    IGNORED_MODEL_ATTRS = {"_simulator": "the simulator of the model", "_input_parameters": "the input parameters (C18)"}
    D = "_output_statistics"

    def is_d(self, e, env):
        return isinstance(e, ast.Attribute) and self.is_selfname(e.value, env) and e.attr == self.D

    def dex(self, e, env, d) -> V:
        if isinstance(e, ast.Name):
            if e.id == "self":
                return V("Self", "self")
            self.fail(env, e, f"name `{e.id}`")
        if self.is_d(e, env):
            return V("Dict", d)
        if isinstance(e, ast.Call) and isinstance(e.func, ast.Name) and e.func.id == "isinstance" and len(e.args) == 2 and not e.keywords:
            names = self.names_of_classes(e.args[1], env, e)
            v = self.ex(e.args[0], env, d)
            if v.ty == "Stat" and names == ["StatisticsInterface"]:
                return V("Bool", f"(py_is_statistic {v.tx})")
            if v.ty == "SimArg" and names == ["SimulatorInterface"]:
                return V("Bool", f"(py_is_simulator {v.tx})")
            self.fail(env, e, f"isinstance test `{ast.unparse(e)}`")
        if isinstance(e, ast.Compare) and len(e.ops) == 1 and isinstance(e.ops[0], (ast.In, ast.NotIn)):
            l, r = self.ex(e.left, env, d), self.ex(e.comparators[0], env, d)
            if l.ty == "DKey" and r.ty == "Dict":
                tx = f"(py_dict_has {r.tx} {l.tx})"
                return V("Bool", f"(negb {tx})" if isinstance(e.ops[0], ast.NotIn) else tx)
            self.fail(env, e, f"membership test `{ast.unparse(e)}` ({l.ty} in {r.ty})")
        if isinstance(e, (ast.BoolOp, ast.UnaryOp)):
            return self.cond(e, env, d)
        self.fail(env, e, f"expression `{ast.unparse(e)[:70]}`")

    def dstmt(self, s, env, d):
        if isinstance(s, (ast.Assign, ast.AnnAssign)):
            tg = s.targets[0] if isinstance(s, ast.Assign) and len(s.targets) == 1 else getattr(s, "target", None)
            if s.value is not None and isinstance(tg, ast.Subscript) and self.is_d(tg.value, env):
                k, v = self.ex(tg.slice, env, d), self.ex(s.value, env, d)
                if k.ty == "DKey" and v.ty == "Stat":
                    return "pure", f"py_dict_set {d} {k.tx} (py_stat_id {v.tx})"
                self.fail(env, s, f"dictionary entry `{ast.unparse(s)[:60]}` ({k.ty} -> {v.ty})")
            if s.value is not None and isinstance(tg, ast.Attribute) and self.is_selfname(tg.value, env):
                if tg.attr == self.D and getattr(env, "method", None) == "__init__":
                    v = s.value
                    empty = (isinstance(v, ast.Dict) and not v.keys) or \
                            (isinstance(v, ast.Call) and isinstance(v.func, ast.Name) and v.func.id == "dict"
                             and not v.args and not v.keywords)
                    if not empty:
                        self.fail(env, s, f"initial value of self.{self.D}: `{ast.unparse(v)}`")
                    env.found_dict = True
                    return "pure", "(@nil (nat * nat))"
                if tg.attr in self.IGNORED_MODEL_ATTRS and getattr(env, "method", None) == "__init__" and self.D not in ast.unparse(s.value):
                    return "none", ""
        self.fail(env, s, f"statement `{ast.unparse(s)[:70]}`")

    def dict_method(self, O, m):
        if O == "Simulator":
            return self.sim_initialize()
        file, fn = self.fn_node(O, m, "model")
        a = fn.args
        pos = [x.arg for x in a.args[1:]]
        if a.vararg or a.posonlyargs or a.kwonlyargs or a.defaults or not a.args or a.args[0].arg != "self" \
                or (a.kwarg and m != "__init__"):
            raise Unsupported(file, fn, f"signature of {O}.{m}")
        if fn.decorator_list:
            raise Unsupported(file, fn, f"decorator on {O}.{m}")
        name = f"gen_{O}_{m}"
        body = strip_doc(fn.body)
        head = f"(* {O}.{m}  -- {REL[file]} lines {fn.lineno}-{fn.end_lineno} *)\n"
        env = Env(O, O, None, file, "dict")
        env.method = m
        if m == "__init__":
            if pos != ["simulator"]:
                raise Unsupported(file, fn, f"parameters of {O}.__init__: {pos}")
            env.vars["simulator"] = V("SimArg", "p_simulator")
            env.found_dict = False
            tx = self.seq(body, env, "d")
            if not env.found_dict:
                raise Unsupported(file, fn, f"{O}.__init__ does not create self.{self.D}")
            text = head + f"Definition {name} (d : registry) (p_simulator : pysim) : dres :=\n" + ind(tx) + "."
        elif m == "add_output_statistic":
            if len(pos) != 2:
                raise Unsupported(file, fn, f"parameters of {O}.add_output_statistic: {pos}")
            k, st = pos
            env.vars[k] = V("DKey", f"p_{k}")
            env.vars[st] = V("Stat", f"p_{st}")
            tx = self.seq(body, env, "d")
            text = head + f"Definition {name} (d : registry) (p_{k} : nat) (p_{st} : pystat) : dres :=\n" + ind(tx) + "."
        elif m == "output_statistics":
            if pos or len(body) != 1 or not isinstance(body[0], ast.Return) or body[0].value is None:
                raise Unsupported(file, fn, f"{O}.output_statistics must be a single return")
            v = body[0].value
            if self.is_d(v, env):
                tx = "DSelf"
            elif (isinstance(v, ast.Call) and isinstance(v.func, ast.Name) and v.func.id == "dict" and len(v.args) == 1
                  and self.is_d(v.args[0], env) and not v.keywords) or \
                    (isinstance(v, ast.Call) and isinstance(v.func, ast.Attribute) and v.func.attr == "copy"
                     and self.is_d(v.func.value, env) and not v.args and not v.keywords):
                tx = "DCopy d"
            else:
                self.fail(env, v, f"value returned by output_statistics: `{ast.unparse(v)}`")
            text = head + f"Definition {name} (d : registry) : dictval :=\n  {tx}."
        elif m == "get_output_statistic":
            if len(pos) != 1 or len(body) != 1 or not isinstance(body[0], ast.Return) or body[0].value is None:
                raise Unsupported(file, fn, f"{O}.get_output_statistic must be a single return")
            v = body[0].value
            if not (isinstance(v, ast.Subscript) and self.is_d(v.value, env) and isinstance(v.slice, ast.Name) and v.slice.id == pos[0]):
                self.fail(env, v, f"value returned by get_output_statistic: `{ast.unparse(v)}`")
            text = head + f"Definition {name} (d : registry) (p_{pos[0]} : nat) : option nat :=\n  py_dict_getitem d p_{pos[0]}."
        else:
            raise Unsupported(file, fn, f"{O}.{m} is not translated")
        return name, text, self.record(O, O, m, name, file, fn, env)

    def sim_initialize(self):
        """of Simulator.initialize: the statements about the model's statistics, in their order"""
        file, fn = self.fn_node("Simulator", "initialize", "simulator")
        a = fn.args
        ps = [x.arg for x in a.args]
        if ps[:2] != ["self", "model"] or a.vararg or a.kwarg or a.kwonlyargs:
            raise Unsupported(file, fn, f"parameters of Simulator.initialize: {ps}")
        out_name = self.define("DSOLModel", "DSOLModel", "output_statistics", at=fn, file=file)
        env = Env("Simulator", "Simulator", None, file, "dict")
        words = ("output_statistics", "_output_statistics", "add_output_statistic", "construct_model")
        lines, cur, after, n, seen_clear = [], "d", False, 0, False
        for s in strip_doc(fn.body):
            txt = ast.unparse(s)
            if not any(w in txt for w in words):
                continue          # belongs to the simulator's own tie (translator/py2gallina_sim.py)
            if txt == "model.output_statistics().clear()":
                seen_clear = True
                n += 1
                if not after:
                    lines.append(f"let d_{n} := py_dict_clear ({out_name} {cur}) {cur} in")
                    cur = f"d_{n}"
                else:
                    lines.append(f"let c_{n} := co_set_dict (py_dict_clear ({out_name} (co_dict {cur})) (co_dict {cur})) {cur} in")
                    cur = f"c_{n}"
            elif txt == "model.construct_model()":
                if after:
                    self.fail(env, s, "construct_model called twice")
                n += 1
                lines.append(f"c_then (construct_model {cur}) (fun c_{n} =>")
                cur = f"c_{n}"
                after = True
            else:
                self.fail(env, s, f"statement about the model's statistics: `{txt[:70]}`")
        if not after:
            raise Unsupported(file, fn, "Simulator.initialize does not call model.construct_model()")
        tx = "\n".join(lines) + f"\nCOk {cur})"
        name = "gen_Simulator_initialize__model"
        head = (f"(* Simulator.initialize, the statements about the model's statistics  -- {REL[file]} lines "
                f"{fn.lineno}-{fn.end_lineno} *)\n")
        text = head + f"Definition {name} (construct_model : registry -> cres) (d : registry) : cres :=\n" + ind(tx) + "."
        return name, text, self.record("Simulator", "Simulator", "initialize", name, file, fn)




# ---------------------------------------------------------------------------------------------- driver
def entries(src: Source):
    """(C, O, m) to translate, in order; O resolved when the entry is taken up"""
    out = [("DSOLModel", "DSOLModel", m) for m in ("__init__", "output_statistics", "add_output_statistic", "get_output_statistic")]
    out.append(("Simulator", "Simulator", "initialize"))
    for C in CONCRETE:
        for m in PUB_METHODS + CTOR_METHODS:
            out.append((C, None, m))
    return out


def translate(src: Source, keep_going: bool):
    tr = Translator(src)
    failures = []
    for C, O, m in entries(src):
        try:
            if C in CONCRETE and C not in src.classes:
                raise Unsupported("statistics", 0, f"class {C} not found")
            owner = O
            if owner is None:
                owner = src.find(C, m)
                if owner is None or owner not in src.classes:
                    if m in ("end_observations", "listen_to"):
                        continue                      # not a method of this class
                    raise Unsupported("statistics", src.classes[C][1], f"{C} has no method {m}")
                if m == "end_observations" and tr.kind(C) != "KPersistent":
                    continue
                if owner in PLAIN and m != "end_observations":
                    raise Unsupported("statistics", src.classes[C][1],
                                      f"{C}.{m} is the ordinary statistic's {owner}.{m}: the event-based class no longer overrides it")
            tr.define(C, owner, m, file=src.classes[owner][0] if owner in src.classes else "statistics")
        except Unsupported as exc:
            name = None
            try:
                name = tr.def_name(C, O or src.find(C, m) or C, m) if C in CONCRETE else \
                    ("gen_Simulator_initialize__model" if C == "Simulator" else f"gen_{C}_{m}")
            except Unsupported:
                pass
            if not keep_going:
                raise
            failures.append({"class": C, "method": m, "definition": name, "line": exc.lineno, "file": REL.get(exc.file, exc.file),
                             "construct": exc.what, "error": str(exc)})
    # definitions that failed as a dependency of another one and were never an entry of their own
    listed = {f["definition"] for f in failures}
    for (C, O, m), r in tr.done.items():
        if isinstance(r, Unsupported):
            try:
                nm = tr.def_name(C, O, m) if C in CONCRETE else f"gen_{C}_{m}"
            except Unsupported:
                nm = None
            if nm and nm not in listed:
                listed.add(nm)
                failures.append({"class": C, "method": m, "definition": nm, "line": r.lineno, "file": REL.get(r.file, r.file),
                                 "construct": r.what, "error": str(r)})
    return tr, failures


def render(tr: Translator, src: Source) -> str:
    shas = ", ".join(f"{FILES[k]} {src.sha[k][:12]}" for k in ("statistics", "model", "simulator"))
    out = ["(* GENERATED by translator/py2gallina_simstats.py from src/pydsol/core/{statistics,model,simulator}.py -- do not edit.",
           f"   sha1 of the source files (line ends normalised): {shas}",
           "   Shallow embedding of the method bodies over the conventions of Stats/SimStats.v; see the translator for the",
           "   subset and its meaning.  Stats/SimGenAgree.v proves every definition equal to the hand-written model. *)",
           "From Coq Require Import ZArith Bool List.",
           "From PV Require Import EventList.Key Sim.Model Sim.Case.",
           "From PV Require Import Stats.Num Stats.Tally Stats.Weighted Stats.Timestamp Stats.SimStats.",
           "Import ListNotations.", "", PRELUDE.strip("\n"), "", "Section Gen.", "  Variable N : Num.", ""]
    for _name, text in tr.defs:
        out.append(ind(text))
        out.append("")
    out.append("End Gen.")
    return "\n".join(out) + "\n"


def main(argv):
    out_dir, keep_going, i = None, False, 0
    while i < len(argv):
        if argv[i] == "--out" and i + 1 < len(argv):
            out_dir = Path(argv[i + 1])
            i += 2
        elif argv[i] == "--keep-going":
            keep_going = True
            i += 1
        else:
            print(f"usage: {sys.argv[0]} [--out DIR [--keep-going]]", file=sys.stderr)
            return 64
    keep_going = keep_going and out_dir is not None

    def report(info):
        if out_dir is not None:
            out_dir.mkdir(parents=True, exist_ok=True)
            (out_dir / "Gen_SimStats.json").write_text(json.dumps(info, indent=1) + "\n")

    def whole(exc_file, line, construct, msg):
        return {"class": None, "method": None, "definition": None, "line": line, "file": REL.get(exc_file, exc_file),
                "construct": construct, "error": msg}
    base = {"repo": str(REPO), "source": [str(CORE / FILES[k]) for k in ("statistics", "model", "simulator")]}
    try:
        src = Source()
    except OSError as exc:
        print(f"py2gallina_simstats: cannot read the sources: {exc}", file=sys.stderr)
        report({**base, "ok": False, "methods": [], "failures": [whole("statistics", 0, "unreadable source", str(exc))]})
        return 2
    except Unsupported as exc:
        print(f"py2gallina_simstats: TRANSLATION FAILED\n{exc}", file=sys.stderr)
        report({**base, "ok": False, "methods": [], "failures": [whole(exc.file, exc.lineno, exc.what, str(exc))]})
        return 2
    base["source_sha1"] = {FILES[k]: src.sha[k] for k in ("statistics", "model", "simulator")}
    try:
        tr, failures = translate(src, keep_going)
    except Unsupported as exc:
        print(f"py2gallina_simstats: TRANSLATION FAILED\n{exc}", file=sys.stderr)
        report({**base, "ok": False, "methods": [], "failures": [whole(exc.file, exc.lineno, exc.what, str(exc))]})
        return 2
    gen = render(tr, src)
    target = (out_dir or (VERIF / "coq" / "Stats")) / "Gen_SimStats.v"
    target.parent.mkdir(parents=True, exist_ok=True)
    if not target.exists() or target.read_text() != gen:
        target.write_text(gen)
    h = hashlib.sha1()
    for r in sorted(tr.translated, key=lambda r: (r["file"], r["lines"][0], r["definition"])):
        h.update((r["definition"] + ":" + r["sha1"] + "\n").encode())
    info = {**base, "ok": not failures, "translated_text_sha1": h.hexdigest(),
            "generated_sha1": hashlib.sha1(gen.encode()).hexdigest(), "methods": tr.translated, "failures": failures,
            "hand_transcribed_only": HAND_ONLY}
    if out_dir is not None:
        (out_dir / "Gen_SimStats.json").write_text(json.dumps(info, indent=1) + "\n")
    for f in failures:
        print(f"py2gallina_simstats: TRANSLATION FAILED ({f['definition']} left out: hand-transcribed only)\n{f['error']}",
              file=sys.stderr)
    print(f"py2gallina_simstats: {len(tr.translated)} definitions from {CORE} -> {target} "
          f"(translated text sha1 {info['translated_text_sha1'][:12]})")
    return 2 if failures else 0


if __name__ == "__main__":
    sys.exit(main(sys.argv[1:]))
