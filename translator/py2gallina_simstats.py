#!/usr/bin/env python3
"""py2gallina_simstats.py -- regenerate the Gallina text of the simulation statistics from the source.

Reads, with Python's `ast` module (the modules under test are never imported; CRLF line ends are
normalised), of the tree in $VERIF_REPO (default /repo):

  src/pydsol/core/statistics.py   EventBasedCounter / EventBasedTally / EventBasedWeightedTally /
                                  EventBasedTimestampWeightedTally and SimCounter / SimTally /
                                  SimWeightedTally / SimPersistent: __init__, listen_to, notify,
                                  register, initialize, _fire_events, _fire_initialized, and
                                  TimestampWeightedTally.end_observations as the event-based classes
                                  inherit it (its `self.register` is the publishing one);
  src/pydsol/core/model.py        DSOLModel.__init__ (the dictionary), output_statistics,
                                  add_output_statistic, get_output_statistic;
  src/pydsol/core/simulator.py    of Simulator.initialize the statements about the model
                                  (`model.output_statistics().clear()`, `model.construct_model()`),
                                  in their order;
  pubsub.py / interfaces.py       class names, bases and method names only (method resolution).

and writes Gen_SimStats.v: one definition per (concrete class, method) over the state / log /
publication conventions of coq/Stats/SimStats.v.  coq/Stats/SimGenAgree.v proves every generated
definition equal to the hand-written model.

Method resolution is done here, statically, per CONCRETE class C (C3 linearisation computed from
the class statements): `self.m(..)` is the first m in C's MRO, `super().m(..)` the next one after
the class the text stands in, `P.m(self, ..)` the m found from P on.  An inherited method is
therefore translated once per concrete class it is reached from:
    gen_<C>_<m>              the m that `self.m` means for an object of class C
    gen_<C>_super_<O>_<m>    O.m reached by super() / an explicit parent call although C overrides m
Calls that resolve to EventProducer (fire, fire_timed, has_listeners, add_listener, __init__) and to
the ordinary statistics Counter / Tally / WeightedTally / TimestampWeightedTally (register,
initialize, __init__, the query methods, the attributes _last_value / _active) are the primitives
of the prelude resp. the hand-written functions of Stats/Tally.v, Weighted.v, Timestamp.v (those
classes are translated and proved equal to these functions by translator/py2gallina_stats.py +
Stats/GenAgree.v, the second tie of C09 / C10).

The translation is a shallow embedding and FAIL-CLOSED: a construct outside the subset below ends
the run with exit status 2 and `file:line: unsupported construct: ...`.  Nothing is skipped or
guessed.  With --keep-going (checks only) the definition concerned -- and every definition that
calls it -- is left out and reported ("hand-transcribed only"); the exit status is non-zero all
the same.

Supported subset
  publishing methods (notify, register, initialize, _fire_events, _fire_initialized,
  end_observations): the object is threaded through the statements in program order
  (`do x' <- <statement> x ;; <rest>`: the rest is not reached while an exception propagates)
    statements   docstring; `if / elif / else`; `raise X(..)`; `pass`; `v = e`;
                 `self.fire(StatEvents.E, e)`, `self.fire_timed(t, StatEvents.E, e)`: e is evaluated
                 at that point of the program, on the object as it is then, before the event is
                 delivered; `self.m(..)`, `super().m(..)`, `P.m(self, ..)`; `self._active = False`
    expressions  parameters, locals, `self` (as payload), `True` / `False`;
                 `event.event_type`, `event.content`, `event.content[0|1]`, `event.timestamp`;
                 `StatEvents.E`, `ReplicationInterface.E`, `SimulatorInterface.E`;
                 `self._event_types`, `self._last_value`, `self.simulator.simulator_time` (property
                 `simulator` must be `return self._simulator`); query methods of the ordinary
                 statistic `self.n()`, `self.stdev(False)`, ..; `float(e)` (raises where Python's
                 does); `len(e)`; `Event(t, c)`, `TimedEvent(ts, t, c)`; `isinstance(e, T)`;
                 `==`, `!=`, `in`, `not in`, `not`, `and`, `or`; `self.has_listeners()`
  constructors (__init__, listen_to): the listener tables of the simulator and of the producer,
  the model's dictionary and the attributes of the new object are threaded
    statements   `if`, `raise`, `self._simulator = simulator`, `self._key = key`,
                 `self._event_types[: T] = {StatEvents.E}`, `self._event_types.add(et)`,
                 `simulator.add_listener(X.E, self)`, `producer.add_listener(et, self)`,
                 `P.__init__(self, ..)`, `self.listen_to(..)`,
                 `simulator.model.add_output_statistic(key, self)`
    expressions  `isinstance(p, T)`, `p != None`, `p == None`, `p is [not] None`,
                 `simulator.model != None`, `not`, `and`, `or`
  DSOLModel      `self._output_statistics[: T] = {}`, `return self._output_statistics` (the dict
                 itself; `dict(..)` / `.copy()` is a new dict), `k in d`, `d[k] = v`, `return d[k]`,
                 `isinstance(statistic, StatisticsInterface)`, `raise`
Meaning given to them: see the prelude written into the generated file (PRELUDE below).

Trusted (joins the trusted base of C11): this file -- the subset semantics above, the method
resolution -- and its tables: SIG (value universe of every parameter), EVENTS (index of each
published event type per kind of statistic, the numbering of harness/c11_impl.py), QUERIES (the
model function behind each query method), the attribute tables.

usage: py2gallina_simstats.py [--out DIR [--keep-going]]
       default DIR: <verif>/coq/Stats, file Gen_SimStats.v; with --out also Gen_SimStats.json.
"""
from __future__ import annotations

import ast
import hashlib
import json
import os
import sys
import warnings
from pathlib import Path

VERIF = Path(__file__).resolve().parent.parent
REPO = Path(os.environ.get("VERIF_REPO", "/repo"))
CORE = REPO / "src" / "pydsol" / "core"
FILES = {"statistics": "statistics.py", "model": "model.py", "simulator": "simulator.py",
         "pubsub": "pubsub.py", "interfaces": "interfaces.py"}
REL = {k: "src/pydsol/core/" + v for k, v in FILES.items()}

# ---------------------------------------------------------------------------------------------- tables
PLAIN = {"Counter": "KCounter", "Tally": "KTally", "WeightedTally": "KWeighted", "TimestampWeightedTally": "KPersistent"}
KIND_ORDER = ["TimestampWeightedTally", "WeightedTally", "Tally", "Counter"]     # most derived first
# per kind: Coq type of the ordinary statistic's state, injection into SimStats.sstate, initial state
STATE = {"KCounter": ("cstate", "SC", "cinit"), "KTally": ("(tstate N)", "ST", "(tinit N)"),
         "KWeighted": ("(wstate N)", "SW", "(winit N)"), "KPersistent": ("(tsstate N)", "SP", "(tsinit N)")}
STD = {"KCounter": "ETData", "KTally": "ETData", "KWeighted": "ETWeightData", "KPersistent": "ETTimestampData"}
CONCRETE = ["EventBasedCounter", "EventBasedTally", "EventBasedWeightedTally", "EventBasedTimestampWeightedTally",
            "SimCounter", "SimTally", "SimWeightedTally", "SimPersistent"]
PUB_METHODS = ["_fire_events", "register", "_fire_initialized", "initialize", "end_observations", "notify"]
CTOR_METHODS = ["__init__", "listen_to"]
# value universe of the parameters (after self), per kind where it differs
SIG = {
    "register": {"KCounter": ["Cobs"], "KTally": ["Num"], "KWeighted": ["Num", "Num"], "KPersistent": ["Num", "Num"]},
    "_fire_events": {"KCounter": ["Cobs"], "KTally": ["Num"], "KWeighted": ["Num"], "KPersistent": ["Num", "Num"]},
    "_fire_initialized": [], "initialize": [], "end_observations": ["Num"], "notify": ["Event"],
}
GTYPE = {"Cobs": "cobs", "Num": "pyarg (F N)", "Event": "sevent N", "Key": "pykey", "Name": "pynm", "SimArg": "pysim",
         "ProdArg": "pyprod", "EtArg": "pyetarg", "Stat": "pystat", "DKey": "nat"}
# data / lifecycle event types
ETYPES = {("StatEvents", "DATA_EVENT"): "ETData", ("StatEvents", "WEIGHT_DATA_EVENT"): "ETWeightData",
          ("StatEvents", "TIMESTAMP_DATA_EVENT"): "ETTimestampData",
          ("ReplicationInterface", "WARMUP_EVENT"): "ETWarmup",
          ("ReplicationInterface", "END_REPLICATION_EVENT"): "ETEndRepl",
          ("ReplicationInterface", "START_REPLICATION_EVENT"): "(ETSim 0)",
          ("SimulatorInterface", "STARTING_EVENT"): "(ETSim 1)", ("SimulatorInterface", "START_EVENT"): "(ETSim 2)",
          ("SimulatorInterface", "TIME_CHANGED_EVENT"): "(ETSim 3)", ("SimulatorInterface", "STOPPING_EVENT"): "(ETSim 4)",
          ("SimulatorInterface", "STOP_EVENT"): "(ETSim 5)"}
# index of the events a statistic publishes (harness/c11_impl.py EVENT_NAMES, SimStats.pubval)
_T = ["INITIALIZED_EVENT", "OBSERVATION_ADDED_EVENT", "N_EVENT", "MIN_EVENT", "MAX_EVENT", "SUM_EVENT", "MEAN_EVENT",
      "POPULATION_STDEV_EVENT", "POPULATION_VARIANCE_EVENT", "POPULATION_SKEWNESS_EVENT", "POPULATION_KURTOSIS_EVENT",
      "POPULATION_EXCESS_K_EVENT", "SAMPLE_STDEV_EVENT", "SAMPLE_VARIANCE_EVENT", "SAMPLE_SKEWNESS_EVENT",
      "SAMPLE_KURTOSIS_EVENT", "SAMPLE_EXCESS_K_EVENT"]
_W = ["INITIALIZED_EVENT", "OBSERVATION_ADDED_EVENT", "N_EVENT", "MIN_EVENT", "MAX_EVENT", "WEIGHTED_SUM_EVENT",
      "WEIGHTED_MEAN_EVENT", "WEIGHTED_POPULATION_STDEV_EVENT", "WEIGHTED_POPULATION_VARIANCE_EVENT",
      "WEIGHTED_SAMPLE_STDEV_EVENT", "WEIGHTED_SAMPLE_VARIANCE_EVENT"]
EVENTS = {"KCounter": ["INITIALIZED_EVENT", "OBSERVATION_ADDED_EVENT", "N_EVENT", "COUNT_EVENT"], "KTally": _T,
          "KWeighted": _W, "KPersistent": _W}
# query methods of the ordinary statistics: (owner, method) -> (model function applied to the owner's state,
# takes `biased`, constructor of SimStats.pval)
QUERIES = {
    ("Counter", "n"): ("cn", False, "PVInt"), ("Counter", "count"): ("ccount", False, "PVInt"),
    ("Tally", "n"): ("g_n N", False, "PVInt"), ("Tally", "min"): ("g_min N", False, "PVX"),
    ("Tally", "max"): ("g_max N", False, "PVX"), ("Tally", "sum"): ("g_sum N", False, "PVNum"),
    ("Tally", "mean"): ("g_mean N", False, "PVRes"), ("Tally", "stdev"): ("g_stdev N", True, "PVRes"),
    ("Tally", "variance"): ("g_variance N", True, "PVRes"), ("Tally", "skewness"): ("g_skewness N", True, "PVRes"),
    ("Tally", "kurtosis"): ("g_kurtosis N", True, "PVRes"),
    ("Tally", "excess_kurtosis"): ("g_excess_kurtosis N", True, "PVRes"),
    ("WeightedTally", "n"): ("gw_n N", False, "PVInt"), ("WeightedTally", "min"): ("gw_min N", False, "PVX"),
    ("WeightedTally", "max"): ("gw_max N", False, "PVX"), ("WeightedTally", "weighted_sum"): ("gw_sum N", False, "PVNum"),
    ("WeightedTally", "weighted_mean"): ("gw_mean N", False, "PVRes"),
    ("WeightedTally", "weighted_stdev"): ("gw_stdev N", True, "PVRes"),
    ("WeightedTally", "weighted_variance"): ("gw_variance N", True, "PVRes"),
}
# register / initialize of the ordinary statistics: model function, applied to the owner's state
PLAIN_REGISTER = {"Counter": "cregister", "Tally": "tregister N", "WeightedTally": "wregister N",
                  "TimestampWeightedTally": "tsregister N"}
PLAIN_INIT = {"Counter": "cinit", "Tally": "(tinit N)", "WeightedTally": "(winit N)", "TimestampWeightedTally": "(tsinit N)"}
PLAIN_REG_SIG = {"Counter": ["Cobs"], "Tally": ["Num"], "WeightedTally": ["Num", "Num"], "TimestampWeightedTally": ["Num", "Num"]}
# attributes of TimestampWeightedTally read / written by the translated methods
TS_READ = {"_last_value": ("Num", "(ONum (ts_lastval (g_state {x})))")}
TS_WRITE = {"_active": ("Bool", "(fun s => mkTSt (ts_w s) (ts_start s) (ts_last s) (ts_lastval s) {v})")}
RAISES = {"TypeError": "CTypeError", "DSOLError": "CDSOLError", "KeyError": "CKeyError"}
PUB_RAISES = ("TypeError", "ValueError", "DSOLError", "EventError", "KeyError", "OverflowError", "ZeroDivisionError")
# hand-transcribed only (never translated): said in the coverage record of the check
HAND_ONLY = [
    "the subscriber of a statistic's own events (a queue of reactions: SimStats.deliver / prelude py_notify_listener) and the "
    "nesting budget of its re-entrant registrations (SimGenAgree.gen_react_*) - harness artefacts, EventListener.notify is abstract",
    "EventProducer.fire / fire_timed / has_listeners / add_listener of the statistic, the simulator and the model's producer "
    "(prelude py_fire, py_has_listeners, py_sim_add_listener, py_prod_add_listener; the class itself is tied by C08's translation); "
    "a fire on the model's producer stops at the first listener that raises (SimStats.recipients)",
    "Counter / Tally / WeightedTally / TimestampWeightedTally register, initialize, __init__ and query methods: the functions of "
    "Stats/Tally.v, Weighted.v, Timestamp.v (tied by translator/py2gallina_stats.py + Stats/GenAgree.v, C09 / C10)",
    "the simulator producing the observation log and the order of its events (Sim/Model.v, tied by translator/py2gallina_sim.py, C02-C05); "
    "of Simulator.initialize only the two statements about the model are read here",
    "construct_model of the harness (SimStats.construct / build_from: which constructor and listen_to calls create a declared "
    "statistic) and the composition of the translated methods over a whole log (SimGenAgree.gen_stat_run)",
    "the ghost log of operations ps_regs (agreement is stated after erasing it) and the comparison functions of the correspondence",
]

PRELUDE = r"""
(* ---- fixed prelude: Python primitives on the value universe of Stats/SimStats.v ---- *)
Section GenPrelude.
  Variable N : Num.
  Variable S : Type.                 (* state of the ordinary statistic the class extends *)

  (* the object `self` of a publishing statistic: the ordinary statistic's attributes, the
     subscriber's pending reactions, everything delivered so far (newest first), "an exception
     is propagating", "the nesting budget of the model ran out" *)
  Record gst := mkG {
    g_state : S;
    g_q : list (option (payload N));
    g_tr : list (pubrec N);
    g_raised : bool;
    g_nofuel : bool
  }.
  Definition set_gstate (s : S) (x : gst) : gst := mkG s (g_q x) (g_tr x) (g_raised x) (g_nofuel x).
  Definition set_gnofuel (x : gst) : gst := mkG (g_state x) (g_q x) (g_tr x) (g_raised x) true.
  (* raise ... *)
  Definition py_raise (x : gst) : gst := mkG (g_state x) (g_q x) (g_tr x) true (g_nofuel x).
  (* s1; s2  -- s2 is not reached while an exception propagates *)
  Definition py_then (x : gst) (k : gst -> gst) : gst := if g_raised x then x else k x.

  (* what is fixed during one notification: the event types (by index) of this statistic that
     have a listener, the listener's reaction (it may call register), float(simulator_time),
     self._event_types *)
  Record genv := mkEnv {
    e_lsub : list nat;
    e_react : gst -> payload N -> gst;
    e_tm : F N;
    e_types : list etype
  }.

  (* super().register(..) / X.initialize(self) of the ordinary statistic *)
  Definition py_plain (o : outcome S) (x : gst) : gst :=
    match o with Ok s => set_gstate s x | Exn _ s => py_raise (set_gstate s x) end.
  (* self._attr = v  on an attribute of the ordinary statistic *)
  Definition py_update (f : S -> S) (x : gst) : gst := set_gstate (f (g_state x)) x.
  (* v = <query method>(): the query may raise *)
  Definition py_eval (v : pval N) (x : gst) (k : gst) : gst := if pv_raises N v then py_raise x else k.
  (* EventProducer.has_listeners *)
  Definition py_has_listeners (E : genv) : bool := match e_lsub E with [] => false | _ => true end.

  Variable inj : S -> sstate N.      (* how that state reads in the model *)
  Definition emb (x : gst) (regs : list (bool * sop N)) : pst N :=
    mkPst (inj (g_state x)) (g_q x) (g_tr x) regs (g_raised x) (g_nofuel x).
  (* listener.notify(event j carrying v): recorded with the state at that moment, then the
     listener's next reaction *)
  Definition py_notify_listener (E : genv) (j : nat) (v : pval N) (x : gst) : gst :=
    let x1 := mkG (g_state x) (g_q x) (mkPub j v (inj (g_state x)) :: g_tr x) (g_raised x) (g_nofuel x) in
    match g_q x1 with
    | [] => x1
    | None :: q => mkG (g_state x1) q (g_tr x1) (g_raised x1) (g_nofuel x1)
    | Some p :: q => e_react E (mkG (g_state x1) q (g_tr x1) (g_raised x1) (g_nofuel x1)) p
    end.
  (* self.fire(EVENT_j, v): v was evaluated by the caller (and may have raised) *)
  Definition py_fire (E : genv) (j : nat) (v : pval N) (x : gst) : gst :=
    if pv_raises N v then py_raise x
    else if memn j (e_lsub E) then py_notify_listener E j v x else x.
  (* self.fire_timed(t, EVENT_j, v): the time stamp of a published event is not in the model *)
  Definition py_fire_timed {T : Type} (E : genv) (t : T) (j : nat) (v : pval N) (x : gst) : gst :=
    py_fire E j v x.
End GenPrelude.
Arguments mkG {N S} _ _ _ _ _.
Arguments g_state {N S} _.
Arguments g_q {N S} _.
Arguments g_tr {N S} _.
Arguments g_raised {N S} _.
Arguments g_nofuel {N S} _.
Arguments set_gstate {N S} _ _.
Arguments set_gnofuel {N S} _.
Arguments py_raise {N S} _.
Arguments py_then {N S} _ _.
Arguments mkEnv {N S} _ _ _ _.
Arguments e_lsub {N S} _.
Arguments e_react {N S} _.
Arguments e_tm {N S} _.
Arguments e_types {N S} _.
Arguments py_plain {N S} _ _.
Arguments py_update {N S} _ _.
Arguments py_eval {N S} _ _ _.
Arguments py_has_listeners {N S} _.
Arguments emb {N S} _ _ _.
Arguments py_notify_listener {N S} _ _ _ _ _.
Arguments py_fire {N S} _ _ _ _ _.
Arguments py_fire_timed {N S} _ {T} _ _ _ _ _.
Notation "'do' x '<-' e ';;' k" := (py_then e (fun x => k))
  (at level 200, x name, e at level 100, k at level 200, right associativity).

Section GenValues.
  Variable N : Num.
  (* events: isinstance(event, Event) holds for everything notify is called with;
     a TimedEvent is an event with a time stamp *)
  Definition py_is_event (e : sevent N) : bool := true.
  Definition py_is_timed_event (e : sevent N) : bool :=
    match ne_stamp e with Some _ => true | None => false end.
  Definition py_timestamp (e : sevent N) : pyarg (F N) :=
    match ne_stamp e with Some t => ONum t | None => ONotNumber end.
  Definition py_Event (ty : etype) (c : payload N) : sevent N := mkSev ty c None.
  Definition py_TimedEvent (t : F N) (ty : etype) (c : payload N) : sevent N := mkSev ty c (Some t).
  (* the content of a data event: what a counter reads (an int or not), what a tally reads (a
     number or not), what a weighted tally reads (a pair; anything else is represented by a pair
     whose weight is not a number) *)
  Definition py_content_is_int (c : payload N) : bool := match p_c c with CInt _ => true | CNotInt => false end.
  Definition py_content_is_tuple (c : payload N) : bool := true.
  Definition py_content_len (c : payload N) : nat := 2.
  (* isinstance(x, (float, int)); float(x) is defined for numbers within the float range *)
  Definition py_is_number (o : pyarg (F N)) : bool := match o with ONotNumber => false | _ => true end.
  Definition py_float_ok (o : pyarg (F N)) : bool := match o with ONum _ | ONaN => true | _ => false end.
  Definition py_time_float (t : F N) : pyarg (F N) := ONum t.
End GenValues.
Arguments py_is_event {N} _.
Arguments py_is_timed_event {N} _.
Arguments py_timestamp {N} _.
Arguments py_Event {N} _ _.
Arguments py_TimedEvent {N} _ _ _.
Arguments py_content_is_int {N} _.
Arguments py_content_is_tuple {N} _.
Arguments py_content_len {N} _.
Arguments py_is_number {N} _.
Arguments py_float_ok {N} _.
Arguments py_time_float {N} _.

(* constructor arguments *)
Definition py_key_is_str (k : pykey) : bool := match k with KStr _ => true | KNotStr => false end.
Definition py_key_str (k : pykey) : nat := match k with KStr n => n | KNotStr => O end.
Definition py_is_simulator (s : pysim) : bool := match s with SimObj _ => true | NotSim => false end.
Definition py_sim_has_model (s : pysim) : bool := match s with SimObj b => b | NotSim => false end.
Definition py_prod_is_none (p : pyprod) : bool := match p with ProdNone => true | _ => false end.
Definition py_is_producer (p : pyprod) : bool := match p with ProdObj => true | _ => false end.
Definition py_et_is_none (e : pyetarg) : bool := match e with EtNone => true | _ => false end.
Definition py_is_event_type (e : pyetarg) : bool := match e with EtObj _ => true | _ => false end.
Definition py_et (e : pyetarg) : etype := match e with EtObj t => t | _ => ETData end.
Definition py_is_statistic (s : pystat) : bool := match s with StatObj _ => true | NotStat => false end.
Definition py_stat_id (s : pystat) : nat := match s with StatObj n => n | NotStat => O end.
(* s1; s2 in a constructor *)
Definition c_then (r : cres) (k : cobj -> cres) : cres := match r with COk c => k c | CExn e c => CExn e c end.
(* simulator.add_listener(et, self) / producer.add_listener(et, self) *)
Definition py_sim_add_listener (e : etype) (l : nat) (c : cobj) : cobj :=
  mkCo (add_sub e l (co_sim c)) (co_prod c) (co_dict c) (co_types c) (co_key c) (co_plain c).
Definition py_prod_add_listener (e : etype) (l : nat) (c : cobj) : cobj :=
  mkCo (co_sim c) (add_sub e l (co_prod c)) (co_dict c) (co_types c) (co_key c) (co_plain c).
(* self._event_types = {..} / self._event_types.add(et) / self._key = key *)
Definition py_set_types (s : list etype) (c : cobj) : cobj :=
  mkCo (co_sim c) (co_prod c) (co_dict c) s (co_key c) (co_plain c).
Definition py_types_add (e : etype) (c : cobj) : cobj := py_set_types (set_add e (co_types c)) c.
Definition py_set_key (n : nat) (c : cobj) : cobj :=
  mkCo (co_sim c) (co_prod c) (co_dict c) (co_types c) (Some n) (co_plain c).
(* EventProducer.__init__(self): no listeners yet *)
Definition py_producer_init (c : cobj) : cres := COk c.
(* Counter / Tally / WeightedTally / TimestampWeightedTally.__init__(self, name): TypeError unless
   name is a str, else the initial state of that statistic *)
Definition py_plain_init (k : skind) (nm : pynm) (c : cobj) : cres :=
  match nm with
  | NmStr => COk (mkCo (co_sim c) (co_prod c) (co_dict c) (co_types c) (co_key c) (Some k))
  | NmOther => CExn CTypeError c
  end.
(* a method of the model called on simulator.model *)
Definition py_on_model (r : dres) (c : cobj) : cres :=
  match r with DOk d => COk (co_set_dict d c) | DExn e d => CExn e (co_set_dict d c) end.
(* the model's dictionary: a Python dict in insertion order *)
Definition py_dict_has (d : registry) (k : nat) : bool := match reg_get k d with Some _ => true | None => false end.
Fixpoint py_dict_set (d : registry) (k v : nat) : registry :=
  match d with
  | [] => [(k, v)]
  | (k', v') :: r => if Nat.eqb k' k then (k', v) :: r else (k', v') :: py_dict_set r k v
  end.
Definition py_dict_getitem (d : registry) (k : nat) : option nat := reg_get k d.     (* None: KeyError *)
(* what a method returning a dict hands out: the object's own dict, or a new one *)
Inductive dictval := DSelf | DCopy (d : registry).
Definition py_dict_clear (v : dictval) (own : registry) : registry :=
  match v with DSelf => [] | DCopy _ => own end.
"""


# ---------------------------------------------------------------------------------------------- source
class Unsupported(Exception):
    def __init__(self, file, node, what):
        self.file = file
        self.lineno = (node if isinstance(node, int) else getattr(node, "lineno", 0)) or 0
        self.what = what
        super().__init__(f"{CORE / FILES.get(file, file)}:{self.lineno}: unsupported construct: {what}")


class Source:
    """the five modules, parsed; class table; C3 method resolution"""

    def __init__(self):
        self.text, self.tree, self.sha = {}, {}, {}
        self.classes = {}        # name -> (file key, ClassDef)
        for key, fname in FILES.items():
            raw = (CORE / fname).read_bytes()
            text = raw.decode("utf-8", errors="replace").replace("\r\n", "\n").replace("\r", "\n")
            self.text[key] = text
            self.sha[key] = hashlib.sha1(text.encode("utf-8")).hexdigest()
            with warnings.catch_warnings():
                warnings.simplefilter("ignore")
                try:
                    self.tree[key] = ast.parse(text)
                except SyntaxError as exc:
                    raise Unsupported(key, exc.lineno or 0, f"syntax error: {exc.msg}")
            for node in self.tree[key].body:
                if isinstance(node, ast.ClassDef):
                    if node.name in self.classes:
                        raise Unsupported(key, node, f"class {node.name} defined twice (also in {self.classes[node.name][0]})")
                    self.classes[node.name] = (key, node)
        self._mro = {}

    def lines(self, key, a, b):
        return "\n".join(self.text[key].split("\n")[a - 1:b])

    def bases(self, cname):
        if cname not in self.classes:
            return []                       # ABC, Generic, Exception, object: leaves without methods of interest
        key, node = self.classes[cname]
        out = []
        for b in node.bases:
            if isinstance(b, ast.Name):
                out.append(b.id)
            elif isinstance(b, ast.Subscript) and isinstance(b.value, ast.Name):
                out.append(b.value.id)      # Generic[TIME]
            else:
                raise Unsupported(key, node, f"base class expression `{ast.unparse(b)}` of {cname}")
        if node.keywords:
            raise Unsupported(key, node, f"class keywords of {cname}")
        return out

    def mro(self, cname):
        if cname in self._mro:
            return self._mro[cname]
        bs = self.bases(cname)
        seqs = [list(self.mro(b)) for b in bs] + [list(bs)]
        res = [cname]
        while any(seqs):
            seqs = [s for s in seqs if s]
            for s in seqs:
                cand = s[0]
                if not any(cand in t[1:] for t in seqs):
                    break
            else:
                key = self.classes[cname][0] if cname in self.classes else "statistics"
                raise Unsupported(key, self.classes[cname][1] if cname in self.classes else 0,
                                  f"no consistent method resolution order for {cname}")
            res.append(cand)
            for s in seqs:
                if s and s[0] == cand:
                    del s[0]
        self._mro[cname] = res
        return res

    def methods(self, cname):
        """name -> list of FunctionDef in the class body (several for a property with a setter)"""
        out = {}
        if cname in self.classes:
            for node in self.classes[cname][1].body:
                if isinstance(node, (ast.FunctionDef, ast.AsyncFunctionDef)):
                    out.setdefault(node.name, []).append(node)
        return out

    def find(self, cname, mname, after=None):
        """the class whose `mname` an object of class `cname` gets (searching after `after` for super())"""
        m = self.mro(cname)
        if after is not None:
            if after not in m:
                return None
            m = m[m.index(after) + 1:]
        for c in m:
            if mname in self.methods(c):
                return c
            if c in self.classes:
                # a class attribute of that name shadows inherited methods
                for node in self.classes[c][1].body:
                    tg = []
                    if isinstance(node, ast.Assign):
                        tg = node.targets
                    elif isinstance(node, ast.AnnAssign):
                        tg = [node.target]
                    if any(isinstance(t, ast.Name) and t.id == mname for t in tg):
                        return c + ".<attribute>"
        return None


def strip_doc(body):
    if body and isinstance(body[0], ast.Expr) and isinstance(body[0].value, ast.Constant) and isinstance(body[0].value.value, str):
        return body[1:]
    return body


def ind(text, n=2):
    pad = " " * n
    return "\n".join(pad + l if l else l for l in text.split("\n"))


class V:
    """a translated expression: value universe, Gallina text, conditions under which evaluating it does not raise"""

    def __init__(self, ty, tx, guards=()):
        self.ty, self.tx, self.guards = ty, tx, list(guards)


class Env:
    def __init__(self, C, O, kind, file):
        self.C, self.O, self.kind, self.file = C, O, kind, file
        self.vars = {}
        self.n = 0
        self.locals_n = {}

    def fresh(self, stem):
        self.n += 1
        return f"{stem}_{self.n}"

    def local(self, name):
        self.locals_n[name] = self.locals_n.get(name, 0) + 1
        return f"v_{name}_{self.locals_n[name]}"


# ---------------------------------------------------------------------------------------------- translation
class Translator:
    def __init__(self, src: Source):
        self.src = src
        self.defs = []            # (name, text)
        self.translated = []      # records
        self.done = {}            # (C, O, m) -> name | Unsupported
        self.busy = set()

    def fail(self, env_or_file, node, what):
        file = env_or_file.file if isinstance(env_or_file, Env) else env_or_file
        raise Unsupported(file, node, what)

    # -- naming / resolution
    def kind(self, C, node=None):
        m = self.src.mro(C)
        for p in KIND_ORDER:
            if p in m:
                return PLAIN[p]
        raise Unsupported("statistics", node or 0, f"class {C} extends none of the ordinary statistics")

    def def_name(self, C, O, m):
        return f"gen_{C}_{m}" if self.src.find(C, m) == O else f"gen_{C}_super_{O}_{m}"

    def fn_node(self, O, m, file_hint="statistics"):
        if O not in self.src.classes:
            raise Unsupported(file_hint, 0, f"class {O} not found")
        file, cnode = self.src.classes[O]
        fns = self.src.methods(O).get(m)
        if not fns:
            raise Unsupported(file, cnode, f"method {O}.{m} not found")
        if len(fns) != 1:
            raise Unsupported(file, fns[1], f"{O}.{m} defined {len(fns)} times")
        fn = fns[0]
        if isinstance(fn, ast.AsyncFunctionDef):
            raise Unsupported(file, fn, "async def")
        return file, fn

    def define(self, C, O, m, at=None, file="statistics"):
        """translate O.m for objects of concrete class C (once); name of the definition"""
        key = (C, O, m)
        if key in self.done:
            r = self.done[key]
            if isinstance(r, Unsupported):
                raise Unsupported(file, at or 0, f"call of {O}.{m} (for {C}), which could not be translated: {r}")
            return r
        if key in self.busy:
            raise Unsupported(file, at or 0, f"recursive call chain through {O}.{m}")
        self.busy.add(key)
        try:
            if O == "DSOLModel" or O == "Simulator":
                name, text, rec = self.dict_method(O, m)
            elif m in CTOR_METHODS:
                name, text, rec = self.ctor_method(C, O, m)
            elif m in PUB_METHODS:
                name, text, rec = self.pub_method(C, O, m)
            else:
                raise Unsupported(file, at or 0, f"method {O}.{m} is not one this translator knows a signature for")
        except Unsupported as exc:
            self.done[key] = exc
            self.busy.discard(key)
            raise
        self.busy.discard(key)
        self.done[key] = name
        self.defs.append((name, text))
        self.translated.append(rec)
        return name

    def record(self, C, O, m, name, file, fn):
        a, b = fn.lineno, fn.end_lineno
        seg = self.src.lines(file, a, b)
        return {"class": O, "concrete_class": C, "method": m, "definition": name, "file": REL[file], "lines": [a, b],
                "sha1": hashlib.sha1(seg.encode("utf-8")).hexdigest()}

    def plain_args(self, fn, file, n, what):
        a = fn.args
        if a.vararg or a.kwarg or a.kwonlyargs or a.posonlyargs or a.defaults or a.kw_defaults:
            raise Unsupported(file, fn, f"signature of {what}: only plain positional parameters without defaults")
        if fn.decorator_list:
            raise Unsupported(file, fn, f"decorator on {what}")
        if not a.args or a.args[0].arg != "self":
            raise Unsupported(file, fn, f"{what}: first parameter must be self")
        ps = [x.arg for x in a.args[1:]]
        if len(ps) != n:
            raise Unsupported(file, fn, f"{what} takes {len(ps)} parameter(s), the model's has {n}")
        return ps

    # ====================================================================== publishing methods
    def pub_method(self, C, O, m):
        file, fn = self.fn_node(O, m)
        kind = self.kind(C, fn)
        sig = SIG[m][kind] if isinstance(SIG[m], dict) else SIG[m]
        if O in PLAIN and m != "end_observations":
            raise Unsupported(file, fn, f"{O}.{m} of the ordinary statistic is a primitive, not translated here")
        if m == "end_observations" and kind != "KPersistent":
            raise Unsupported(file, fn, "end_observations outside the time-stamped statistic")
        ps = self.plain_args(fn, file, len(sig), f"{O}.{m}")
        env = Env(C, O, kind, file)
        for p, t in zip(ps, sig):
            env.vars[p] = V(t, f"p_{p}")
        name = self.def_name(C, O, m)
        body = strip_doc(fn.body)
        if not body:
            raise Unsupported(file, fn, "empty body")
        tx = self.pseq(body, env, "x")
        S = STATE[kind][0]
        params = "".join(f" (p_{p} : {GTYPE[t]})" for p, t in zip(ps, sig))
        head = f"(* {O}.{m} for an object of class {C}  -- {REL[file]} lines {fn.lineno}-{fn.end_lineno} *)\n"
        text = head + f"Definition {name} (E : genv N {S}) (x : gst N {S}){params} : gst N {S} :=\n" + ind(tx) + "."
        return name, text, self.record(C, O, m, name, file, fn)

    def pseq(self, stmts, env, x):
        """the statements, from object x on; Gallina text of the resulting object"""
        if not stmts:
            return x
        s, rest = stmts[0], stmts[1:]
        if isinstance(s, ast.Pass):
            return self.pseq(rest, env, x) if rest else x
        if isinstance(s, ast.Raise):
            self.check_raise(s, env)
            if rest:
                self.fail(env, rest[0], "statement after raise")
            return f"py_raise {x}"
        if isinstance(s, ast.If):
            c = self.cond(s.test, env, x)
            guard_only = (not s.orelse) and self.always_raises(s.body)
            if guard_only and rest:
                return self.guarded(c.guards, x, f"if {c.tx} then\n{ind(self.pseq(s.body, env, x))}\nelse\n{ind(self.pseq(rest, env, x))}")
            a = self.pseq(s.body, env, x)
            b = self.pseq(s.orelse, env, x) if s.orelse else x
            both = f"if {c.tx} then\n{ind(a)}\nelse\n{ind(b)}"
            if not rest:
                return self.guarded(c.guards, x, both)
            x1 = env.fresh("x")
            return self.guarded(c.guards, x, f"do {x1} <- ({both}) ;;\n{self.pseq(rest, env, x1)}")
        if isinstance(s, ast.Assign) and len(s.targets) == 1 and isinstance(s.targets[0], ast.Name):
            v = self.ex(s.value, env, x)
            nm = env.local(s.targets[0].id)
            if not rest:
                self.fail(env, s, "assignment as the last statement")
            if v.ty == "PVal":
                env.vars[s.targets[0].id] = V("PVal", nm)
                return self.guarded(v.guards, x, f"let {nm} := {v.tx} in\npy_eval {nm} {x} (\n{self.pseq(rest, env, x)})")
            env.vars[s.targets[0].id] = V(v.ty, nm)
            return self.guarded(v.guards, x, f"let {nm} := {v.tx} in\n{self.pseq(rest, env, x)}")
        tx = self.simple(s, env, x)
        if not rest:
            return tx
        x1 = env.fresh("x")
        return f"do {x1} <- {tx} ;;\n{self.pseq(rest, env, x1)}"

    @staticmethod
    def guarded(guards, x, tx):
        for g in reversed(guards):
            tx = f"if negb {g} then py_raise {x} else\n{tx}"
        return tx

    def always_raises(self, stmts):
        return bool(stmts) and isinstance(stmts[-1], ast.Raise)

    def check_raise(self, s, env):
        e = s.exc
        if s.cause is not None or e is None:
            self.fail(env, s, "raise without an exception / with a cause")
        nm = e.func.id if isinstance(e, ast.Call) and isinstance(e.func, ast.Name) else (e.id if isinstance(e, ast.Name) else None)
        if nm not in PUB_RAISES:
            self.fail(env, s, f"raise of `{ast.unparse(e)[:60]}`")
        return nm

    # -- simple statements of a publishing method: text of the object afterwards
    def simple(self, s, env, x):
        if isinstance(s, ast.Assign) and len(s.targets) == 1 and isinstance(s.targets[0], ast.Attribute):
            t = s.targets[0]
            if isinstance(t.value, ast.Name) and t.value.id == "self" and t.attr in TS_WRITE and env.kind == "KPersistent":
                ty, tmpl = TS_WRITE[t.attr]
                v = self.ex(s.value, env, x)
                if v.ty != ty or v.guards:
                    self.fail(env, s, f"value assigned to self.{t.attr}")
                return f"py_update {tmpl.format(v=v.tx)} {x}"
            self.fail(env, s, f"assignment to `{ast.unparse(t)}`")
        if not (isinstance(s, ast.Expr) and isinstance(s.value, ast.Call)):
            self.fail(env, s, f"statement `{ast.unparse(s)[:70]}`")
        call = s.value
        if call.keywords:
            self.fail(env, call, "keyword arguments in a call")
        how, O, m, args = self.resolve_call(call, env)
        kind = env.kind
        inj = STATE[kind][1]
        if O == "EventProducer" and m in ("fire", "fire_timed"):
            want = 2 if m == "fire" else 3
            if len(args) != want:
                self.fail(env, call, f"{m} with {len(args)} arguments")
            guards = []
            tt = None
            if m == "fire_timed":
                t = self.ex(args[0], env, x)
                if t.ty not in ("Time", "Num"):
                    self.fail(env, args[0], f"time stamp of fire_timed: `{ast.unparse(args[0])}`")
                guards += t.guards
                tt = t.tx
            j = self.stat_event(args[-2], env)
            pv = self.ex(args[-1], env, x)
            guards += pv.guards
            ptx = self.as_pval(pv, env, args[-1])
            if m == "fire":
                return self.guarded(guards, x, f"py_fire {inj} E {j} {ptx} {x}")
            return self.guarded(guards, x, f"py_fire_timed {inj} E {tt} {j} {ptx} {x}")
        if O in PLAIN and m in ("register", "initialize"):
            if PLAIN[O] != kind:
                self.fail(env, call, f"{O}.{m} on an object whose ordinary statistic is not {O}")
            st = f"(g_state {x})"
            if m == "initialize":
                if args:
                    self.fail(env, call, "initialize with arguments")
                return f"py_plain (Ok {PLAIN_INIT[O]}) {x}"
            sig = PLAIN_REG_SIG[O]
            if len(args) != len(sig):
                self.fail(env, call, f"{O}.register with {len(args)} arguments")
            vs = [self.coerce(self.ex(a, env, x), t, env, a) for a, t in zip(args, sig)]
            guards = [g for v in vs for g in v.guards]
            return self.guarded(guards, x, f"py_plain ({PLAIN_REGISTER[O]} {st} {' '.join(v.tx for v in vs)}) {x}")
        if m in PUB_METHODS and (O not in PLAIN or m == "end_observations") and O in self.src.classes \
                and self.src.classes[O][0] == "statistics":
            name = self.define(env.C, O, m, at=call, file=env.file)
            sig = SIG[m][kind] if isinstance(SIG[m], dict) else SIG[m]
            if len(args) != len(sig):
                self.fail(env, call, f"{O}.{m} called with {len(args)} argument(s)")
            vs = [self.coerce(self.ex(a, env, x), t, env, a) for a, t in zip(args, sig)]
            guards = [g for v in vs for g in v.guards]
            return self.guarded(guards, x, " ".join([name, "E", x] + [v.tx for v in vs]))
        self.fail(env, call, f"call of {O}.{m}" if O else f"call `{ast.unparse(call)[:70]}`")

    def resolve_call(self, call, env):
        """(how, owner class, method, argument nodes) of self.m(..) / super().m(..) / P.m(self, ..)"""
        f = call.func
        if not isinstance(f, ast.Attribute):
            self.fail(env, call, f"call `{ast.unparse(call)[:70]}`")
        m = f.attr
        b = f.value
        if isinstance(b, ast.Name) and b.id == "self":
            O = self.src.find(env.C, m)
            if O is None:
                self.fail(env, call, f"self.{m}: no such method in the classes {env.C} extends")
            return "self", O, m, list(call.args)
        if isinstance(b, ast.Call) and isinstance(b.func, ast.Name) and b.func.id == "super" and not b.args and not b.keywords:
            O = self.src.find(env.C, m, after=env.O)
            if O is None:
                self.fail(env, call, f"super().{m}: no such method after {env.O} in the resolution order of {env.C}")
            return "super", O, m, list(call.args)
        if isinstance(b, ast.Name) and b.id in self.src.classes:
            if b.id not in self.src.mro(env.C):
                self.fail(env, call, f"{b.id}.{m}(self, ..): {b.id} is not a base of {env.C}")
            if not call.args or not (isinstance(call.args[0], ast.Name) and call.args[0].id == "self"):
                self.fail(env, call, f"{b.id}.{m}(..) without self as first argument")
            O = self.src.find(b.id, m)
            if O is None:
                self.fail(env, call, f"{b.id}.{m}: no such method")
            return "parent", O, m, list(call.args[1:])
        return "other", None, m, list(call.args)

    def stat_event(self, e, env):
        if isinstance(e, ast.Attribute) and isinstance(e.value, ast.Name) and e.value.id == "StatEvents":
            table = EVENTS[env.kind]
            if e.attr in table:
                return str(table.index(e.attr))
            self.fail(env, e, f"StatEvents.{e.attr} is not an event a {env.kind[1:].lower()} statistic publishes")
        self.fail(env, e, f"event type of a published event: `{ast.unparse(e)}`")

    def as_pval(self, v, env, node):
        if v.ty == "Cobs":
            return f"(PVObsC {v.tx})"
        if v.ty == "Num":
            return f"(PVObsV {v.tx})"
        if v.ty == "Self":
            return "PVSelf"
        if v.ty == "PVal":
            return v.tx
        self.fail(env, node, f"payload of a published event: `{ast.unparse(node)}` ({v.ty})")

    def coerce(self, v, want, env, node):
        if v.ty == want:
            return v
        if want == "Cobs" and v.ty == "Content":
            return V("Cobs", f"(p_c {v.tx})", v.guards)
        self.fail(env, node, f"`{ast.unparse(node)[:60]}` ({v.ty}) where the model expects {want}")

    # -- expressions of a publishing method
    def ex(self, e, env, x) -> V:
        if isinstance(e, ast.Name):
            if e.id == "self":
                return V("Self", "self")
            if e.id in env.vars:
                return env.vars[e.id]
            self.fail(env, e, f"name `{e.id}`")
        if isinstance(e, ast.Constant):
            if e.value is True:
                return V("Bool", "true")
            if e.value is False:
                return V("Bool", "false")
            if isinstance(e.value, int) and not isinstance(e.value, bool) and 0 <= e.value < 100:
                return V("Nat", f"{e.value}%nat")
            self.fail(env, e, f"constant `{e.value!r}`")
        if isinstance(e, ast.Attribute):
            b = e.value
            if isinstance(b, ast.Name) and b.id in env.vars and env.vars[b.id].ty == "Event":
                ev = env.vars[b.id].tx
                if e.attr == "event_type":
                    return V("EType", f"(ne_type {ev})")
                if e.attr == "content":
                    return V("Content", f"(ne_content {ev})")
                if e.attr == "timestamp":
                    return V("Stamp", f"(py_timestamp {ev})")
                self.fail(env, e, f"attribute `{e.attr}` of an event")
            if isinstance(b, ast.Name) and (b.id, e.attr) in ETYPES:
                return V("EType", ETYPES[(b.id, e.attr)])
            if isinstance(b, ast.Name) and b.id == "self":
                if e.attr == "_event_types":
                    return V("ETSet", "(e_types E)")
                if e.attr in TS_READ and env.kind == "KPersistent":
                    ty, tmpl = TS_READ[e.attr]
                    return V(ty, tmpl.format(x=x))
                self.fail(env, e, f"attribute self.{e.attr}")
            if e.attr == "simulator_time" and self.is_self_simulator(b, env):
                return V("Time", "(e_tm E)")
            self.fail(env, e, f"attribute `{ast.unparse(e)}`")
        if isinstance(e, ast.Subscript):
            base = self.ex(e.value, env, x)
            if base.ty == "Content" and isinstance(e.slice, ast.Constant) and e.slice.value in (0, 1) \
                    and not isinstance(e.slice.value, bool):
                return V("Num", f"({'p_w' if e.slice.value == 0 else 'p_v'} {base.tx})", base.guards)
            self.fail(env, e, f"subscript `{ast.unparse(e)}`")
        if isinstance(e, ast.Call):
            return self.call_ex(e, env, x)
        if isinstance(e, (ast.BoolOp, ast.UnaryOp, ast.Compare)):
            return self.cond(e, env, x)
        self.fail(env, e, f"expression `{ast.unparse(e)[:70]}`")

    def is_self_simulator(self, b, env):
        """`self.simulator` (property returning self._simulator) or `self._simulator`"""
        if not (isinstance(b, ast.Attribute) and isinstance(b.value, ast.Name) and b.value.id == "self"):
            return False
        if b.attr == "_simulator":
            return True
        if b.attr != "simulator":
            return False
        O = self.src.find(env.C, "simulator")
        if O is None or O not in self.src.classes:
            self.fail(env, b, "self.simulator: no such property")
        file, fn = self.fn_node(O, "simulator", env.file)
        decos = [ast.unparse(d) for d in fn.decorator_list]
        body = strip_doc(fn.body)
        if decos != ["property"] or len(body) != 1 or not isinstance(body[0], ast.Return) \
                or ast.unparse(body[0].value) != "self._simulator":
            raise Unsupported(file, fn, f"property {O}.simulator must be `return self._simulator`")
        return True

    def call_ex(self, e, env, x) -> V:
        f = e.func
        if e.keywords:
            self.fail(env, e, "keyword arguments in a call")
        if isinstance(f, ast.Name):
            if f.id == "float" and len(e.args) == 1:
                v = self.ex(e.args[0], env, x)
                if v.ty == "Content":
                    tx = f"(p_v {v.tx})"
                    return V("Num", tx, v.guards + [f"(py_float_ok {tx})"])
                if v.ty in ("Num", "Stamp"):
                    return V("Num", v.tx, v.guards + [f"(py_float_ok {v.tx})"])
                if v.ty == "Time":
                    return V("Num", f"(py_time_float {v.tx})", v.guards)
                self.fail(env, e, f"float() of `{ast.unparse(e.args[0])}` ({v.ty})")
            if f.id == "len" and len(e.args) == 1:
                v = self.ex(e.args[0], env, x)
                if v.ty == "Content":
                    return V("Nat", f"(py_content_len {v.tx})", v.guards)
                self.fail(env, e, f"len() of `{ast.unparse(e.args[0])}`")
            if f.id == "isinstance" and len(e.args) == 2:
                return self.isinstance_(e, env, x)
            if f.id == "Event" and len(e.args) == 2:
                t, c = self.ex(e.args[0], env, x), self.ex(e.args[1], env, x)
                if t.ty == "EType" and c.ty == "Content":
                    return V("Event", f"(py_Event {t.tx} {c.tx})", t.guards + c.guards)
                self.fail(env, e, f"Event({t.ty}, {c.ty})")
            if f.id == "TimedEvent" and len(e.args) == 3:
                ts, t, c = (self.ex(a, env, x) for a in e.args)
                if ts.ty == "Time" and t.ty == "EType" and c.ty == "Content":
                    return V("Event", f"(py_TimedEvent {ts.tx} {t.tx} {c.tx})", ts.guards + t.guards + c.guards)
                self.fail(env, e, f"TimedEvent({ts.ty}, {t.ty}, {c.ty})")
            self.fail(env, e, f"call of `{f.id}`")
        how, O, m, args = self.resolve_call(e, env)
        if how in ("self", "super", "parent") and O == "EventProducer" and m == "has_listeners" and not args:
            return V("Bool", "(py_has_listeners E)")
        if how in ("self", "super", "parent") and (O, m) in QUERIES:
            fn_, biased, ctor = QUERIES[(O, m)]
            st = f"(g_state {x})"
            if env.kind == "KPersistent":
                if O != "WeightedTally":
                    self.fail(env, e, f"query {O}.{m} on a time-stamped statistic")
                st = f"(ts_w (g_state {x}))"
            elif PLAIN[O] != env.kind:
                self.fail(env, e, f"query {O}.{m} on an object whose ordinary statistic is not {O}")
            if biased:
                b = self.biased_arg(O, m, args, env, e, x)
                return V("PVal", f"({ctor} ({fn_} {b} {st}))")
            if args:
                self.fail(env, e, f"{m}() with arguments")
            self.check_query_sig(O, m, env, e, False)
            return V("PVal", f"({ctor} ({fn_} {st}))")
        self.fail(env, e, f"call of {O}.{m}" if O else f"call `{ast.unparse(e)[:70]}`")

    def check_query_sig(self, O, m, env, at, biased):
        file, fn = self.fn_node(O, m, env.file)
        a = fn.args
        ok = not (a.vararg or a.kwarg or a.kwonlyargs or a.posonlyargs) and a.args and a.args[0].arg == "self"
        if biased:
            ok = ok and len(a.args) == 2 and len(a.defaults) == 1 and isinstance(a.defaults[0], ast.Constant) \
                and isinstance(a.defaults[0].value, bool)
        else:
            ok = ok and len(a.args) == 1
        if not ok or fn.decorator_list:
            raise Unsupported(file, fn, f"signature of the query method {O}.{m}")
        return fn

    def biased_arg(self, O, m, args, env, at, x):
        fn = self.check_query_sig(O, m, env, at, True)
        if not args:
            return "true" if fn.args.defaults[0].value else "false"
        if len(args) != 1:
            self.fail(env, at, f"{m}() with {len(args)} arguments")
        v = self.ex(args[0], env, x)
        if v.ty != "Bool" or v.guards:
            self.fail(env, at, f"argument of {m}(): `{ast.unparse(args[0])}`")
        return v.tx

    def isinstance_(self, e, env, x) -> V:
        v = self.ex(e.args[0], env, x)
        t = e.args[1]
        names = sorted(n.id for n in t.elts) if isinstance(t, ast.Tuple) and all(isinstance(n, ast.Name) for n in t.elts) \
            else ([t.id] if isinstance(t, ast.Name) else None)
        if names is None:
            self.fail(env, e, f"isinstance class `{ast.unparse(t)}`")
        if v.ty == "Event" and names == ["Event"]:
            return V("Bool", f"(py_is_event {v.tx})", v.guards)
        if v.ty == "Event" and names == ["TimedEvent"]:
            return V("Bool", f"(py_is_timed_event {v.tx})", v.guards)
        if v.ty == "Content" and names == ["int"]:
            return V("Bool", f"(py_content_is_int {v.tx})", v.guards)
        if v.ty == "Content" and names == ["tuple"]:
            return V("Bool", f"(py_content_is_tuple {v.tx})", v.guards)
        if v.ty == "Content" and names == ["float", "int"]:
            return V("Bool", f"(py_is_number (p_v {v.tx}))", v.guards)
        if v.ty == "Num" and names == ["float", "int"]:
            return V("Bool", f"(py_is_number {v.tx})", v.guards)
        self.fail(env, e, f"isinstance(`{ast.unparse(e.args[0])}` : {v.ty}, {ast.unparse(t)})")

    def cond(self, e, env, x) -> V:
        if isinstance(e, ast.UnaryOp) and isinstance(e.op, ast.Not):
            c = self.cond(e.operand, env, x)
            return V("Bool", f"(negb {c.tx})", c.guards)
        if isinstance(e, ast.BoolOp):
            cs = [self.cond(v, env, x) for v in e.values]
            if any(c.guards for c in cs[1:]):
                self.fail(env, e, "an operand of and / or that may raise")
            op = " && " if isinstance(e.op, ast.And) else " || "
            return V("Bool", "(" + op.join(c.tx for c in cs) + ")", cs[0].guards)
        if isinstance(e, ast.Compare):
            if len(e.ops) != 1:
                self.fail(env, e, "chained comparison")
            op, l, r = e.ops[0], self.ex(e.left, env, x), self.ex(e.comparators[0], env, x)
            g = l.guards + r.guards
            if isinstance(op, (ast.Eq, ast.NotEq)) and l.ty == "EType" and r.ty == "EType":
                tx = f"(etype_eqb {l.tx} {r.tx})"
            elif isinstance(op, (ast.Eq, ast.NotEq)) and l.ty == "Nat" and r.ty == "Nat":
                tx = f"(Nat.eqb {l.tx} {r.tx})"
            elif isinstance(op, (ast.In, ast.NotIn)) and l.ty == "EType" and r.ty == "ETSet":
                tx = f"(et_in {l.tx} {r.tx})"
            else:
                self.fail(env, e, f"comparison `{ast.unparse(e)[:70]}` ({l.ty} vs {r.ty})")
            if isinstance(op, (ast.NotEq, ast.NotIn)):
                tx = f"(negb {tx})"
            return V("Bool", tx, g)
        v = self.ex(e, env, x)
        if v.ty != "Bool":
            self.fail(env, e, f"truth value of `{ast.unparse(e)[:60]}` ({v.ty})")
        return v

    # ====================================================================== constructors, listen_to
    def ctor_method(self, C, O, m):
        file, fn = self.fn_node(O, m)
        kind = self.kind(C, fn)
        a = fn.args
        if a.vararg or a.kwarg or a.posonlyargs or fn.decorator_list or not a.args or a.args[0].arg != "self":
            raise Unsupported(file, fn, f"signature of {O}.{m}")
        pos = [x.arg for x in a.args[1:]]
        kwo = [x.arg for x in a.kwonlyargs]
        env = Env(C, O, kind, file)
        if m == "__init__" and len(pos) == 3 and len(kwo) == 2 and not a.defaults:
            if not all(isinstance(d, ast.Constant) and d.value is None for d in a.kw_defaults):
                raise Unsupported(file, fn, f"{O}.__init__: producer / event_type must default to None")
            types = ["Key", "Name", "SimArg", "ProdArg", "EtArg"]
            ps = pos + kwo
        elif m == "__init__" and len(pos) == 1 and not kwo and not a.defaults:
            types, ps = ["Name"], pos
        elif m == "listen_to" and len(pos) == 2 and not kwo and len(a.defaults) <= 1:
            if a.defaults and ast.unparse(a.defaults[0]) != "StatEvents." + {v: k[1] for k, v in ETYPES.items()}[STD[kind]]:
                raise Unsupported(file, fn, f"default event type of {O}.listen_to: `{ast.unparse(a.defaults[0])}`")
            types, ps = ["ProdArg", "EtArg"], pos
        else:
            raise Unsupported(file, fn, f"signature of {O}.{m}: ({', '.join(pos)}; {', '.join(kwo)})")
        for p, t in zip(ps, types):
            env.vars[p] = V(t, f"p_{p}")
        name = self.def_name(C, O, m)
        body = strip_doc(fn.body)
        if not body:
            raise Unsupported(file, fn, "empty body")
        tx = self.cseq(body, env, "c")
        params = "".join(f" (p_{p} : {GTYPE[t]})" for p, t in zip(ps, types))
        head = f"(* {O}.{m} for an object of class {C}  -- {REL[file]} lines {fn.lineno}-{fn.end_lineno} *)\n"
        text = head + f"Definition {name} (self : nat) (c : cobj){params} : cres :=\n" + ind(tx) + "."
        return name, text, self.record(C, O, m, name, file, fn)

    def cseq(self, stmts, env, c):
        if not stmts:
            return f"COk {c}"
        s, rest = stmts[0], stmts[1:]
        if isinstance(s, ast.Pass):
            return self.cseq(rest, env, c)
        if isinstance(s, ast.Raise):
            nm = self.check_raise(s, env)
            if nm not in RAISES:
                self.fail(env, s, f"raise {nm} in a constructor")
            if rest:
                self.fail(env, rest[0], "statement after raise")
            return f"CExn {RAISES[nm]} {c}"
        if isinstance(s, ast.If):
            ct = self.ccond(s.test, env)
            if not s.orelse and self.always_raises(s.body) and rest:
                return f"if {ct} then\n{ind(self.cseq(s.body, env, c))}\nelse\n{ind(self.cseq(rest, env, c))}"
            a = self.cseq(s.body, env, c)
            b = self.cseq(s.orelse, env, c)
            both = f"if {ct} then\n{ind(a)}\nelse\n{ind(b)}"
            if not rest:
                return both
            c1 = env.fresh("c")
            return f"c_then ({both}) (fun {c1} =>\n{self.cseq(rest, env, c1)})"
        kind, tx = self.cstmt(s, env, c)
        if kind == "none":
            return self.cseq(rest, env, c)
        c1 = env.fresh("c")
        if kind == "pure":
            return f"let {c1} := {tx} in\n{self.cseq(rest, env, c1)}"
        if not rest:
            return tx
        return f"c_then ({tx}) (fun {c1} =>\n{self.cseq(rest, env, c1)})"

    def param(self, e, env, ty):
        if isinstance(e, ast.Name) and e.id in env.vars and env.vars[e.id].ty == ty:
            return env.vars[e.id].tx
        return None

    def cetype(self, e, env):
        """an event type: a constant of StatEvents / ReplicationInterface / SimulatorInterface or the event_type parameter"""
        if isinstance(e, ast.Attribute) and isinstance(e.value, ast.Name) and (e.value.id, e.attr) in ETYPES:
            return ETYPES[(e.value.id, e.attr)]
        p = self.param(e, env, "EtArg")
        if p:
            return f"(py_et {p})"
        self.fail(env, e, f"event type `{ast.unparse(e)}`")

    def is_self(self, e):
        return isinstance(e, ast.Name) and e.id == "self"

    def cstmt(self, s, env, c):
        """('none' | 'pure' | 'res', text): no effect on the tables / a new cobj / a cres"""
        if isinstance(s, (ast.Assign, ast.AnnAssign)):
            tg = s.targets[0] if isinstance(s, ast.Assign) and len(s.targets) == 1 else (s.target if isinstance(s, ast.AnnAssign) else None)
            if s.value is None or not (isinstance(tg, ast.Attribute) and self.is_self(tg.value)):
                self.fail(env, s, f"assignment `{ast.unparse(s)[:70]}`")
            if tg.attr == "_simulator" and self.param(s.value, env, "SimArg"):
                return "none", ""
            if tg.attr == "_key" and self.param(s.value, env, "Key"):
                return "pure", f"py_set_key (py_key_str {self.param(s.value, env, 'Key')}) {c}"
            if tg.attr == "_event_types" and isinstance(s.value, ast.Set):
                ets = [self.cetype(x, env) for x in s.value.elts]
                return "pure", f"py_set_types [{'; '.join(ets)}] {c}"
            self.fail(env, s, f"assignment to self.{tg.attr}")
        if not (isinstance(s, ast.Expr) and isinstance(s.value, ast.Call)):
            self.fail(env, s, f"statement `{ast.unparse(s)[:70]}`")
        call = s.value
        if call.keywords:
            self.fail(env, call, "keyword arguments in a call")
        f = call.func
        if not isinstance(f, ast.Attribute):
            self.fail(env, call, f"call `{ast.unparse(call)[:70]}`")
        b, m, args = f.value, f.attr, list(call.args)
        # simulator.add_listener(X, self) / producer.add_listener(et, self)
        if m == "add_listener" and len(args) == 2 and self.is_self(args[1]):
            if self.param(b, env, "SimArg"):
                return "pure", f"py_sim_add_listener {self.cetype(args[0], env)} self {c}"
            if self.param(b, env, "ProdArg"):
                return "pure", f"py_prod_add_listener {self.cetype(args[0], env)} self {c}"
        # self._event_types.add(et)
        if m == "add" and len(args) == 1 and isinstance(b, ast.Attribute) and self.is_self(b.value) and b.attr == "_event_types":
            return "pure", f"py_types_add {self.cetype(args[0], env)} {c}"
        # simulator.model.add_output_statistic(key, self)
        if m == "add_output_statistic" and isinstance(b, ast.Attribute) and b.attr == "model" and self.param(b.value, env, "SimArg") \
                and len(args) == 2 and self.param(args[0], env, "Key") and self.is_self(args[1]):
            name = self.define("DSOLModel", "DSOLModel", "add_output_statistic", at=call, file=env.file)
            return "res", f"py_on_model ({name} (co_dict {c}) (py_key_str {self.param(args[0], env, 'Key')}) (StatObj self)) {c}"
        how, O, mm, cargs = self.resolve_call(call, env)
        if how in ("super", "parent") and mm == "__init__":
            if O == "EventProducer":
                if cargs:
                    self.fail(env, call, "EventProducer.__init__ with arguments")
                return "res", f"py_producer_init {c}"
            if O in PLAIN:
                if PLAIN[O] != env.kind or len(cargs) != 1 or not self.param(cargs[0], env, "Name"):
                    self.fail(env, call, f"{O}.__init__ called with `{ast.unparse(call)[:60]}`")
                return "res", f"py_plain_init {PLAIN[O]} {self.param(cargs[0], env, 'Name')} {c}"
            if O in self.src.classes and self.src.classes[O][0] == "statistics":
                name = self.define(env.C, O, "__init__", at=call, file=env.file)
                ps = [self.param(a, env, "Name") for a in cargs]
                if len(ps) != 1 or not ps[0]:
                    self.fail(env, call, f"{O}.__init__ called with `{ast.unparse(call)[:60]}`")
                return "res", f"{name} self {c} {ps[0]}"
        if how == "self" and mm == "listen_to" and O in self.src.classes and self.src.classes[O][0] == "statistics":
            name = self.define(env.C, O, "listen_to", at=call, file=env.file)
            if len(cargs) != 2 or not self.param(cargs[0], env, "ProdArg") or not self.param(cargs[1], env, "EtArg"):
                self.fail(env, call, f"listen_to called with `{ast.unparse(call)[:60]}`")
            return "res", f"{name} self {c} {self.param(cargs[0], env, 'ProdArg')} {self.param(cargs[1], env, 'EtArg')}"
        self.fail(env, call, f"call `{ast.unparse(call)[:70]}`")

    def ccond(self, e, env):
        if isinstance(e, ast.UnaryOp) and isinstance(e.op, ast.Not):
            return f"(negb {self.ccond(e.operand, env)})"
        if isinstance(e, ast.BoolOp):
            op = " && " if isinstance(e.op, ast.And) else " || "
            return "(" + op.join(self.ccond(v, env) for v in e.values) + ")"
        if isinstance(e, ast.Call) and isinstance(e.func, ast.Name) and e.func.id == "isinstance" and len(e.args) == 2 \
                and isinstance(e.args[1], ast.Name) and not e.keywords:
            t = e.args[1].id
            for ty, cls, fn_ in (("Key", "str", "py_key_is_str"), ("SimArg", "SimulatorInterface", "py_is_simulator"),
                                 ("ProdArg", "EventProducer", "py_is_producer"), ("EtArg", "EventType", "py_is_event_type")):
                p = self.param(e.args[0], env, ty)
                if p and t == cls:
                    return f"({fn_} {p})"
            self.fail(env, e, f"isinstance test `{ast.unparse(e)}`")
        if isinstance(e, ast.Compare) and len(e.ops) == 1 and isinstance(e.comparators[0], ast.Constant) \
                and e.comparators[0].value is None and isinstance(e.ops[0], (ast.Eq, ast.NotEq, ast.Is, ast.IsNot)):
            l = e.left
            tx = None
            if self.param(l, env, "ProdArg"):
                tx = f"(py_prod_is_none {self.param(l, env, 'ProdArg')})"
            elif self.param(l, env, "EtArg"):
                tx = f"(py_et_is_none {self.param(l, env, 'EtArg')})"
            elif isinstance(l, ast.Attribute) and l.attr == "model" and self.param(l.value, env, "SimArg"):
                tx = f"(negb (py_sim_has_model {self.param(l.value, env, 'SimArg')}))"
            if tx is None:
                self.fail(env, e, f"comparison with None: `{ast.unparse(e)}`")
            return f"(negb {tx})" if isinstance(e.ops[0], (ast.NotEq, ast.IsNot)) else tx
        self.fail(env, e, f"condition `{ast.unparse(e)[:70]}`")

    # ====================================================================== DSOLModel, Simulator.initialize
    IGNORED_MODEL_ATTRS = {"_simulator": "the simulator of the model", "_input_parameters": "the input parameters (C18)"}

    def dict_method(self, O, m):
        if O == "Simulator":
            return self.sim_initialize()
        file, fn = self.fn_node(O, m, "model")
        env = Env(O, O, None, file)
        a = fn.args
        pos = [x.arg for x in a.args[1:]]
        if a.vararg or a.posonlyargs or a.kwonlyargs or a.defaults or not a.args or a.args[0].arg != "self" \
                or (a.kwarg and m != "__init__"):
            raise Unsupported(file, fn, f"signature of {O}.{m}")
        decos = [ast.unparse(d) for d in fn.decorator_list]
        if decos:
            raise Unsupported(file, fn, f"decorator on {O}.{m}")
        name = f"gen_{O}_{m}"
        body = strip_doc(fn.body)
        D = "_output_statistics"
        head = f"(* {O}.{m}  -- {REL[file]} lines {fn.lineno}-{fn.end_lineno} *)\n"

        def is_d(e):
            return isinstance(e, ast.Attribute) and self.is_self(e.value) and e.attr == D

        if m == "__init__":
            if pos != ["simulator"]:
                raise Unsupported(file, fn, f"parameters of {O}.__init__: {pos}")
            env.vars["simulator"] = V("SimArg", "p_simulator")
            found = [False]

            def seq(stmts, d):
                if not stmts:
                    return f"DOk {d}"
                s, rest = stmts[0], stmts[1:]
                if isinstance(s, ast.If) and not s.orelse and self.always_raises(s.body) and len(s.body) == 1:
                    nm = self.check_raise(s.body[0], env)
                    if nm not in RAISES:
                        self.fail(env, s, f"raise {nm}")
                    return f"if {self.ccond(s.test, env)} then DExn {RAISES[nm]} {d} else\n{seq(rest, d)}"
                if isinstance(s, (ast.Assign, ast.AnnAssign)):
                    tg = s.targets[0] if isinstance(s, ast.Assign) and len(s.targets) == 1 else getattr(s, "target", None)
                    if isinstance(tg, ast.Attribute) and self.is_self(tg.value) and s.value is not None:
                        if tg.attr == D:
                            v = s.value
                            empty = (isinstance(v, ast.Dict) and not v.keys) or \
                                    (isinstance(v, ast.Call) and isinstance(v.func, ast.Name) and v.func.id == "dict"
                                     and not v.args and not v.keywords)
                            if not empty:
                                self.fail(env, s, f"initial value of self.{D}: `{ast.unparse(v)}`")
                            found[0] = True
                            return f"let d_new := [] in\n{seq(rest, 'd_new')}"
                        if tg.attr in self.IGNORED_MODEL_ATTRS and D not in ast.unparse(s.value):
                            return seq(rest, d)
                self.fail(env, s, f"statement `{ast.unparse(s)[:70]}`")
            tx = seq(body, "d")
            if not found[0]:
                raise Unsupported(file, fn, f"{O}.__init__ does not create self.{D}")
            text = head + f"Definition {name} (d : registry) (p_simulator : pysim) : dres :=\n" + ind(tx) + "."
        elif m == "output_statistics":
            if pos or len(body) != 1 or not isinstance(body[0], ast.Return) or body[0].value is None:
                raise Unsupported(file, fn, f"{O}.output_statistics must be a single return")
            v = body[0].value
            if is_d(v):
                tx = "DSelf"
            elif (isinstance(v, ast.Call) and isinstance(v.func, ast.Name) and v.func.id == "dict" and len(v.args) == 1
                  and is_d(v.args[0]) and not v.keywords) or \
                    (isinstance(v, ast.Call) and isinstance(v.func, ast.Attribute) and v.func.attr == "copy"
                     and is_d(v.func.value) and not v.args and not v.keywords):
                tx = "DCopy d"
            else:
                self.fail(env, v, f"value returned by output_statistics: `{ast.unparse(v)}`")
            text = head + f"Definition {name} (d : registry) : dictval :=\n  {tx}."
        elif m == "get_output_statistic":
            if len(pos) != 1 or len(body) != 1 or not isinstance(body[0], ast.Return) or body[0].value is None:
                raise Unsupported(file, fn, f"{O}.get_output_statistic must be a single return")
            v = body[0].value
            if not (isinstance(v, ast.Subscript) and is_d(v.value) and isinstance(v.slice, ast.Name) and v.slice.id == pos[0]):
                self.fail(env, v, f"value returned by get_output_statistic: `{ast.unparse(v)}`")
            text = head + f"Definition {name} (d : registry) (p_{pos[0]} : nat) : option nat :=\n  py_dict_getitem d p_{pos[0]}."
        elif m == "add_output_statistic":
            if len(pos) != 2:
                raise Unsupported(file, fn, f"parameters of {O}.add_output_statistic: {pos}")
            k, st = pos

            def dcond(e):
                if isinstance(e, ast.UnaryOp) and isinstance(e.op, ast.Not):
                    return f"(negb {dcond(e.operand)})"
                if isinstance(e, ast.Compare) and len(e.ops) == 1 and isinstance(e.ops[0], (ast.In, ast.NotIn)) \
                        and isinstance(e.left, ast.Name) and e.left.id == k and is_d(e.comparators[0]):
                    tx = f"(py_dict_has {{d}} p_{k})"
                    return f"(negb {tx})" if isinstance(e.ops[0], ast.NotIn) else tx
                if isinstance(e, ast.Call) and isinstance(e.func, ast.Name) and e.func.id == "isinstance" and len(e.args) == 2 \
                        and isinstance(e.args[0], ast.Name) and e.args[0].id == st and isinstance(e.args[1], ast.Name) \
                        and e.args[1].id == "StatisticsInterface":
                    return f"(py_is_statistic p_{st})"
                self.fail(env, e, f"condition `{ast.unparse(e)[:70]}`")

            cnt = [0]

            def seq(stmts, d):
                if not stmts:
                    return f"DOk {d}"
                s, rest = stmts[0], stmts[1:]
                if isinstance(s, ast.If) and not s.orelse and self.always_raises(s.body) and len(s.body) == 1:
                    nm = self.check_raise(s.body[0], env)
                    if nm not in RAISES:
                        self.fail(env, s, f"raise {nm}")
                    return f"if {dcond(s.test).format(d=d)} then DExn {RAISES[nm]} {d} else\n{seq(rest, d)}"
                if isinstance(s, ast.Assign) and len(s.targets) == 1 and isinstance(s.targets[0], ast.Subscript) \
                        and is_d(s.targets[0].value) and isinstance(s.targets[0].slice, ast.Name) and s.targets[0].slice.id == k \
                        and isinstance(s.value, ast.Name) and s.value.id == st:
                    cnt[0] += 1
                    d1 = f"d_{cnt[0]}"
                    return f"let {d1} := py_dict_set {d} p_{k} (py_stat_id p_{st}) in\n{seq(rest, d1)}"
                self.fail(env, s, f"statement `{ast.unparse(s)[:70]}`")
            text = head + f"Definition {name} (d : registry) (p_{k} : nat) (p_{st} : pystat) : dres :=\n" + ind(seq(body, "d")) + "."
        else:
            raise Unsupported(file, fn, f"{O}.{m} is not translated")
        return name, text, self.record(O, O, m, name, file, fn)

    def sim_initialize(self):
        """of Simulator.initialize: the statements about the model's statistics, in their order"""
        file, fn = self.fn_node("Simulator", "initialize", "simulator")
        a = fn.args
        ps = [x.arg for x in a.args]
        if ps[:2] != ["self", "model"] or a.vararg or a.kwarg or a.kwonlyargs:
            raise Unsupported(file, fn, f"parameters of Simulator.initialize: {ps}")
        out_name = self.define("DSOLModel", "DSOLModel", "output_statistics", at=fn, file=file)
        env = Env("Simulator", "Simulator", None, file)
        words = ("output_statistics", "_output_statistics", "add_output_statistic", "construct_model")
        lines, cur, after, n, seen_clear = [], "d", False, 0, False
        for s in strip_doc(fn.body):
            txt = ast.unparse(s)
            if not any(w in txt for w in words):
                continue          # belongs to the simulator's own tie (translator/py2gallina_sim.py)
            if txt == "model.output_statistics().clear()":
                seen_clear = True
                n += 1
                if not after:
                    lines.append(f"let d_{n} := py_dict_clear ({out_name} {cur}) {cur} in")
                    cur = f"d_{n}"
                else:
                    lines.append(f"let c_{n} := co_set_dict (py_dict_clear ({out_name} (co_dict {cur})) (co_dict {cur})) {cur} in")
                    cur = f"c_{n}"
            elif txt == "model.construct_model()":
                if after:
                    self.fail(env, s, "construct_model called twice")
                n += 1
                lines.append(f"c_then (construct_model {cur}) (fun c_{n} =>")
                cur = f"c_{n}"
                after = True
            else:
                self.fail(env, s, f"statement about the model's statistics: `{txt[:70]}`")
        if not after:
            raise Unsupported(file, fn, "Simulator.initialize does not call model.construct_model()")
        tx = "\n".join(lines) + f"\nCOk {cur})"
        name = "gen_Simulator_initialize__model"
        head = (f"(* Simulator.initialize, the statements about the model's statistics  -- {REL[file]} lines "
                f"{fn.lineno}-{fn.end_lineno} *)\n")
        text = head + f"Definition {name} (construct_model : registry -> cres) (d : registry) : cres :=\n" + ind(tx) + "."
        return name, text, self.record("Simulator", "Simulator", "initialize", name, file, fn)


# ---------------------------------------------------------------------------------------------- driver
def entries(src: Source):
    """(C, O, m) to translate, in order; O resolved when the entry is taken up"""
    out = [("DSOLModel", "DSOLModel", m) for m in ("__init__", "output_statistics", "add_output_statistic", "get_output_statistic")]
    out.append(("Simulator", "Simulator", "initialize"))
    for C in CONCRETE:
        for m in PUB_METHODS + CTOR_METHODS:
            out.append((C, None, m))
    return out


def translate(src: Source, keep_going: bool):
    tr = Translator(src)
    failures = []
    for C, O, m in entries(src):
        try:
            if C in CONCRETE and C not in src.classes:
                raise Unsupported("statistics", 0, f"class {C} not found")
            owner = O
            if owner is None:
                owner = src.find(C, m)
                if owner is None or owner not in src.classes:
                    if m in ("end_observations", "listen_to"):
                        continue                      # not a method of this class
                    raise Unsupported("statistics", src.classes[C][1], f"{C} has no method {m}")
                if m == "end_observations" and tr.kind(C) != "KPersistent":
                    continue
                if owner in PLAIN and m != "end_observations":
                    raise Unsupported("statistics", src.classes[C][1],
                                      f"{C}.{m} is the ordinary statistic's {owner}.{m}: the event-based class no longer overrides it")
            tr.define(C, owner, m, file=src.classes[owner][0] if owner in src.classes else "statistics")
        except Unsupported as exc:
            name = None
            try:
                name = tr.def_name(C, O or src.find(C, m) or C, m) if C in CONCRETE else \
                    ("gen_Simulator_initialize__model" if C == "Simulator" else f"gen_{C}_{m}")
            except Unsupported:
                pass
            if not keep_going:
                raise
            failures.append({"class": C, "method": m, "definition": name, "line": exc.lineno, "file": REL.get(exc.file, exc.file),
                             "construct": exc.what, "error": str(exc)})
    # definitions that failed as a dependency of another one and were never an entry of their own
    listed = {f["definition"] for f in failures}
    for (C, O, m), r in tr.done.items():
        if isinstance(r, Unsupported):
            try:
                nm = tr.def_name(C, O, m) if C in CONCRETE else f"gen_{C}_{m}"
            except Unsupported:
                nm = None
            if nm and nm not in listed:
                listed.add(nm)
                failures.append({"class": C, "method": m, "definition": nm, "line": r.lineno, "file": REL.get(r.file, r.file),
                                 "construct": r.what, "error": str(r)})
    return tr, failures


def render(tr: Translator, src: Source) -> str:
    shas = ", ".join(f"{FILES[k]} {src.sha[k][:12]}" for k in ("statistics", "model", "simulator"))
    out = ["(* GENERATED by translator/py2gallina_simstats.py from src/pydsol/core/{statistics,model,simulator}.py -- do not edit.",
           f"   sha1 of the source files (line ends normalised): {shas}",
           "   Shallow embedding of the method bodies over the conventions of Stats/SimStats.v; see the translator for the",
           "   subset and its meaning.  Stats/SimGenAgree.v proves every definition equal to the hand-written model. *)",
           "From Coq Require Import ZArith Bool List.",
           "From PV Require Import EventList.Key Sim.Model Sim.Case.",
           "From PV Require Import Stats.Num Stats.Tally Stats.Weighted Stats.Timestamp Stats.SimStats.",
           "Import ListNotations.", "", PRELUDE.strip("\n"), "", "Section Gen.", "  Variable N : Num.", ""]
    for _name, text in tr.defs:
        out.append(ind(text))
        out.append("")
    out.append("End Gen.")
    return "\n".join(out) + "\n"


def main(argv):
    out_dir, keep_going, i = None, False, 0
    while i < len(argv):
        if argv[i] == "--out" and i + 1 < len(argv):
            out_dir = Path(argv[i + 1])
            i += 2
        elif argv[i] == "--keep-going":
            keep_going = True
            i += 1
        else:
            print(f"usage: {sys.argv[0]} [--out DIR [--keep-going]]", file=sys.stderr)
            return 64
    keep_going = keep_going and out_dir is not None

    def report(info):
        if out_dir is not None:
            out_dir.mkdir(parents=True, exist_ok=True)
            (out_dir / "Gen_SimStats.json").write_text(json.dumps(info, indent=1) + "\n")

    def whole(exc_file, line, construct, msg):
        return {"class": None, "method": None, "definition": None, "line": line, "file": REL.get(exc_file, exc_file),
                "construct": construct, "error": msg}
    base = {"repo": str(REPO), "source": [str(CORE / FILES[k]) for k in ("statistics", "model", "simulator")]}
    try:
        src = Source()
    except OSError as exc:
        print(f"py2gallina_simstats: cannot read the sources: {exc}", file=sys.stderr)
        report({**base, "ok": False, "methods": [], "failures": [whole("statistics", 0, "unreadable source", str(exc))]})
        return 2
    except Unsupported as exc:
        print(f"py2gallina_simstats: TRANSLATION FAILED\n{exc}", file=sys.stderr)
        report({**base, "ok": False, "methods": [], "failures": [whole(exc.file, exc.lineno, exc.what, str(exc))]})
        return 2
    base["source_sha1"] = {FILES[k]: src.sha[k] for k in ("statistics", "model", "simulator")}
    try:
        tr, failures = translate(src, keep_going)
    except Unsupported as exc:
        print(f"py2gallina_simstats: TRANSLATION FAILED\n{exc}", file=sys.stderr)
        report({**base, "ok": False, "methods": [], "failures": [whole(exc.file, exc.lineno, exc.what, str(exc))]})
        return 2
    gen = render(tr, src)
    target = (out_dir or (VERIF / "coq" / "Stats")) / "Gen_SimStats.v"
    target.parent.mkdir(parents=True, exist_ok=True)
    if not target.exists() or target.read_text() != gen:
        target.write_text(gen)
    h = hashlib.sha1()
    for r in sorted(tr.translated, key=lambda r: (r["file"], r["lines"][0], r["definition"])):
        h.update((r["definition"] + ":" + r["sha1"] + "\n").encode())
    info = {**base, "ok": not failures, "translated_text_sha1": h.hexdigest(),
            "generated_sha1": hashlib.sha1(gen.encode()).hexdigest(), "methods": tr.translated, "failures": failures,
            "hand_transcribed_only": HAND_ONLY}
    if out_dir is not None:
        (out_dir / "Gen_SimStats.json").write_text(json.dumps(info, indent=1) + "\n")
    for f in failures:
        print(f"py2gallina_simstats: TRANSLATION FAILED ({f['definition']} left out: hand-transcribed only)\n{f['error']}",
              file=sys.stderr)
    print(f"py2gallina_simstats: {len(tr.translated)} definitions from {CORE} -> {target} "
          f"(translated text sha1 {info['translated_text_sha1'][:12]})")
    return 2 if failures else 0


if __name__ == "__main__":
    sys.exit(main(sys.argv[1:]))
