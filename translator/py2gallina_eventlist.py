#!/usr/bin/env python3
"""py2gallina_eventlist.py -- regenerate the Gallina text of the C01 models from the source.

Reads  $VERIF_REPO/src/pydsol/core/eventlist.py  and  .../simevent.py  (default /repo) with
Python's `ast` module -- the modules under test are never imported; CRLF line ends are
normalised -- and translates into Gallina definitions  gen_<Class>_<method>  over the types of
the hand-written model (EventList/Key.v: key, sev; EventList/Model.v: heaplib, remove1, countk,
memk):

  SimEvent        the properties time / priority / id, the comparison methods __lt__ __le__
                  __gt__ __ge__ __eq__ __ne__ and every helper method they call (__cmp__),
                  the class-level counter method(s) and the id assignment in __init__
  EventListHeap   __init__ add pop_first peek_first remove contains clear is_empty size

coq/EventList/GenAgree.v then proves every generated definition equal to the hand-written
model function.  The translation is a shallow embedding and FAIL-CLOSED: every construct that is
not in the subset below ends the run with exit status 2 and `file:line: unsupported construct:
...`.  Nothing is skipped or guessed (the one slice, SimEvent.__init__, is checked: see below).

Supported subset (anything else fails)
  statements   docstring; `pass`; `return`, `return e`; `if / elif / else`; `name = e`;
               `self._event_list = []` (also annotated); the calls heapq.heappush(L, x),
               heapq.heappop(L), heapq.heapify(L), L.remove(x), L.clear(), self.m(..) as
               statements (L is `self._event_list`); in the counter method / __init__ of
               SimEvent: `C.__event_counter += e`, `C.__event_counter = e`, `self._f = e`
  expressions  int / bool / None literals; parameters and locals; `ev.attr` for the three ordering
               attributes of an event (directly or through a property `return self._f`); unary
               `-`, `not`; `+ - *` on ints; comparisons (also chained) `< > <= >= == !=`;
               `and` / `or` of bools; `a if c else b`; `len(L)`, `L.count(x)`, `x in L`, `L[0]`,
               `entry[i]` (i = 0..3), truth value of L / a bool / a length; the entry tuple
               `(+-ev.a, +-ev.b, +-ev.c, ev)`; heapq.heappop(L); self.m(..), ev.m(..) of a
               translated method; `C.__event_counter`, `C.m()` of a classmethod, where the class
               expression C is `SimEvent`, `cls`, `type(self)`, `self.__class__` or (method call /
               read only) `self`
Meaning given to them
  * the state of an EventListHeap is the list `self._event_list`; an entry tuple
    (t, -p, id, ev) is the model's key `mkKey t (-p) id`, positionally.  The fourth component,
    the event object itself, never decides a comparison of two entries: entries that agree on
    the first three components hold the same event (ids are unique), and Python's container
    comparison answers identical objects by identity.  `entry[3]` is that entry (the model
    identifies an event on the list with its key);
  * heapq.heappush / heappop / heapify are the operations hpush / hpop / hheapify of the heap
    library `L : heaplib` every definition is parametrised by; heappop of an empty list, `L[0]`
    of an empty list raise IndexError, `L.remove(x)` without an equal entry raises ValueError
    (results `MRaise`); `L.count`, `in`, `L.remove` compare with == (key_eqb: countk, memk,
    remove1);
  * times, priorities and ids are integers (Z): the model's times are exact dyadic numbers
    scaled by 2^10; NaN is outside C01;
  * self.m(..) is resolved statically in the class (no overriding subclass); a method answers
    `MOk state value` or `MRaise exn state`;
  * the class attribute __event_counter lives in `cvars`: reading `C.__event_counter` looks the
    attribute up on C and then on SimEvent (`cv_get`), assigning sets it ON THE CLASS C ITSELF
    (`cv_set`) -- so `SimEvent.__new_event_counter()` keeps one counter for all events while
    `self.__new_event_counter()` / `type(self)...` gives every subclass its own;
  * SimEvent.__init__ is translated as a slice: the leading block of plain `self._x = ...`
    assignments is translated (the three ordering attributes; other attributes must be assigned
    a parameter and are not part of the model); the statements after that block (argument
    validation) are left out ONLY after checking that they mention none of the modelled
    attributes, the counter, or any reflective builtin; they are listed in the .json.

Trusted (joins the trusted base of C01): this file -- the subset semantics above.

usage: py2gallina_eventlist.py [--out DIR [--keep-going]]
       default DIR: <verif>/coq/EventList, file Gen_EventList.v; with --out also Gen_EventList.json.
       --keep-going (checks only): a group (SimEvent.fields / SimEvent.order / SimEvent.create /
       EventListHeap) with an unsupported construct is left out of Gen_EventList.v and named in the
       .json so that the tie of the other groups can still be checked; exit status non-zero anyway.
"""
from __future__ import annotations

import ast
import hashlib
import json
import os
import sys
import warnings
from pathlib import Path

VERIF = Path(__file__).resolve().parent.parent
REPO = Path(os.environ.get("VERIF_REPO", "/repo"))
CORE = REPO / "src" / "pydsol" / "core"
EL_SRC = CORE / "eventlist.py"
SE_SRC = CORE / "simevent.py"

FIELDS = {"_absolute_time": "e_time", "_priority": "e_prio", "_id": "e_id"}
KEY_PROJ = {"e_time": "k_time", "e_prio": "k_nprio", "e_id": "k_id"}
LIST_ATTR = "_event_list"
COUNTER = "__event_counter"
EL_METHODS = ["__init__", "size", "is_empty", "add", "contains", "peek_first", "pop_first", "remove", "clear"]
CMP_METHODS = ["__eq__", "__ne__", "__lt__", "__le__", "__gt__", "__ge__"]
PROPS = ["time", "priority", "id"]
GTYPE = {"unit": "unit", "bool": "bool", "nat": "nat", "Z": "Z", "optkey": "option key"}
REFLECTIVE = {"setattr", "vars", "exec", "eval", "globals", "locals", "delattr", "super", "object"}
GUARDED_ATTRS = set(FIELDS) | {COUNTER, "__new_event_counter", "__dict__", "__class__", "__setattr__", "__slots__"}

PRELUDE = r"""
(* ---- fixed prelude: the Python primitives the translation uses ---- *)
Inductive pyexn := IndexError | ValueError | TypeError.
(* how a method call ends: normally, with the new list and the returned value, or by raising *)
Inductive mres (A : Type) := MOk (h : list key) (v : A) | MRaise (e : pyexn) (h : list key).
Arguments MOk {A} h v.
Arguments MRaise {A} e h.
Definition mbind {A B : Type} (r : mres A) (k : list key -> A -> mres B) : mres B :=
  match r with MOk h v => k h v | MRaise e h => MRaise e h end.
(* classes: SimEvent itself, or the n-th user subclass of it *)
Inductive pycls := ClsSimEvent | ClsSub (n : nat).
(* the class attribute __event_counter: SimEvent's value, and the values of the subclasses that own one *)
Record cvars := mkCV { cv_base : Z; cv_sub : list (nat * Z) }.
Fixpoint cv_find (n : nat) (l : list (nat * Z)) : option Z :=
  match l with [] => None | (m, v) :: r => if Nat.eqb n m then Some v else cv_find n r end.
(* C.__event_counter, read: the attribute of C if C owns one, else the one of the base class *)
Definition cv_get (c : cvars) (k : pycls) : Z :=
  match k with
  | ClsSimEvent => cv_base c
  | ClsSub n => match cv_find n (cv_sub c) with Some v => v | None => cv_base c end
  end.
(* C.__event_counter = v: always sets the attribute on C itself *)
Definition cv_set (c : cvars) (k : pycls) (v : Z) : cvars :=
  match k with
  | ClsSimEvent => mkCV v (cv_sub c)
  | ClsSub n => mkCV (cv_base c) ((n, v) :: cv_sub c)
  end.
"""


class Unsupported(Exception):
    def __init__(self, src, node, what):
        self.src = str(src)
        self.lineno = getattr(node, "lineno", 0) or 0
        self.what = what
        super().__init__(f"{self.src}:{self.lineno}: unsupported construct: {what}")


class V:
    """a translated value: kind + Gallina text (atomic or parenthesised), or an int constant"""
    __slots__ = ("kind", "tx", "const")

    def __init__(self, kind, tx=None, const=None):
        self.kind, self.tx, self.const = kind, tx, const


def ind(text: str, n: int = 2) -> str:
    pad = " " * n
    return "\n".join(pad + l if l else l for l in text.split("\n"))


def blk(t: str) -> str:
    s = t.strip()
    if "\n" in s or s.startswith(("let ", "if ", "match ", "mbind ")):
        return "(" + s + ")"
    return s


def zlit(n: int) -> str:
    return f"{n}%Z" if n >= 0 else f"({n})%Z"


class Env:
    def __init__(self):
        self.locals = {}      # name -> V
        self.h = None         # text of the current list (EventListHeap), None = not (yet) there
        self.cv = None        # text of the current class variables (SimEvent creation)
        self.fields = {}      # SimEvent.__init__: attr -> text

    def clone(self):
        e = Env()
        e.locals, e.h, e.cv, e.fields = dict(self.locals), self.h, self.cv, dict(self.fields)
        return e


class Ctx:
    def __init__(self, cls, name, node, mode):
        self.cls, self.name, self.node, self.mode = cls, name, node, mode   # mode: pure | heap | counter | init
        self.counter = {}
        self.rets = []
        self.retkind = None
        self.nobind = 0

    def fresh(self, stem):
        self.counter[stem] = self.counter.get(stem, 0) + 1
        return f"{stem}_{self.counter[stem]}"


class Module:
    """one parsed source file"""

    def __init__(self, path: Path):
        self.path = path
        raw = path.read_bytes()
        self.text = raw.decode("utf-8", errors="replace").replace("\r\n", "\n").replace("\r", "\n")
        self.sha1 = hashlib.sha1(self.text.encode("utf-8")).hexdigest()
        with warnings.catch_warnings():
            warnings.simplefilter("ignore")
            self.tree = ast.parse(self.text)
        self.lines = self.text.split("\n")
        self.classes = {}
        self.heapq_name = None
        self.bound = set()
        for st in self.tree.body:
            if isinstance(st, ast.Import):
                for a in st.names:
                    b = a.asname or a.name.split(".")[0]
                    self.bound.add(b)
                    if a.name == "heapq":
                        self.heapq_name = b
            elif isinstance(st, ast.ImportFrom):
                for a in st.names:
                    if a.name == "*":
                        raise Unsupported(path, st, "star import (could rebind heapq / builtins)")
                    self.bound.add(a.asname or a.name)
            elif isinstance(st, ast.ClassDef):
                if st.name in self.classes:
                    raise Unsupported(path, st, f"class {st.name} defined twice")
                self.classes[st.name] = st
                self.bound.add(st.name)
            elif isinstance(st, (ast.FunctionDef, ast.AsyncFunctionDef)):
                self.bound.add(st.name)
            elif isinstance(st, (ast.Assign, ast.AnnAssign, ast.AugAssign)):
                for t in (st.targets if isinstance(st, ast.Assign) else [st.target]):
                    for n in ast.walk(t):
                        if isinstance(n, ast.Name):
                            self.bound.add(n.id)
            elif isinstance(st, ast.Expr) and isinstance(st.value, ast.Constant):
                pass
            else:
                raise Unsupported(path, st, f"module-level statement {type(st).__name__}")
        for b in ("len", "list", "type", "bool", "int", "True", "False", "None"):
            if b in self.bound:
                raise Unsupported(path, self.tree, f"module rebinds the builtin `{b}`")
        if self.heapq_name and sum(1 for st in self.tree.body for n in
                                   ([a.asname or a.name.split('.')[0] for a in st.names] if isinstance(st, (ast.Import, ast.ImportFrom)) else [])
                                   if n == self.heapq_name) != 1:
            raise Unsupported(path, self.tree, f"the name `{self.heapq_name}` is bound more than once")


class Translator:
    def __init__(self, se: Module, el: Module):
        self.se, self.el = se, el
        self.defs = []          # (group, text)
        self.sigs = {}          # (cls, meth) -> dict
        self.stack = []
        self.ctx = None
        self.translated = []
        self.skipped = []
        self.props = {}         # property name -> record projection
        self.group = None

    # ------------------------------------------------------------------ helpers
    def mod(self, cls=None):
        return self.el if (cls or self.ctx.cls) == "EventListHeap" else self.se

    def fail(self, node, what, cls=None):
        raise Unsupported(self.mod(cls).path if (cls or self.ctx) else self.se.path, node, what)

    def klass(self, cname, bases):
        m = self.mod(cname)
        c = m.classes.get(cname)
        if c is None:
            raise Unsupported(m.path, m.tree, f"class {cname} not found")
        got = [ast.unparse(b) for b in c.bases]
        if got != bases or c.keywords or c.decorator_list:
            raise Unsupported(m.path, c, f"class {cname} has bases {got} / decorators, the model assumes {bases}")
        return c

    def find_method(self, cname, mname, node=None):
        c = self.mod(cname).classes[cname]
        found = [f for f in c.body if isinstance(f, (ast.FunctionDef, ast.AsyncFunctionDef)) and f.name == mname]
        if len(found) > 1:
            self.fail(found[1], f"{cname}.{mname} defined twice", cname)
        for st in c.body:
            if isinstance(st, (ast.Assign, ast.AnnAssign)):
                for t in (st.targets if isinstance(st, ast.Assign) else [st.target]):
                    if isinstance(t, ast.Name) and t.id == mname:
                        self.fail(st, f"{cname}.{mname} is bound by an assignment in the class body", cname)
        if not found:
            return None
        if isinstance(found[0], ast.AsyncFunctionDef):
            self.fail(found[0], "async method", cname)
        return found[0]

    @staticmethod
    def body_of(f):
        body = list(f.body)
        if body and isinstance(body[0], ast.Expr) and isinstance(body[0].value, ast.Constant) and isinstance(body[0].value.value, str):
            body = body[1:]
        return body

    def plain_params(self, f, cname, first="self", allow_kwargs=False):
        a = f.args
        if a.vararg or a.kwonlyargs or a.posonlyargs or (a.kwarg and not allow_kwargs):
            self.fail(f, f"{cname}.{f.name}: *args / **kwargs / keyword-only / positional-only parameters", cname)
        if not a.args or a.args[0].arg != first:
            self.fail(f, f"{cname}.{f.name}: first parameter is not `{first}`", cname)
        return [p.arg for p in a.args[1:]]

    def forbid_nested(self, f, cname):
        for n in ast.walk(f):
            if isinstance(n, (ast.FunctionDef, ast.AsyncFunctionDef, ast.Lambda, ast.ClassDef)) and n is not f:
                self.fail(n, "nested function / class / lambda", cname)
            if isinstance(n, (ast.Yield, ast.YieldFrom, ast.Await, ast.Global, ast.Nonlocal, ast.Try, ast.With,
                              ast.While, ast.For, ast.Delete, ast.NamedExpr)):
                self.fail(n, type(n).__name__, cname)

    def record(self, cname, mname, name, f, note=None):
        m = self.mod(cname)
        src = "\n".join(m.lines[f.lineno - 1:f.end_lineno])
        r = {"class": cname, "method": mname, "definition": name, "file": m.path.name, "group": self.group,
             "lines": [f.lineno, f.end_lineno], "sha1": hashlib.sha1(src.encode("utf-8")).hexdigest()}
        if note:
            r["note"] = note
        self.translated.append(r)

    def header(self, cname, mname, f):
        return f"(* {cname}.{mname}  -- {self.mod(cname).path.name} lines {f.lineno}-{f.end_lineno} *)"

    # ------------------------------------------------------------------ SimEvent: properties
    def properties(self):
        self.group = "SimEvent.fields"
        self.klass("SimEvent", ["SimEventInterface"])
        for pn in PROPS:
            f = self.find_method("SimEvent", pn)
            if f is None:
                raise Unsupported(self.se.path, self.se.classes["SimEvent"], f"property SimEvent.{pn} not found")
            decos = [ast.unparse(d) for d in f.decorator_list]
            if decos != ["property"]:
                self.fail(f, f"SimEvent.{pn} is decorated {decos}, expected exactly @property", "SimEvent")
            if self.plain_params(f, "SimEvent"):
                self.fail(f, f"property SimEvent.{pn} with parameters", "SimEvent")
            body = self.body_of(f)
            ok = len(body) == 1 and isinstance(body[0], ast.Return) and isinstance(body[0].value, ast.Attribute) \
                and isinstance(body[0].value.value, ast.Name) and body[0].value.value.id == "self" \
                and body[0].value.attr in FIELDS
            if not ok:
                self.fail(f, f"property SimEvent.{pn} is not `return self.<ordering attribute>`", "SimEvent")
            proj = FIELDS[body[0].value.attr]
            name = f"gen_SimEvent_{pn}"
            self.defs.append((self.group, f"{self.header('SimEvent', pn, f)}\nDefinition {name} (p_self : sev) : Z := {proj} p_self."))
            self.props[pn] = name
            self.record("SimEvent", pn, name, f)

    # ------------------------------------------------------------------ methods
    def method(self, cname, mname, node=None):
        key = (cname, mname)
        if key in self.sigs:
            return self.sigs[key]
        if key in self.stack:
            self.fail(node, f"recursion in {cname}.{mname}")
        f = self.find_method(cname, mname, node)
        if f is None:
            if node is not None:
                self.fail(node, f"method {cname}.{mname} not found (inherited methods are not resolved)")
            raise Unsupported(self.mod(cname).path, self.mod(cname).classes[cname], f"method {cname}.{mname} not found")
        decos = [ast.unparse(d) for d in f.decorator_list]
        self.forbid_nested(f, cname)
        saved = self.ctx
        self.stack.append(key)
        try:
            if cname == "EventListHeap":
                if decos:
                    self.fail(f, f"decorated method {cname}.{mname}", cname)
                sig = self.heap_method(f, mname)
            elif decos == ["classmethod"]:
                sig = self.counter_method(f, mname)
            elif decos:
                self.fail(f, f"method {cname}.{mname} decorated {decos}", cname)
            elif mname == "__init__":
                sig = self.init_method(f)
            else:
                sig = self.pure_method(f, mname)
            self.sigs[key] = sig
            return sig
        finally:
            self.stack.pop()
            self.ctx = saved

    def two_pass(self, ctx, run):
        """translate twice: the first pass finds the kinds of the returned values"""
        self.ctx = ctx
        run()
        kinds = set(ctx.rets)
        if kinds <= {"None"}:
            rk = "unit"
        elif kinds == {"B"}:
            rk = "bool"
        elif kinds == {"Nat"}:
            rk = "nat"
        elif kinds == {"Z"}:
            rk = "Z"
        elif kinds <= {"None", "KEv", "Ev"} and ctx.mode == "heap":
            rk = "optkey"
        else:
            self.fail(ctx.node, f"{ctx.cls}.{ctx.name} returns values of kinds {sorted(kinds)}")
        if ctx.mode == "pure" and rk not in ("bool", "Z"):
            self.fail(ctx.node, f"{ctx.cls}.{ctx.name} returns {rk}; comparison methods must answer a bool or an int on every path")
        ctx.retkind, ctx.counter, ctx.rets = rk, {}, []
        return run(), rk

    def heap_method(self, f, mname):
        params = self.plain_params(f, "EventListHeap")
        ctx = Ctx("EventListHeap", mname, f, "heap")
        body = self.body_of(f)

        def run():
            env = Env()
            env.h = None if mname == "__init__" else "h"
            for p in params:
                env.locals[p] = V("Ev", "p_" + p)
            return self.block(body, env, lambda e: self.ret(f, V("None"), e))
        text, rk = self.two_pass(ctx, run)
        name = f"gen_EventListHeap_{mname}"
        binders = "(L : heaplib)" + ("" if mname == "__init__" else " (h : list key)") + "".join(f" (p_{p} : sev)" for p in params)
        self.defs.append((self.group, f"{self.header('EventListHeap', mname, f)}\nDefinition {name} {binders} : mres {blk(GTYPE[rk])} :=\n{ind(text)}."))
        self.record("EventListHeap", mname, name, f)
        return {"name": name, "ret": rk, "params": params, "mode": "heap"}

    def pure_method(self, f, mname):
        params = self.plain_params(f, "SimEvent")
        ctx = Ctx("SimEvent", mname, f, "pure")
        body = self.body_of(f)

        def run():
            env = Env()
            env.locals["self"] = V("Ev", "p_self")
            for p in params:
                env.locals[p] = V("Ev", "p_" + p)
            return self.block(body, env, lambda e: self.ret(f, V("None"), e))
        text, rk = self.two_pass(ctx, run)
        name = f"gen_SimEvent_{mname}"
        binders = "(p_self : sev)" + "".join(f" (p_{p} : sev)" for p in params)
        self.defs.append((self.group, f"{self.header('SimEvent', mname, f)}\nDefinition {name} {binders} : {GTYPE[rk]} :=\n{ind(text)}."))
        self.record("SimEvent", mname, name, f)
        return {"name": name, "ret": rk, "params": params, "mode": "pure"}

    def counter_method(self, f, mname):
        params = self.plain_params(f, "SimEvent", first="cls")
        if params:
            self.fail(f, f"classmethod SimEvent.{mname} with parameters", "SimEvent")
        ctx = Ctx("SimEvent", mname, f, "counter")
        body = self.body_of(f)

        def run():
            env = Env()
            env.cv = "cv"
            env.locals["cls"] = V("Cls", "p_cls")
            return self.block(body, env, lambda e: self.fail(f, f"classmethod SimEvent.{mname} can end without returning a value"))
        text, rk = self.two_pass(ctx, run)
        if rk != "Z":
            self.fail(f, f"classmethod SimEvent.{mname} returns {rk}, an int is expected")
        name = f"gen_SimEvent_{mname}"
        self.defs.append((self.group, f"{self.header('SimEvent', mname, f)}\nDefinition {name} (cv : cvars) (p_cls : pycls) : Z * cvars :=\n{ind(text)}."))
        self.record("SimEvent", mname, name, f)
        return {"name": name, "ret": "Z", "params": [], "mode": "counter"}
