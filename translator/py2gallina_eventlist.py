#!/usr/bin/env python3
"""py2gallina_eventlist.py -- regenerate the Gallina text of the C01 models from the source.

Reads  $VERIF_REPO/src/pydsol/core/eventlist.py  and  .../simevent.py  (default /repo) with
Python's `ast` module -- the modules under test are never imported; CRLF line ends are
normalised -- and translates into Gallina definitions  gen_<Class>_<method>  over the types of
the hand-written model (EventList/Key.v: key, sev; EventList/Model.v: heaplib, remove1, countk,
memk):

  SimEvent        the properties time / priority / id, the comparison methods __lt__ __le__
                  __gt__ __ge__ __eq__ __ne__ and every helper method they call (__cmp__),
                  the class-level counter method(s) and the id assignment in __init__
  EventListHeap   __init__ add pop_first peek_first remove contains clear is_empty size, and __str__ / __repr__
                  as CHECKED OBSERVERS: after verifying that the body is made only of constructs that
                  build a string from the list (see Translator.observer_method for the whitelist; no
                  assignment to an attribute, no call on the list but iteration and len) they are
                  translated as `the list unchanged, some string` -- the text is not modelled

coq/EventList/GenAgree.v then proves every generated definition equal to the hand-written
model function.  The translation is a shallow embedding and FAIL-CLOSED: every construct that is
not in the subset below ends the run with exit status 2 and `file:line: unsupported construct:
...`.  Nothing is skipped or guessed (the one slice, SimEvent.__init__, is checked: see below).

Supported subset (anything else fails)
  statements   docstring; `pass`; `return`, `return e`; `if / elif / else`; `name = e`;
               `self._event_list = []` (also annotated); the calls heapq.heappush(L, x),
               heapq.heappop(L), heapq.heapify(L), L.remove(x), L.clear(), self.m(..) as
               statements (L is `self._event_list`); in the counter method / __init__ of
               SimEvent: `C.__event_counter += e`, `C.__event_counter = e`, `self._f = e`
  expressions  int / bool / None literals; parameters and locals; `ev.attr` for the three ordering
               attributes of an event (directly or through a property `return self._f`); unary
               `-`, `not`; `+ - *` on ints; comparisons (also chained) `< > <= >= == !=`;
               `and` / `or` of bools (short-circuit control flow when an operand needs a bind);
               `a if c else b` (a value, or -- when an operand needs a bind -- test first, then only the
               chosen operand); `len(L)`, `L.count(x)`, `x in L`, `L[0]`,
               `entry[i]` (i = 0..3), truth value of L / a bool / a length; the entry tuple
               `(+-ev.a, +-ev.b, +-ev.c, ev)` -- the components may come through locals, what counts is
               that each IS (minus) an ordering attribute of the event in the fourth place;
               heapq.heappop(L); self.m(..), ev.m(..) of a translated method; calls of PRIVATE HELPERS
               -- module-level functions of the same file, methods of the same class that are not part
               of the translated interface (also @staticmethod) -- which are translated AT THE CALL
               SITE: arguments evaluated first, left to right, parameters bound to their values,
               `return v` continuing the caller with v (falling off the end: None); `C.__event_counter`, `C.m()` of a classmethod, where the class
               expression C is `SimEvent`, `cls`, `type(self)`, `self.__class__` or (method call /
               read only) `self`
Refused with file:line (the translation never guesses): a helper that is recursive, decorated, takes *args /
  **kwargs / defaults, contains a loop / try / with / nested function, or is bound twice at module level;
  the list itself (or self) handed to a helper or bound to a local (aliasing); operands of a chained
  comparison / an entry tuple that need a bind (their evaluation order could not be kept); `is`; loops.
Control flow is translated in continuation-passing style, so a guard clause with an early return and the
nested if / else it abbreviates give the same Gallina text, and so do a conditional expression and the
if / else statement.  coq/EventList/GenAgree.v proves agreement by case analysis on the conditions, not by
comparing texts.
Meaning given to them
  * the state of an EventListHeap is the list `self._event_list`; an entry tuple
    (t, -p, id, ev) is the model's key `mkKey t (-p) id`, positionally.  The fourth component,
    the event object itself, never decides a comparison of two entries: entries that agree on
    the first three components hold the same event (ids are unique), and Python's container
    comparison answers identical objects by identity.  `entry[3]` is that entry (the model
    identifies an event on the list with its key);
  * heapq.heappush / heappop / heapify are the operations hpush / hpop / hheapify of the heap
    library `L : heaplib` every definition is parametrised by; heappop of an empty list, `L[0]`
    of an empty list raise IndexError, `L.remove(x)` without an equal entry raises ValueError
    (results `MRaise`); `L.count`, `in`, `L.remove` compare with == (key_eqb: countk, memk,
    remove1);
  * times, priorities and ids are integers (Z): the model's times are exact dyadic numbers
    scaled by 2^10; NaN is outside C01;
  * self.m(..) is resolved statically in the class (no overriding subclass); a method answers
    `MOk state value` or `MRaise exn state`;
  * the class attribute __event_counter lives in `cvars`: reading `C.__event_counter` looks the
    attribute up on C and then on SimEvent (`cv_get`), assigning sets it ON THE CLASS C ITSELF
    (`cv_set`) -- so `SimEvent.__new_event_counter()` keeps one counter for all events while
    `self.__new_event_counter()` / `type(self)...` gives every subclass its own;
  * SimEvent.__init__ is translated as a slice: the leading block of plain assignments -- `self._x = ...`
    (the three ordering attributes; other attributes must be assigned a parameter and are not
    part of the model), locals, `C.__event_counter (+)= ...` -- is translated; the statements
    after that block (argument validation) are left out ONLY after checking that they mention
    none of the modelled attributes, the counter, SimEvent or a reflective builtin, call no
    method of self and do not hand self on; they are listed in the .json.

Trusted (joins the trusted base of C01): this file -- the subset semantics above.

usage: py2gallina_eventlist.py [--out DIR [--keep-going]]
       default DIR: <verif>/coq/EventList, file Gen_EventList.v; with --out also Gen_EventList.json.
       --keep-going (checks only): a group (SimEvent.fields / SimEvent.order / SimEvent.create /
       EventListHeap) with an unsupported construct is left out of Gen_EventList.v and named in the
       .json so that the tie of the other groups can still be checked; exit status non-zero anyway.
"""
from __future__ import annotations

import ast
import hashlib
import json
import os
import sys
import warnings
from pathlib import Path

VERIF = Path(__file__).resolve().parent.parent
REPO = Path(os.environ.get("VERIF_REPO", "/repo"))
CORE = REPO / "src" / "pydsol" / "core"
EL_SRC = CORE / "eventlist.py"
SE_SRC = CORE / "simevent.py"

FIELDS = {"_absolute_time": "e_time", "_priority": "e_prio", "_id": "e_id"}
KEY_PROJ = {"e_time": "k_time", "e_prio": "k_nprio", "e_id": "k_id"}
LIST_ATTR = "_event_list"
COUNTER = "__event_counter"
EL_METHODS = ["__init__", "size", "is_empty", "add", "contains", "peek_first", "pop_first", "remove", "clear", "__str__", "__repr__"]
OBSERVERS = ["__str__", "__repr__"]
CMP_METHODS = ["__eq__", "__ne__", "__lt__", "__le__", "__gt__", "__ge__"]
PROPS = ["time", "priority", "id"]
GTYPE = {"unit": "unit", "bool": "bool", "nat": "nat", "Z": "Z", "optkey": "option key", "pystr": "pystr"}
REFLECTIVE = {"setattr", "vars", "exec", "eval", "globals", "locals", "delattr", "super", "object"}
GUARDED_ATTRS = set(FIELDS) | {COUNTER, "__new_event_counter", "__dict__", "__class__", "__setattr__", "__slots__"}

PRELUDE = r"""
(* ---- fixed prelude: the Python primitives the translation uses ---- *)
Inductive pyexn := IndexError | ValueError | TypeError.
(* a Python string; its text is not modelled (for str(el) it shows the private array layout) *)
Inductive pystr := PyStr.
(* how a method call ends: normally, with the new list and the returned value, or by raising *)
Inductive mres (A : Type) := MOk (h : list key) (v : A) | MRaise (e : pyexn) (h : list key).
Arguments MOk {A} h v.
Arguments MRaise {A} e h.
Definition mbind {A B : Type} (r : mres A) (k : list key -> A -> mres B) : mres B :=
  match r with MOk h v => k h v | MRaise e h => MRaise e h end.
(* classes: SimEvent itself, or the n-th user subclass of it *)
Inductive pycls := ClsSimEvent | ClsSub (n : nat).
(* the class attribute __event_counter: SimEvent's value, and the values of the subclasses that own one *)
Record cvars := mkCV { cv_base : Z; cv_sub : list (nat * Z) }.
Fixpoint cv_find (n : nat) (l : list (nat * Z)) : option Z :=
  match l with [] => None | (m, v) :: r => if Nat.eqb n m then Some v else cv_find n r end.
(* C.__event_counter, read: the attribute of C if C owns one, else the one of the base class *)
Definition cv_get (c : cvars) (k : pycls) : Z :=
  match k with
  | ClsSimEvent => cv_base c
  | ClsSub n => match cv_find n (cv_sub c) with Some v => v | None => cv_base c end
  end.
(* C.__event_counter = v: always sets the attribute on C itself *)
Definition cv_set (c : cvars) (k : pycls) (v : Z) : cvars :=
  match k with
  | ClsSimEvent => mkCV v (cv_sub c)
  | ClsSub n => mkCV (cv_base c) ((n, v) :: cv_sub c)
  end.
"""


class Unsupported(Exception):
    def __init__(self, src, node, what):
        self.src = str(src)
        self.lineno = getattr(node, "lineno", 0) or 0
        self.what = what
        super().__init__(f"{self.src}:{self.lineno}: unsupported construct: {what}")


class NeedsBind(Unsupported):
    """an operand that must be a plain value needs a bind (call, indexing): the caller may have another way"""


class V:
    """a translated value: kind + Gallina text (atomic or parenthesised), or an int constant"""
    __slots__ = ("kind", "tx", "const", "prov")

    def __init__(self, kind, tx=None, const=None, prov=None):
        # prov: (text of an event, record projection, sign) when the value is +-(an ordering attribute of that event)
        self.kind, self.tx, self.const, self.prov = kind, tx, const, prov


def ind(text: str, n: int = 2) -> str:
    pad = " " * n
    return "\n".join(pad + l if l else l for l in text.split("\n"))


def blk(t: str) -> str:
    s = t.strip()
    if "\n" in s or s.startswith(("let ", "if ", "match ", "mbind ")):
        return "(" + s + ")"
    return s


def zlit(n: int) -> str:
    return f"{n}%Z" if n >= 0 else f"({n})%Z"


class Env:
    def __init__(self):
        self.locals = {}      # name -> V
        self.h = None         # text of the current list (EventListHeap), None = not (yet) there
        self.cv = None        # text of the current class variables (SimEvent creation)
        self.fields = {}      # SimEvent.__init__: attr -> text
        self.has_self = True  # False inside an inlined module-level function: `self` means nothing there
        self.retk = None      # inside an inlined helper: what `return v` continues with

    def clone(self):
        e = Env()
        e.locals, e.h, e.cv, e.fields = dict(self.locals), self.h, self.cv, dict(self.fields)
        e.has_self, e.retk = self.has_self, self.retk
        return e


class Ctx:
    def __init__(self, cls, name, node, mode):
        self.cls, self.name, self.node, self.mode = cls, name, node, mode   # mode: pure | heap | counter | init
        self.counter = {}
        self.rets = []
        self.retkind = None
        self.nobind = 0

    def fresh(self, stem):
        self.counter[stem] = self.counter.get(stem, 0) + 1
        return f"{stem}_{self.counter[stem]}"


class Module:
    """one parsed source file"""

    def __init__(self, path: Path):
        self.path = path
        raw = path.read_bytes()
        self.text = raw.decode("utf-8", errors="replace").replace("\r\n", "\n").replace("\r", "\n")
        self.sha1 = hashlib.sha1(self.text.encode("utf-8")).hexdigest()
        with warnings.catch_warnings():
            warnings.simplefilter("ignore")
            self.tree = ast.parse(self.text)
        self.lines = self.text.split("\n")
        self.classes = {}
        self.funcs = {}
        self.nbound = {}
        self.heapq_name = None
        self.bound = set()
        for st in self.tree.body:
            if isinstance(st, ast.Import):
                for a in st.names:
                    b = a.asname or a.name.split(".")[0]
                    self.bound.add(b)
                    if a.name == "heapq":
                        self.heapq_name = b
            elif isinstance(st, ast.ImportFrom):
                for a in st.names:
                    if a.name == "*":
                        raise Unsupported(path, st, "star import (could rebind heapq / builtins)")
                    self.bound.add(a.asname or a.name)
            elif isinstance(st, ast.ClassDef):
                if st.name in self.classes:
                    raise Unsupported(path, st, f"class {st.name} defined twice")
                self.classes[st.name] = st
                self.bound.add(st.name)
            elif isinstance(st, (ast.FunctionDef, ast.AsyncFunctionDef)):
                self.bound.add(st.name)
                self.funcs[st.name] = st
                self.nbound[st.name] = self.nbound.get(st.name, 0) + 1
            elif isinstance(st, (ast.Assign, ast.AnnAssign, ast.AugAssign)):
                for t in (st.targets if isinstance(st, ast.Assign) else [st.target]):
                    for n in ast.walk(t):
                        if isinstance(n, ast.Name):
                            self.bound.add(n.id)
                            self.nbound[n.id] = self.nbound.get(n.id, 0) + 1
            elif isinstance(st, ast.Expr) and isinstance(st.value, ast.Constant):
                pass
            else:
                raise Unsupported(path, st, f"module-level statement {type(st).__name__}")
        for b in ("len", "list", "type", "bool", "int", "True", "False", "None"):
            if b in self.bound:
                raise Unsupported(path, self.tree, f"module rebinds the builtin `{b}`")
        if self.heapq_name and sum(1 for st in self.tree.body for n in
                                   ([a.asname or a.name.split('.')[0] for a in st.names] if isinstance(st, (ast.Import, ast.ImportFrom)) else [])
                                   if n == self.heapq_name) != 1:
            raise Unsupported(path, self.tree, f"the name `{self.heapq_name}` is bound more than once")


class Translator:
    def __init__(self, se: Module, el: Module):
        self.se, self.el = se, el
        self.defs = []          # (group, text)
        self.sigs = {}          # (cls, meth) -> dict
        self.stack = []
        self.ctx = None
        self.translated = []
        self.skipped = []
        self.props = {}         # property name -> generated definition
        self.propfield = {}     # property name -> record projection
        self.group = None
        self.inl_stack = []
        self.inlined = set()

    # ------------------------------------------------------------------ helpers
    def mod(self, cls=None):
        return self.el if (cls or self.ctx.cls) == "EventListHeap" else self.se

    def fail(self, node, what, cls=None):
        raise Unsupported(self.mod(cls).path if (cls or self.ctx) else self.se.path, node, what)

    def klass(self, cname, bases):
        m = self.mod(cname)
        c = m.classes.get(cname)
        if c is None:
            raise Unsupported(m.path, m.tree, f"class {cname} not found")
        got = [ast.unparse(b) for b in c.bases]
        if got != bases or c.keywords or c.decorator_list:
            raise Unsupported(m.path, c, f"class {cname} has bases {got} / decorators, the model assumes {bases}")
        return c

    def find_method(self, cname, mname, node=None):
        c = self.mod(cname).classes[cname]
        found = [f for f in c.body if isinstance(f, (ast.FunctionDef, ast.AsyncFunctionDef)) and f.name == mname]
        if len(found) > 1:
            self.fail(found[1], f"{cname}.{mname} defined twice", cname)
        for st in c.body:
            if isinstance(st, (ast.Assign, ast.AnnAssign)):
                for t in (st.targets if isinstance(st, ast.Assign) else [st.target]):
                    if isinstance(t, ast.Name) and t.id == mname:
                        self.fail(st, f"{cname}.{mname} is bound by an assignment in the class body", cname)
        if not found:
            return None
        if isinstance(found[0], ast.AsyncFunctionDef):
            self.fail(found[0], "async method", cname)
        return found[0]

    @staticmethod
    def body_of(f):
        body = list(f.body)
        if body and isinstance(body[0], ast.Expr) and isinstance(body[0].value, ast.Constant) and isinstance(body[0].value.value, str):
            body = body[1:]
        return body

    def plain_params(self, f, cname, first="self", allow_kwargs=False):
        a = f.args
        if a.vararg or a.kwonlyargs or a.posonlyargs or (a.kwarg and not allow_kwargs):
            self.fail(f, f"{cname}.{f.name}: *args / **kwargs / keyword-only / positional-only parameters", cname)
        if not a.args or a.args[0].arg != first:
            self.fail(f, f"{cname}.{f.name}: first parameter is not `{first}`", cname)
        return [p.arg for p in a.args[1:]]

    def forbid_nested(self, f, cname):
        for n in ast.walk(f):
            if isinstance(n, (ast.FunctionDef, ast.AsyncFunctionDef, ast.Lambda, ast.ClassDef)) and n is not f:
                self.fail(n, "nested function / class / lambda", cname)
            if isinstance(n, (ast.Yield, ast.YieldFrom, ast.Await, ast.Global, ast.Nonlocal, ast.Try, ast.With,
                              ast.While, ast.For, ast.Delete, ast.NamedExpr)):
                self.fail(n, type(n).__name__, cname)

    def record(self, cname, mname, name, f, note=None):
        m = self.mod(cname)
        src = "\n".join(m.lines[f.lineno - 1:f.end_lineno])
        r = {"class": cname, "method": mname, "definition": name, "file": m.path.name, "group": self.group,
             "lines": [f.lineno, f.end_lineno], "sha1": hashlib.sha1(src.encode("utf-8")).hexdigest()}
        if note:
            r["note"] = note
        self.translated.append(r)

    def header(self, cname, mname, f):
        return f"(* {cname}.{mname}  -- {self.mod(cname).path.name} lines {f.lineno}-{f.end_lineno} *)"

    # ------------------------------------------------------------------ SimEvent: properties
    def properties(self):
        self.group = "SimEvent.fields"
        self.klass("SimEvent", ["SimEventInterface"])
        for pn in PROPS:
            f = self.find_method("SimEvent", pn)
            if f is None:
                raise Unsupported(self.se.path, self.se.classes["SimEvent"], f"property SimEvent.{pn} not found")
            decos = [ast.unparse(d) for d in f.decorator_list]
            if decos != ["property"]:
                self.fail(f, f"SimEvent.{pn} is decorated {decos}, expected exactly @property", "SimEvent")
            if self.plain_params(f, "SimEvent"):
                self.fail(f, f"property SimEvent.{pn} with parameters", "SimEvent")
            body = self.body_of(f)
            ok = len(body) == 1 and isinstance(body[0], ast.Return) and isinstance(body[0].value, ast.Attribute) \
                and isinstance(body[0].value.value, ast.Name) and body[0].value.value.id == "self" \
                and body[0].value.attr in FIELDS
            if not ok:
                self.fail(f, f"property SimEvent.{pn} is not `return self.<ordering attribute>`", "SimEvent")
            proj = FIELDS[body[0].value.attr]
            name = f"gen_SimEvent_{pn}"
            self.defs.append((self.group, f"{self.header('SimEvent', pn, f)}\nDefinition {name} (p_self : sev) : Z := {proj} p_self."))
            self.props[pn] = name
            self.propfield[pn] = proj
            self.record("SimEvent", pn, name, f)

    # ------------------------------------------------------------------ methods
    def method(self, cname, mname, node=None):
        key = (cname, mname)
        if key in self.sigs:
            return self.sigs[key]
        if key in self.stack:
            self.fail(node, f"recursion in {cname}.{mname}")
        f = self.find_method(cname, mname, node)
        if f is None:
            if node is not None:
                self.fail(node, f"method {cname}.{mname} not found (inherited methods are not resolved)")
            raise Unsupported(self.mod(cname).path, self.mod(cname).classes[cname], f"method {cname}.{mname} not found")
        decos = [ast.unparse(d) for d in f.decorator_list]
        if not (cname == "EventListHeap" and mname in OBSERVERS):      # those have a whitelist of their own
            self.forbid_nested(f, cname)
        saved = self.ctx
        self.stack.append(key)
        try:
            if cname == "EventListHeap":
                if decos:
                    self.fail(f, f"decorated method {cname}.{mname}", cname)
                sig = self.observer_method(f, mname) if mname in OBSERVERS else self.heap_method(f, mname)
            elif decos == ["classmethod"]:
                sig = self.counter_method(f, mname)
            elif decos:
                self.fail(f, f"method {cname}.{mname} decorated {decos}", cname)
            elif mname == "__init__":
                sig = self.init_method(f)
            else:
                sig = self.pure_method(f, mname)
            self.sigs[key] = sig
            return sig
        finally:
            self.stack.pop()
            self.ctx = saved

    def two_pass(self, ctx, run):
        """translate twice: the first pass finds the kinds of the returned values"""
        self.ctx = ctx
        run()
        kinds = set(ctx.rets)
        if kinds <= {"None"}:
            rk = "unit"
        elif kinds == {"B"}:
            rk = "bool"
        elif kinds == {"Nat"}:
            rk = "nat"
        elif kinds == {"Z"}:
            rk = "Z"
        elif kinds <= {"None", "KEv", "Ev"} and ctx.mode == "heap":
            rk = "optkey"
        else:
            self.fail(ctx.node, f"{ctx.cls}.{ctx.name} returns values of kinds {sorted(kinds)}")
        if ctx.mode == "pure" and rk not in ("bool", "Z"):
            self.fail(ctx.node, f"{ctx.cls}.{ctx.name} returns {rk}; comparison methods must answer a bool or an int on every path")
        ctx.retkind, ctx.counter, ctx.rets = rk, {}, []
        return run(), rk

    def heap_method(self, f, mname):
        params = self.plain_params(f, "EventListHeap")
        ctx = Ctx("EventListHeap", mname, f, "heap")
        body = self.body_of(f)

        def run():
            env = Env()
            env.h = None if mname == "__init__" else "h"
            for p in params:
                env.locals[p] = V("Ev", "p_" + p)
            return self.block(body, env, lambda e: self.ret(f, V("None"), e))
        text, rk = self.two_pass(ctx, run)
        name = f"gen_EventListHeap_{mname}"
        binders = "(L : heaplib)" + ("" if mname == "__init__" else " (h : list key)") + "".join(f" (p_{p} : sev)" for p in params)
        self.defs.append((self.group, f"{self.header('EventListHeap', mname, f)}\nDefinition {name} {binders} : mres {GTYPE[rk] if ' ' not in GTYPE[rk] else '(' + GTYPE[rk] + ')'} :=\n{ind(text)}."))
        self.record("EventListHeap", mname, name, f)
        return {"name": name, "ret": rk, "params": params, "mode": "heap"}

    # ------------------------------------------------------------------ __str__ / __repr__: checked observers
    def observer_method(self, f, mname):
        """A method that only BUILDS A STRING from the list: translated as `the list unchanged, some string`
        after checking that the body is made of nothing but: assignments / `+=` to plain local names, `for x in
        self._event_list:` (also as a comprehension), if, return, pass; constants, names, f-strings, + % *, unary
        minus / not, comparisons, constant subscripts, attribute READS of anything but self, tuples; the calls
        str / repr / len / int / float / format of such expressions, "sep".join(..), and str(self) / repr(self) /
        self.__str__() / self.__repr__() (the other observer).  self._event_list may only be iterated over or
        measured.  None of these can assign to the list or call one of its mutators; anything else is refused."""
        if self.plain_params(f, "EventListHeap"):
            self.fail(f, f"EventListHeap.{mname} with parameters", "EventListHeap")
        self.ctx = Ctx("EventListHeap", mname, f, "heap")
        callees = []

        def is_self(n):
            return isinstance(n, ast.Name) and n.id == "self"

        def is_lst(n):
            return isinstance(n, ast.Attribute) and is_self(n.value) and n.attr == LIST_ATTR and isinstance(n.ctx, ast.Load)

        def ex(n):
            if isinstance(n, ast.Constant) and (n.value is None or isinstance(n.value, (str, int, float, bool))):
                return
            if isinstance(n, ast.Name) and isinstance(n.ctx, ast.Load):
                if n.id == "self":
                    self.fail(n, f"EventListHeap.{mname}: `self` used as a value")
                return
            if isinstance(n, ast.JoinedStr):
                for v in n.values:
                    ex(v)
                return
            if isinstance(n, ast.FormattedValue):
                ex(n.value)
                if n.format_spec is not None:
                    ex(n.format_spec)
                return
            if isinstance(n, ast.BinOp) and isinstance(n.op, (ast.Add, ast.Mod, ast.Mult)):
                ex(n.left); ex(n.right)
                return
            if isinstance(n, ast.UnaryOp) and isinstance(n.op, (ast.USub, ast.Not)):
                ex(n.operand)
                return
            if isinstance(n, ast.Compare) and all(isinstance(o, (ast.Lt, ast.Gt, ast.LtE, ast.GtE, ast.Eq, ast.NotEq)) for o in n.ops):
                ex(n.left)
                for c in n.comparators:
                    ex(c)
                return
            if isinstance(n, ast.Tuple) and isinstance(n.ctx, ast.Load):
                for x in n.elts:
                    ex(x)
                return
            if isinstance(n, ast.Subscript) and isinstance(n.ctx, ast.Load) and isinstance(n.slice, ast.Constant) and isinstance(n.slice.value, int):
                ex(n.value)
                return
            if isinstance(n, ast.Attribute) and isinstance(n.ctx, ast.Load) and not is_self(n.value):
                ex(n.value)
                return
            if isinstance(n, (ast.ListComp, ast.GeneratorExp)) and len(n.generators) == 1:
                g = n.generators[0]
                if is_lst(g.iter) and isinstance(g.target, ast.Name) and not g.is_async:
                    for c in g.ifs:
                        ex(c)
                    ex(n.elt)
                    return
            if isinstance(n, ast.Call) and not n.keywords and not any(isinstance(a, ast.Starred) for a in n.args):
                fn = n.func
                if isinstance(fn, ast.Name) and fn.id in ("str", "repr") and len(n.args) == 1 and is_self(n.args[0]):
                    callees.append(("__str__" if fn.id == "str" else "__repr__", n))
                    return
                if isinstance(fn, ast.Attribute) and is_self(fn.value) and fn.attr in OBSERVERS and not n.args:
                    callees.append((fn.attr, n))
                    return
                if isinstance(fn, ast.Name) and fn.id == "len" and len(n.args) == 1 and is_lst(n.args[0]):
                    return
                if isinstance(fn, ast.Name) and fn.id in ("str", "repr", "len", "int", "float", "format") and fn.id not in self.mod().bound:
                    for a_ in n.args:
                        ex(a_)
                    return
                if isinstance(fn, ast.Attribute) and fn.attr == "join" and isinstance(fn.value, ast.Constant) and isinstance(fn.value.value, str) \
                        and len(n.args) == 1:
                    ex(n.args[0])
                    return
            self.fail(n, f"EventListHeap.{mname}: `{ast.unparse(n)[:50]}` ({type(n).__name__}) -- not among the constructs of a method that "
                         "only builds a string from the list")

        def st(s):
            if isinstance(s, ast.Pass) or (isinstance(s, ast.Expr) and isinstance(s.value, ast.Constant)):
                return
            if isinstance(s, ast.Assign) and len(s.targets) == 1 and isinstance(s.targets[0], ast.Name) and s.targets[0].id != "self":
                return ex(s.value)
            if isinstance(s, ast.AugAssign) and isinstance(s.target, ast.Name) and s.target.id != "self" and isinstance(s.op, ast.Add):
                return ex(s.value)
            if isinstance(s, ast.For) and isinstance(s.target, ast.Name) and s.target.id != "self" and is_lst(s.iter) and not s.orelse:
                for x in s.body:
                    st(x)
                return
            if isinstance(s, ast.If):
                ex(s.test)
                for x in s.body + s.orelse:
                    st(x)
                return
            if isinstance(s, ast.Return) and s.value is not None:
                return ex(s.value)
            self.fail(s, f"EventListHeap.{mname}: statement {type(s).__name__} `{ast.unparse(s)[:50]}` -- not among the constructs of a "
                         "method that only builds a string from the list")
        for n in ast.walk(f):
            if isinstance(n, (ast.FunctionDef, ast.AsyncFunctionDef, ast.Lambda, ast.ClassDef)) and n is not f:
                self.fail(n, "nested function / class / lambda")
        for s in self.body_of(f):
            st(s)
        text, h = "", "h"
        for i, (callee, node) in enumerate(callees):
            sig = self.method("EventListHeap", callee, node)
            text += f"mbind ({sig['name']} L {h}) (fun h_{i + 1} _ =>\n"
            h = f"h_{i + 1}"
        text += f"MOk {h} PyStr" + ")" * len(callees)
        name = f"gen_EventListHeap_{mname}"
        self.defs.append((self.group, f"{self.header('EventListHeap', mname, f)}\n(* checked observer: only builds a string from the list *)\n"
                                      f"Definition {name} (L : heaplib) (h : list key) : mres pystr :=\n{ind(text)}."))
        self.record("EventListHeap", mname, name, f, note="checked observer: the list unchanged, the text of the string not modelled")
        return {"name": name, "ret": "pystr", "params": [], "mode": "heap"}

    def pure_method(self, f, mname):
        params = self.plain_params(f, "SimEvent")
        ctx = Ctx("SimEvent", mname, f, "pure")
        body = self.body_of(f)

        def run():
            env = Env()
            env.locals["self"] = V("Ev", "p_self")
            for p in params:
                env.locals[p] = V("Ev", "p_" + p)
            return self.block(body, env, lambda e: self.ret(f, V("None"), e))
        text, rk = self.two_pass(ctx, run)
        name = f"gen_SimEvent_{mname}"
        binders = "(p_self : sev)" + "".join(f" (p_{p} : sev)" for p in params)
        self.defs.append((self.group, f"{self.header('SimEvent', mname, f)}\nDefinition {name} {binders} : {GTYPE[rk]} :=\n{ind(text)}."))
        self.record("SimEvent", mname, name, f)
        return {"name": name, "ret": rk, "params": params, "mode": "pure"}

    def counter_method(self, f, mname):
        params = self.plain_params(f, "SimEvent", first="cls")
        if params:
            self.fail(f, f"classmethod SimEvent.{mname} with parameters", "SimEvent")
        ctx = Ctx("SimEvent", mname, f, "counter")
        body = self.body_of(f)

        def run():
            env = Env()
            env.cv = "cv"
            env.locals["cls"] = V("Cls", "p_cls")
            return self.block(body, env, lambda e: self.fail(f, f"classmethod SimEvent.{mname} can end without returning a value"))
        text, rk = self.two_pass(ctx, run)
        if rk != "Z":
            self.fail(f, f"classmethod SimEvent.{mname} returns {rk}, an int is expected")
        name = f"gen_SimEvent_{mname}"
        self.defs.append((self.group, f"{self.header('SimEvent', mname, f)}\nDefinition {name} (cv : cvars) (p_cls : pycls) : Z * cvars :=\n{ind(text)}."))
        self.record("SimEvent", mname, name, f)
        return {"name": name, "ret": "Z", "params": [], "mode": "counter"}

    # ------------------------------------------------------------------ SimEvent.__init__ (checked slice)
    def init_method(self, f):
        a = f.args
        if a.vararg or a.kwonlyargs or a.posonlyargs or not a.args or a.args[0].arg != "self":
            self.fail(f, "SimEvent.__init__: *args / keyword-only / positional-only parameters or no self", "SimEvent")
        params = [p.arg for p in a.args[1:]]
        ctx = Ctx("SimEvent", "__init__", f, "init")
        self.ctx = ctx
        body = self.body_of(f)
        prefix = []
        i = 0
        while i < len(body):
            st = body[i]
            tg = st.targets[0] if isinstance(st, ast.Assign) and len(st.targets) == 1 else \
                (st.target if (isinstance(st, ast.AnnAssign) and st.value is not None) or isinstance(st, ast.AugAssign) else None)
            # a local, or the class counter, assigned among the attribute assignments: translated like any statement
            if isinstance(tg, ast.Name) and tg.id != "self" and not isinstance(st, ast.AugAssign):
                prefix.append(st)
                i += 1
                continue
            if isinstance(tg, ast.Attribute) and self.demangle(tg.attr) == COUNTER and \
                    not (isinstance(tg.value, ast.Name) and tg.value.id == "self"):
                prefix.append(st)
                i += 1
                continue
            if isinstance(st, ast.AugAssign):
                break
            if tg is None or not (isinstance(tg, ast.Attribute) and isinstance(tg.value, ast.Name) and tg.value.id == "self"):
                break
            if self.demangle(tg.attr) == COUNTER:
                self.fail(st, "assignment to self.__event_counter (an instance attribute shadowing the class counter)")
            if tg.attr not in FIELDS and not (isinstance(st.value, ast.Name) and st.value.id in params + ([a.kwarg.arg] if a.kwarg else [])):
                break
            prefix.append(st)
            i += 1
        rest = body[i:]
        for st in rest:
            # `self` may only be used to read / write plain attributes there: a call of a method of self, or self
            # handed to something else, could change the modelled attributes out of sight
            ok_self, called = set(), set()
            for n in ast.walk(st):
                if isinstance(n, ast.Call):
                    called.add(id(n.func))
                if isinstance(n, ast.Attribute) and isinstance(n.value, ast.Name) and n.value.id == "self":
                    ok_self.add(id(n.value))
            for n in ast.walk(st):
                if isinstance(n, ast.Name) and n.id == "self" and id(n) not in ok_self:
                    self.fail(n, "SimEvent.__init__: `self` handed on after the leading block of attribute assignments")
                if isinstance(n, ast.Attribute) and isinstance(n.value, ast.Name) and n.value.id == "self" and id(n) in called:
                    self.fail(n, f"SimEvent.__init__: call of self.{n.attr}() after the leading block of attribute assignments "
                                 "(it could change the modelled attributes out of sight)")
            for n in ast.walk(st):
                bad = None
                if isinstance(n, ast.Attribute) and (n.attr in GUARDED_ATTRS or self.demangle(n.attr) in GUARDED_ATTRS):
                    bad = f"attribute .{n.attr}"
                elif isinstance(n, ast.Name) and (n.id in REFLECTIVE or n.id == "SimEvent"):
                    bad = f"name `{n.id}`"
                elif isinstance(n, ast.Constant) and isinstance(n.value, str) and \
                        any(g in n.value for g in set(FIELDS) | {"event_counter", "__dict__"}):
                    bad = f"string {n.value!r}"
                elif isinstance(n, (ast.Return, ast.Delete)):
                    bad = type(n).__name__
                if bad:
                    self.fail(n, f"SimEvent.__init__: {bad} after the leading block of attribute assignments "
                                 "(only that block is translated; the rest may not touch the modelled attributes or the counter)")
        if rest:
            self.skipped.append({"class": "SimEvent", "method": "__init__", "lines": [rest[0].lineno, rest[-1].end_lineno],
                                 "why": "argument validation after the attribute assignments; checked not to mention the ordering "
                                        "attributes, the counter, SimEvent or a reflective builtin"})
        used = []

        def run():
            env = Env()
            env.cv = "cv"
            env.locals["self"] = V("SelfNew", "self")
            for p in params:
                env.locals[p] = V("Param", "p_" + p)

            def step(k, env):
                if k == len(prefix):
                    missing = [a_ for a_ in FIELDS if a_ not in env.fields]
                    if missing:
                        self.fail(f, f"SimEvent.__init__ does not assign {missing} in its leading block of assignments")
                    return f"(mkSev {env.fields['_absolute_time']} {env.fields['_priority']} {env.fields['_id']}, {env.cv})"
                st = prefix[k]
                tg = st.targets[0] if isinstance(st, ast.Assign) else st.target
                if isinstance(tg, ast.Name) or self.demangle(tg.attr) == COUNTER:
                    return self.stmt(st, env, lambda e2: step(k + 1, e2))
                if tg.attr not in FIELDS:
                    return step(k + 1, env)

                def store(v, e2):
                    if v.kind == "Param":
                        if v.tx not in used:
                            used.append(v.tx)
                        v = V("Z", v.tx)
                    if v.kind != "Z":
                        self.fail(st, f"self.{tg.attr} is assigned a value of kind {v.kind} (the model has ints)")
                    e3 = e2.clone()
                    nm = ctx.fresh("f" + tg.attr)
                    e3.fields[tg.attr] = nm
                    return f"let {nm} := {self.ztext(v)} in\n{step(k + 1, e3)}"
                return self.expr(st.value, env, store)
            return step(0, env)
        text = run()
        ctx.counter = {}
        used.clear()
        text = run()
        order = [p for p in params if "p_" + p in used]
        name = "gen_SimEvent___init__"
        binders = "(cv : cvars) (self_cls : pycls)" + "".join(f" (p_{p} : Z)" for p in order)
        self.defs.append((self.group, f"{self.header('SimEvent', '__init__', f)}\n(* slice: the attribute assignments of lines {prefix[0].lineno if prefix else f.lineno}-"
                                      f"{prefix[-1].end_lineno if prefix else f.lineno}; answers the new event's ordering attributes and the class variables *)\n"
                                      f"Definition {name} {binders} : sev * cvars :=\n{ind(text)}."))
        self.record("SimEvent", "__init__", name, f, note="slice: leading attribute assignments only")
        return {"name": name, "ret": "sev", "params": order, "mode": "init"}

    @staticmethod
    def demangle(attr):
        return attr[len("_SimEvent"):] if attr.startswith("_SimEvent__") else attr

    # ------------------------------------------------------------------ statements
    def block(self, stmts, env, k):
        if not stmts:
            return k(env)
        return self.stmt(stmts[0], env, lambda e2: self.block(stmts[1:], e2, k))

    def stmt(self, s, env, k):
        if isinstance(s, ast.Pass):
            return k(env)
        if isinstance(s, ast.Return):
            fin = (lambda v, e2: e2.retk(v, e2)) if env.retk else (lambda v, e2: self.ret(s, v, e2))
            if s.value is None:
                return fin(V("None"), env)
            return self.expr(s.value, env, fin)
        if isinstance(s, (ast.Assign, ast.AnnAssign)):
            if isinstance(s, ast.Assign) and len(s.targets) != 1:
                self.fail(s, "multiple assignment targets")
            tg = s.targets[0] if isinstance(s, ast.Assign) else s.target
            if s.value is None:
                self.fail(s, "annotation without a value")
            return self.assign(s, tg, s.value, env, k)
        if isinstance(s, ast.AugAssign):
            if not isinstance(s.op, (ast.Add, ast.Sub)):
                self.fail(s, f"augmented assignment with {type(s.op).__name__}")
            load = ast.copy_location(ast.Attribute(value=s.target.value, attr=s.target.attr, ctx=ast.Load()), s.target) \
                if isinstance(s.target, ast.Attribute) else None
            if load is None:
                self.fail(s, f"augmented assignment to {type(s.target).__name__}")
            return self.assign(s, s.target, ast.copy_location(ast.BinOp(left=load, op=s.op, right=s.value), s), env, k)
        if isinstance(s, ast.If):
            return self.cond(s.test, env, lambda e1: self.block(s.body, e1, k), lambda e1: self.block(s.orelse, e1, k))
        if isinstance(s, ast.Expr):
            if isinstance(s.value, ast.Call):
                return self.expr(s.value, env, lambda v, e2: k(e2))
            if isinstance(s.value, ast.Constant):
                return k(env)
            self.fail(s, f"expression statement {type(s.value).__name__}")
        self.fail(s, f"statement {type(s).__name__}")

    def assign(self, node, tg, value, env, k):
        mode = self.ctx.mode
        if isinstance(tg, ast.Attribute):
            if self.is_list(tg, env):
                ok = (isinstance(value, ast.List) and not value.elts) or \
                     (isinstance(value, ast.Call) and isinstance(value.func, ast.Name) and value.func.id == "list" and not value.args and not value.keywords)
                if not ok:
                    self.fail(node, f"self.{LIST_ATTR} is assigned something else than an empty list")
                e2 = env.clone()
                e2.h = "[]"
                return k(e2)
            if mode in ("counter", "init") and self.demangle(tg.attr) == COUNTER:
                c = self.class_expr(tg.value, env, write=True)
                if c is None:
                    self.fail(node, f"assignment to `{ast.unparse(tg)}`: not the counter of a class")

                def store(v, e2):
                    if v.kind != "Z":
                        self.fail(node, f"the counter is assigned a value of kind {v.kind}")
                    e3 = e2.clone()
                    e3.cv = self.ctx.fresh("cv")
                    return f"let {e3.cv} := cv_set {e2.cv} {c} {self.ztext(v)} in\n{k(e3)}"
                return self.expr(value, env, store)
            self.fail(node, f"assignment to `{ast.unparse(tg)}`")
        if isinstance(tg, ast.Name):
            if tg.id in ("self", "cls") or (tg.id in env.locals and env.locals[tg.id].tx == "p_" + tg.id):
                self.fail(node, f"assignment to the parameter `{tg.id}`")

            def bind(v, e2):
                if v.kind not in ("Z", "B", "Nat", "Key", "KEv", "Ev", "Param"):
                    self.fail(node, f"a value of kind {v.kind} assigned to a local")
                e3 = e2.clone()
                if v.const is not None or v.tx.isidentifier():
                    e3.locals[tg.id] = v
                    return k(e3)
                nm = self.ctx.fresh("v_" + tg.id)
                e3.locals[tg.id] = V(v.kind, nm, prov=v.prov)
                return f"let {nm} := {v.tx} in\n{k(e3)}"
            return self.expr(value, env, bind)
        self.fail(node, f"assignment target {type(tg).__name__}")

    def ret(self, node, v, env):
        ctx = self.ctx
        ctx.rets.append(v.kind)
        rk = ctx.retkind
        if rk is None:
            return "?"
        if rk == "unit" and v.kind == "None":
            val = "tt"
        elif rk == "bool" and v.kind == "B":
            val = v.tx
        elif rk == "nat" and v.kind == "Nat":
            val = self.ntext(v)
        elif rk == "Z" and v.kind == "Z":
            val = self.ztext(v)
        elif rk == "optkey" and v.kind in ("None", "KEv", "Ev"):
            val = "None" if v.kind == "None" else (f"(Some {v.tx})" if v.kind == "KEv" else f"(Some (sev_key {v.tx}))")
        else:
            self.fail(node, f"return of a value of kind {v.kind} in a method answering {rk}")
        if ctx.mode == "pure":
            return val
        if ctx.mode == "counter":
            return f"({val}, {env.cv})"
        if env.h is None:
            self.fail(node, f"return before self.{LIST_ATTR} is assigned")
        return f"MOk {env.h} {val}"

    def raise_(self, exn, env):
        if self.ctx.mode != "heap":
            self.fail(self.ctx.node, f"an operation that can raise {exn} outside EventListHeap")
        return f"MRaise {exn} {env.h}"

    def effect(self, node):
        if self.ctx.nobind:
            raise NeedsBind(self.mod().path, node, "an operand of and / or / a chained comparison / an entry tuple that needs a bind "
                                                  "(call, indexing) where the order of evaluation cannot be kept")

    # ------------------------------------------------------------------ texts
    def ztext(self, v):
        return zlit(v.const) if v.const is not None else v.tx

    def ntext(self, v):
        return str(v.const) if v.const is not None else v.tx

    def truth(self, node, v):
        if v.kind == "B":
            return v.tx
        if v.kind == "Nat":
            return f"(negb (Nat.eqb {self.ntext(v)} 0))"
        if v.kind == "Z":
            return f"(negb ({self.ztext(v)} =? 0)%Z)"
        if v.kind == "List":
            return f"(match {v.tx} with [] => false | _ :: _ => true end)"
        self.fail(node, f"truth value of a value of kind {v.kind}")

    # ------------------------------------------------------------------ expressions (CPS: k(value, env))
    def is_list(self, e, env):
        return self.ctx.mode == "heap" and env.has_self and isinstance(e, ast.Attribute) and isinstance(e.value, ast.Name) \
            and e.value.id == "self" and "self" not in env.locals and e.attr == LIST_ATTR

    def need_list(self, node, env):
        if env.h is None:
            self.fail(node, f"self.{LIST_ATTR} used before it is assigned")
        return env.h

    def class_expr(self, e, env, write=False):
        """Gallina text of the class an expression denotes, or None"""
        if isinstance(e, ast.Name):
            if e.id == "SimEvent" and "SimEvent" not in env.locals:
                return "ClsSimEvent"
            v = env.locals.get(e.id)
            if v is not None and v.kind == "Cls":
                return v.tx
            if v is not None and v.kind == "SelfNew" and not write:
                return "self_cls"            # attribute lookup on an instance goes to its class
            return None
        if isinstance(e, ast.Call) and isinstance(e.func, ast.Name) and e.func.id == "type" and len(e.args) == 1 and not e.keywords:
            v = env.locals.get(e.args[0].id) if isinstance(e.args[0], ast.Name) else None
            return "self_cls" if v is not None and v.kind == "SelfNew" else None
        if isinstance(e, ast.Attribute) and e.attr == "__class__" and isinstance(e.value, ast.Name):
            v = env.locals.get(e.value.id)
            return "self_cls" if v is not None and v.kind == "SelfNew" else None
        return None

    def pure_sub(self, e, env):
        """translate an operand that may not need a bind"""
        box = []
        self.ctx.nobind += 1
        try:
            self.expr(e, env, lambda v, e2: (box.append(v), "")[1])
        finally:
            self.ctx.nobind -= 1
        if len(box) != 1:
            raise NeedsBind(self.mod().path, e, "operand whose value is decided by control flow (a helper with several returns, a "
                                                "conditional expression with effects) where a plain value is needed")
        return box[0]

    def expr(self, e, env, k):
        mode = self.ctx.mode
        if isinstance(e, ast.Constant):
            c = e.value
            if c is None:
                return k(V("None"), env)
            if isinstance(c, bool):
                return k(V("B", "true" if c else "false"), env)
            if isinstance(c, int):
                return k(V("Z", const=c), env)
            self.fail(e, f"literal {c!r}")
        if isinstance(e, ast.Name):
            if e.id in env.locals:
                return k(env.locals[e.id], env)
            self.fail(e, f"name `{e.id}` (not a parameter or a local assigned before on every path)")
        if isinstance(e, ast.Attribute):
            if self.is_list(e, env):
                return k(V("List", self.need_list(e, env)), env)
            if mode in ("counter", "init") and self.demangle(e.attr) == COUNTER:
                c = self.class_expr(e.value, env)
                if c is None:
                    self.fail(e, f"`{ast.unparse(e)}`: not the counter of a class")
                return k(V("Z", f"(cv_get {env.cv} {c})"), env)

            def attr(v, e2):
                if v.kind == "KEv":
                    v = V("Ev", f"(key_sev {v.tx})")
                if v.kind != "Ev":
                    self.fail(e, f"attribute .{e.attr} of a value of kind {v.kind}")
                if e.attr in FIELDS:
                    return k(V("Z", f"({FIELDS[e.attr]} {v.tx})", prov=(v.tx, FIELDS[e.attr], 1)), e2)
                if e.attr in self.props:
                    return k(V("Z", f"({self.props[e.attr]} {v.tx})", prov=(v.tx, self.propfield[e.attr], 1)), e2)
                self.fail(e, f"attribute .{e.attr} of an event (not an ordering attribute or a translated property)")
            return self.expr(e.value, env, attr)
        if isinstance(e, ast.UnaryOp):
            if isinstance(e.op, ast.Not):
                return self.expr(e.operand, env, lambda v, e2: k(V("B", f"(negb {self.truth(e, v)})"), e2))
            if isinstance(e.op, (ast.USub, ast.UAdd)):
                neg = isinstance(e.op, ast.USub)

                def un(v, e2):
                    if v.kind != "Z":
                        self.fail(e, f"unary {'-' if neg else '+'} on a value of kind {v.kind}")
                    if not neg:
                        return k(v, e2)
                    return k(V("Z", const=-v.const) if v.const is not None else
                             V("Z", f"(- {v.tx})%Z", prov=(v.prov[0], v.prov[1], -v.prov[2]) if v.prov else None), e2)
                return self.expr(e.operand, env, un)
            self.fail(e, f"unary operator {type(e.op).__name__}")
        if isinstance(e, ast.BinOp):
            op = {ast.Add: "+", ast.Sub: "-", ast.Mult: "*"}.get(type(e.op))
            if op is None:
                self.fail(e, f"binary operator {type(e.op).__name__}")

            def bin_(a, e2):
                def bin2(b, e3):
                    if a.kind != "Z" or b.kind != "Z":
                        self.fail(e, f"`{op}` on values of kinds {a.kind}, {b.kind}")
                    if a.const is not None and b.const is not None:
                        return k(V("Z", const={"+": a.const + b.const, "-": a.const - b.const, "*": a.const * b.const}[op]), e3)
                    return k(V("Z", f"({self.ztext(a)} {op} {self.ztext(b)})%Z"), e3)
                return self.expr(e.right, e2, bin2)
            return self.expr(e.left, env, bin_)
        if isinstance(e, ast.BoolOp):
            is_and = isinstance(e.op, ast.And)
            try:
                vs = [self.pure_sub(x, env) for x in e.values]
            except NeedsBind:
                vs = None
            if vs is not None:
                if any(v.kind != "B" for v in vs):
                    self.fail(e, "and / or of values that are not bools")
                tx = vs[0].tx
                for v in vs[1:]:
                    tx = f"({tx} {'&&' if is_and else '||'} {v.tx})"
                return k(V("B", tx), env)
            # short circuit, left to right: `a and b` is `b if a else False`, `a or b` is `True if a else b` (bools only)
            self.effect(e)

            def chain(i, env1):
                def got(v, e2):
                    if v.kind != "B":
                        self.fail(e, "and / or of values that are not bools")
                    if i == len(e.values) - 1:
                        return k(v, e2)
                    rest, short = chain(i + 1, e2), k(V("B", "false" if is_and else "true"), e2)
                    yes, no = (rest, short) if is_and else (short, rest)
                    return f"if {v.tx} then\n{ind(blk(yes))}\nelse\n{ind(blk(no))}"
                return self.expr(e.values[i], env1, got)
            return chain(0, env)
        if isinstance(e, ast.IfExp):
            try:
                c, a, b = self.pure_sub(e.test, env), self.pure_sub(e.body, env), self.pure_sub(e.orelse, env)
                plain = a.kind == b.kind and a.kind in ("Z", "B", "Nat")
            except NeedsBind:
                plain = False
            if plain:
                tx = {"Z": self.ztext, "Nat": self.ntext, "B": lambda v: v.tx}[a.kind]
                return k(V(a.kind, f"(if {self.truth(e, c)} then {tx(a)} else {tx(b)})"), env)
            # `a if c else b` is `if c: <rest with a> else: <rest with b>`: the test first, then only the chosen operand
            self.effect(e)
            return self.cond(e.test, env, lambda e1: self.expr(e.body, e1, k), lambda e1: self.expr(e.orelse, e1, k))
        if isinstance(e, ast.Compare):
            if len(e.ops) == 1:
                return self.expr(e.left, env, lambda a, e2: self.expr(e.comparators[0], e2,
                                                                         lambda b, e3: k(self.compare(e, e.ops[0], a, b, e3), e3)))
            vs = [self.pure_sub(x, env) for x in [e.left] + list(e.comparators)]
            parts = [self.compare(e, o, vs[i], vs[i + 1], env).tx for i, o in enumerate(e.ops)]
            tx = parts[0]
            for q in parts[1:]:
                tx = f"({tx} && {q})"
            return k(V("B", tx), env)
        if isinstance(e, ast.Tuple):
            return k(self.entry_tuple(e, env), env)
        if isinstance(e, ast.Subscript):
            return self.subscript(e, env, k)
        if isinstance(e, ast.Call):
            return self.call(e, env, k)
        self.fail(e, f"expression {type(e).__name__}")

    def compare(self, node, o, a, b, env):
        op = {ast.Lt: "<", ast.Gt: ">", ast.LtE: "<=", ast.GtE: ">=", ast.Eq: "==", ast.NotEq: "!="}.get(type(o))
        if isinstance(o, (ast.In, ast.NotIn)):
            if a.kind != "Key" or b.kind != "List":
                self.fail(node, f"`in` between kinds {a.kind} and {b.kind} (only `entry in self.{LIST_ATTR}`)")
            t = f"(memk {a.tx} {b.tx})"
            return V("B", t if isinstance(o, ast.In) else f"(negb {t})")
        if op is None:
            self.fail(node, f"comparison operator {type(o).__name__}")
        if a.kind == "Nat" and b.kind == "Z" and b.const is not None and b.const >= 0:
            b = V("Nat", const=b.const)
        if b.kind == "Nat" and a.kind == "Z" and a.const is not None and a.const >= 0:
            a = V("Nat", const=a.const)
        if a.kind == "Z" and b.kind == "Z":
            x, y = self.ztext(a), self.ztext(b)
            return V("B", {"<": f"({x} <? {y})%Z", ">": f"({y} <? {x})%Z", "<=": f"({x} <=? {y})%Z", ">=": f"({y} <=? {x})%Z",
                           "==": f"({x} =? {y})%Z", "!=": f"(negb ({x} =? {y})%Z)"}[op])
        if a.kind == "Nat" and b.kind == "Nat":
            x, y = self.ntext(a), self.ntext(b)
            return V("B", {"<": f"(Nat.ltb {x} {y})", ">": f"(Nat.ltb {y} {x})", "<=": f"(Nat.leb {x} {y})", ">=": f"(Nat.leb {y} {x})",
                           "==": f"(Nat.eqb {x} {y})", "!=": f"(negb (Nat.eqb {x} {y}))"}[op])
        if a.kind == "B" and b.kind == "B" and op in ("==", "!="):
            t = f"(Bool.eqb {a.tx} {b.tx})"
            return V("B", t if op == "==" else f"(negb {t})")
        self.fail(node, f"comparison `{op}` between values of kinds {a.kind} and {b.kind}")

    def entry_tuple(self, e, env):
        if self.ctx.mode != "heap" or len(e.elts) != 4:
            self.fail(e, "tuple that is not an entry (x, y, z, event)")
        vs = [self.pure_sub(x, env) for x in e.elts]
        ev = vs[3]
        if ev.kind != "Ev":
            self.fail(e, f"the fourth component of the entry tuple is a value of kind {ev.kind}, not an event")
        seen = set()
        for x, v in zip(e.elts[:3], vs[:3]):
            if v.kind != "Z" or v.prov is None or v.prov[0] != ev.tx:
                self.fail(x, "entry tuple component that is not (minus) an ordering attribute of the event stored in the entry")
            seen.add(v.prov[1])
        if len(seen) != 3:
            self.fail(e, "the first three components of the entry tuple are not three different ordering attributes of the event")
        return V("Key", f"(mkKey {self.ztext(vs[0])} {self.ztext(vs[1])} {self.ztext(vs[2])})")

    def subscript(self, e, env, k):
        idx = e.slice
        if isinstance(idx, ast.UnaryOp) and isinstance(idx.op, ast.USub) and isinstance(idx.operand, ast.Constant):
            self.fail(e, "negative index")
        if not (isinstance(idx, ast.Constant) and isinstance(idx.value, int) and not isinstance(idx.value, bool)):
            self.fail(e, "subscript that is not a constant index")
        i = idx.value
        if self.is_list(e.value, env):
            if i != 0:
                self.fail(e, f"self.{LIST_ATTR}[{i}] (only the root, index 0, is modelled)")
            self.effect(e)
            h = self.need_list(e, env)
            x = self.ctx.fresh("x")
            return f"match {h} with\n| {x} :: _ =>\n{ind(k(V('Key', x), env))}\n| [] => {self.raise_('IndexError', env)}\nend"

        def sub(v, e2):
            if v.kind != "Key":
                self.fail(e, f"subscript of a value of kind {v.kind}")
            if i == 3:
                return k(V("KEv", v.tx), e2)
            if i in (0, 1, 2):
                return k(V("Z", f"({['k_time', 'k_nprio', 'k_id'][i]} {v.tx})"), e2)
            self.fail(e, f"entry[{i}]")
        return self.expr(e.value, env, sub)

    def cond(self, test, env, kt, kf):
        def branch(v, e2):
            return f"if {self.truth(test, v)} then\n{ind(blk(kt(e2)))}\nelse\n{ind(blk(kf(e2)))}"
        return self.expr(test, env, branch)

    # ------------------------------------------------------------------ calls
    def call(self, e, env, k):
        mode = self.ctx.mode
        f = e.func
        if e.keywords or any(isinstance(a, ast.Starred) for a in e.args):
            self.fail(e, "keyword / starred arguments")
        m = self.mod()
        # builtins
        if isinstance(f, ast.Name) and f.id not in env.locals:
            if f.id == "len" and len(e.args) == 1:
                def ln(v, e2):
                    if v.kind != "List":
                        self.fail(e, f"len() of a value of kind {v.kind}")
                    return k(V("Nat", f"(length {v.tx})"), e2)
                return self.expr(e.args[0], env, ln)
            if f.id == "bool" and len(e.args) == 1:
                return self.expr(e.args[0], env, lambda v, e2: k(V("B", self.truth(e, v)), e2))
            if f.id in m.funcs:
                if m.nbound.get(f.id, 0) != 1:
                    self.fail(e, f"the module-level name `{f.id}` is bound more than once")
                return self.inline(e, m.funcs[f.id], None, e.args, env, k)
            self.fail(e, f"call of `{f.id}`")
        if not isinstance(f, ast.Attribute):
            self.fail(e, f"call `{ast.unparse(e)[:60]}`")
        # heapq.*
        if mode == "heap" and isinstance(f.value, ast.Name) and f.value.id == m.heapq_name and m.heapq_name not in env.locals:
            if not e.args or not self.is_list(e.args[0], env):
                self.fail(e, f"{m.heapq_name}.{f.attr} on something else than self.{LIST_ATTR}")
            h = self.need_list(e, env)
            if f.attr == "heappush" and len(e.args) == 2:
                def push(v, e2):
                    if v.kind != "Key":
                        self.fail(e, f"heappush of a value of kind {v.kind} (entries are (x, y, z, event) tuples)")
                    self.effect(e)
                    e3 = e2.clone()
                    e3.h = self.ctx.fresh("h")
                    return f"let {e3.h} := hpush L {e2.h} {v.tx} in\n{k(V('None'), e3)}"
                return self.expr(e.args[1], env, push)
            if f.attr == "heappop" and len(e.args) == 1:
                self.effect(e)
                x, e3 = self.ctx.fresh("x"), env.clone()
                e3.h = self.ctx.fresh("h")
                return f"match hpop L {h} with\n| Some ({x}, {e3.h}) =>\n{ind(k(V('Key', x), e3))}\n| None => {self.raise_('IndexError', env)}\nend"
            if f.attr == "heapify" and len(e.args) == 1:
                self.effect(e)
                e3 = env.clone()
                e3.h = self.ctx.fresh("h")
                return f"let {e3.h} := hheapify L {h} in\n{k(V('None'), e3)}"
            self.fail(e, f"{m.heapq_name}.{f.attr} with {len(e.args)} arguments")
        # methods of the list
        if self.is_list(f.value, env):
            h = self.need_list(e, env)
            if f.attr == "count" and len(e.args) == 1:
                def cnt(v, e2):
                    if v.kind != "Key":
                        self.fail(e, f"count of a value of kind {v.kind}")
                    return k(V("Nat", f"(countk {v.tx} {e2.h})"), e2)
                return self.expr(e.args[0], env, cnt)
            if f.attr == "remove" and len(e.args) == 1:
                def rem(v, e2):
                    if v.kind != "Key":
                        self.fail(e, f"remove of a value of kind {v.kind}")
                    self.effect(e)
                    e3 = e2.clone()
                    e3.h = self.ctx.fresh("h")
                    return (f"if memk {v.tx} {e2.h} then\n" + ind(blk(f"let {e3.h} := remove1 {v.tx} {e2.h} in\n{k(V('None'), e3)}"))
                            + f"\nelse {self.raise_('ValueError', e2)}")
                return self.expr(e.args[0], env, rem)
            if f.attr == "clear" and not e.args:
                self.effect(e)
                e3 = env.clone()
                e3.h = "[]"
                return k(V("None"), e3)
            self.fail(e, f"list method .{f.attr}() with {len(e.args)} arguments")
        # classmethod of SimEvent through a class expression
        if mode in ("counter", "init"):
            c = self.class_expr(f.value, env)
            if c is not None:
                mname = self.demangle(f.attr)
                fdef = self.find_method("SimEvent", mname, e)
                if fdef is not None and [ast.unparse(d) for d in fdef.decorator_list] != ["classmethod"]:
                    recv = env.locals.get(f.value.id) if isinstance(f.value, ast.Name) else None
                    if recv is None or recv.kind != "SelfNew":
                        self.fail(e, f"call of the instance method SimEvent.{mname} through a class")
                    return self.inline(e, fdef, "SimEvent", e.args, env, k, self_v=recv, is_method=True)
                sig = self.method("SimEvent", mname, e)
                if sig["mode"] != "counter" or e.args:
                    self.fail(e, f"call of SimEvent.{mname} through a class")
                self.effect(e)
                r, e3 = self.ctx.fresh("r"), env.clone()
                e3.cv = self.ctx.fresh("cv")
                return f"let '({r}, {e3.cv}) := {sig['name']} {env.cv} {c} in\n{k(V('Z', r), e3)}"
            self.fail(e, f"call `{ast.unparse(e)[:60]}`")
        # self.m(..) in EventListHeap
        if mode == "heap" and isinstance(f.value, ast.Name) and f.value.id == "self" and env.has_self and "self" not in env.locals:
            if f.attr not in EL_METHODS:
                fdef = self.find_method("EventListHeap", f.attr, e)
                if fdef is None:
                    self.fail(e, f"method EventListHeap.{f.attr} not found (inherited methods are not resolved)")
                return self.inline(e, fdef, "EventListHeap", e.args, env, k, is_method=True)
            sig = self.method("EventListHeap", f.attr, e)
            if len(e.args) != len(sig["params"]):
                self.fail(e, f"{f.attr}() called with {len(e.args)} arguments, it has {len(sig['params'])} parameters")
            if f.attr == "__init__":
                self.fail(e, "call of __init__")

            def with_args(args, e2):
                for a in args:
                    if a.kind != "Ev":
                        self.fail(e, f"argument of kind {a.kind} passed for an event parameter")
                self.effect(e)
                e3 = e2.clone()
                e3.h = self.ctx.fresh("h")
                kind = {"unit": "None", "bool": "B", "nat": "Nat", "Z": "Z"}.get(sig["ret"])
                if kind is None:
                    self.fail(e, f"value of {f.attr}() (an event or None) used inside another method")
                x = "_" if kind == "None" else self.ctx.fresh("r")
                callt = f"{sig['name']} L {self.need_list(e, e2)}" + "".join(" " + a.tx for a in args)
                return f"mbind ({callt}) (fun {e3.h} {x} =>\n{ind(k(V(kind, None if kind == 'None' else x), e3))})"
            return self.exprs(e.args, env, with_args)
        # ev.m(..) in SimEvent
        if mode == "pure":
            def recv(v, e2):
                if v.kind != "Ev":
                    self.fail(e, f"method call on a value of kind {v.kind}")
                mname = self.demangle(f.attr)
                if mname not in CMP_METHODS + ["__cmp__"]:
                    fdef = self.find_method("SimEvent", mname, e)
                    if fdef is None:
                        self.fail(e, f"method SimEvent.{mname} not found (inherited methods are not resolved)")
                    return self.inline(e, fdef, "SimEvent", e.args, e2, k, self_v=v, is_method=True)
                sig = self.method("SimEvent", mname, e)
                if sig["mode"] != "pure" or len(e.args) != len(sig["params"]):
                    self.fail(e, f"call of SimEvent.{f.attr} with {len(e.args)} arguments")

                def with_args(args, e3):
                    for a in args:
                        if a.kind != "Ev":
                            self.fail(e, f"argument of kind {a.kind} passed for an event parameter")
                    return k(V({"bool": "B", "Z": "Z"}[sig["ret"]], f"({sig['name']} {v.tx}" + "".join(" " + a.tx for a in args) + ")"), e3)
                return self.exprs(e.args, e2, with_args)
            return self.expr(f.value, env, recv)
        self.fail(e, f"call `{ast.unparse(e)[:60]}`")

    # ------------------------------------------------------------------ private helpers: translated at the call site
    INLINE_KINDS = ("Z", "B", "Nat", "Key", "KEv", "Ev")

    def inline(self, node, fdef, owner, arg_nodes, env, k, self_v=None, is_method=False):
        """the call `helper(args)` as the body of the helper with its parameters bound to the argument values
        (evaluated first, left to right); `return v` inside continues the caller with v, falling off the end with None.
        `owner`: class name or None for a module-level function.  Refused: recursion, decorators other than
        @staticmethod, *args / **kwargs / defaults / keyword-only parameters, nested functions, loops, try, with."""
        what = f"{owner + '.' if owner else ''}{fdef.name}"
        key = (owner, fdef.name)
        if key in self.inl_stack or (owner, fdef.name) in self.stack:
            self.fail(node, f"recursive call of the helper {what}")
        if isinstance(fdef, ast.AsyncFunctionDef):
            self.fail(fdef, f"async helper {what}")
        decos = [ast.unparse(d) for d in fdef.decorator_list]
        static = decos == ["staticmethod"] and is_method
        if decos and not static:
            self.fail(fdef, f"helper {what} decorated {decos}")
        a = fdef.args
        if a.vararg or a.kwarg or a.kwonlyargs or a.posonlyargs or a.defaults:
            self.fail(fdef, f"helper {what}: *args / **kwargs / default values / keyword-only / positional-only parameters")
        params = [x.arg for x in a.args]
        if is_method and not static:
            if not params or params[0] != "self":
                self.fail(fdef, f"helper {what}: first parameter is not `self`")
            params = params[1:]
        if len(params) != len(arg_nodes):
            self.fail(node, f"{what}() called with {len(arg_nodes)} arguments, it has {len(params)} parameters")
        self.forbid_nested(fdef, owner or self.ctx.cls)
        body = self.body_of(fdef)

        def with_args(args, e2):
            for v in args:
                if v.kind not in self.INLINE_KINDS:
                    self.fail(node, f"argument of kind {v.kind} passed to the helper {what} (the list itself may not be aliased)")
            inner = Env()
            inner.h, inner.cv, inner.fields = e2.h, e2.cv, dict(e2.fields)
            inner.has_self = bool(is_method and not static and e2.has_self)
            if is_method and not static and self_v is not None:
                inner.locals["self"] = self_v
            for pn, v in zip(params, args):
                inner.locals[pn] = v

            def back(v, e3):
                # the helper returned: the caller goes on with its own locals and the state the helper left
                out = e2.clone()
                out.h, out.cv, out.fields = e3.h, e3.cv, dict(e3.fields)
                self.inl_stack.remove(key)
                try:
                    return k(v, out)
                finally:
                    self.inl_stack.append(key)
            inner.retk = back
            self.inl_stack.append(key)
            try:
                return self.block(body, inner, lambda e3: back(V("None"), e3))
            finally:
                self.inl_stack.remove(key)
        self.inlined.add(f"{what} ({self.mod().path.name}:{fdef.lineno})")
        return self.exprs(arg_nodes, env, with_args)

    def exprs(self, es, env, k, acc=()):
        if not es:
            return k(list(acc), env)
        return self.expr(es[0], env, lambda v, e2: self.exprs(es[1:], e2, k, acc + (v,)))


GROUPS = ["SimEvent.fields", "SimEvent.order", "SimEvent.create", "EventListHeap"]


def translate(keep_going=False):
    se, el = Module(SE_SRC), Module(EL_SRC)
    tr = Translator(se, el)
    failures, failed = [], set()

    def group(name, fn, needs=()):
        snap = (len(tr.defs), dict(tr.sigs), len(tr.translated), len(tr.skipped))
        tr.group, tr.ctx, tr.stack = name, None, []
        try:
            for n in needs:
                if n in failed:
                    raise Unsupported(se.path, se.tree, f"{name} is built on {n}, which could not be translated")
            fn()
        except Unsupported as exc:
            if not keep_going:
                raise
            del tr.defs[snap[0]:]
            tr.sigs = snap[1]
            del tr.translated[snap[2]:]
            del tr.skipped[snap[3]:]
            failed.add(name)
            failures.append({"group": name, "file": exc.src, "line": exc.lineno, "construct": exc.what, "error": str(exc)})

    def order():
        for m in CMP_METHODS:
            tr.method("SimEvent", m)

    def create():
        tr.method("SimEvent", "__init__")

    def heap():
        if el.heapq_name is None:
            raise Unsupported(el.path, el.tree, "`import heapq` not found")
        tr.klass("EventListHeap", ["EventListInterface"])
        for m in EL_METHODS:
            tr.method("EventListHeap", m)
    group("SimEvent.fields", tr.properties)
    group("SimEvent.order", order, ["SimEvent.fields"])
    group("SimEvent.create", create, ["SimEvent.fields"])
    group("EventListHeap", heap, ["SimEvent.fields"])
    return tr, failures


def render(tr):
    out = ["(* GENERATED by translator/py2gallina_eventlist.py from src/pydsol/core/simevent.py and eventlist.py -- do not edit.",
           f"   sha1 of the source files (line ends normalised): simevent.py {tr.se.sha1}",
           f"                                                    eventlist.py {tr.el.sha1}",
           "   Shallow embedding of the method bodies over the types of EventList/Key.v and EventList/Model.v; see the",
           "   translator for the subset and its meaning.  EventList/GenAgree.v proves every definition equal to the",
           "   hand-written model. *)",
           "From Coq Require Import ZArith List Bool.",
           "From PV Require Import EventList.Key EventList.Model.",
           "Import ListNotations.",
           PRELUDE]
    for g in GROUPS:
        ds = [d for gg, d in tr.defs if gg == g]
        if ds:
            out.append(f"(* ==== {g} ==== *)")
            for d in ds:
                out.append(d)
                out.append("")
    return "\n".join(out) + "\n"


def main(argv):
    out_dir, keep_going, i = None, False, 0
    while i < len(argv):
        if argv[i] == "--out" and i + 1 < len(argv):
            out_dir = Path(argv[i + 1])
            i += 2
        elif argv[i] == "--keep-going":
            keep_going = True
            i += 1
        else:
            print(f"usage: {sys.argv[0]} [--out DIR [--keep-going]]", file=sys.stderr)
            return 64
    keep_going = keep_going and out_dir is not None
    base = {"repo": str(REPO), "sources": [str(SE_SRC), str(EL_SRC)]}

    def report(info):
        if out_dir is not None:
            out_dir.mkdir(parents=True, exist_ok=True)
            (out_dir / "Gen_EventList.json").write_text(json.dumps(info, indent=1) + "\n")

    try:
        tr, failures = translate(keep_going)
    except Unsupported as exc:
        print(f"py2gallina_eventlist: TRANSLATION FAILED\n{exc}", file=sys.stderr)
        report({**base, "ok": False, "methods": [], "failures": [{"group": None, "file": exc.src, "line": exc.lineno,
                                                                   "construct": exc.what, "error": str(exc)}]})
        return 2
    except (OSError, SyntaxError) as exc:
        where = f"{getattr(exc, 'filename', None) or CORE}:{getattr(exc, 'lineno', 0) or 0}"
        msg = f"{where}: unsupported construct: {type(exc).__name__}: {exc}"
        print(f"py2gallina_eventlist: TRANSLATION FAILED\n{msg}", file=sys.stderr)
        report({**base, "ok": False, "methods": [], "failures": [{"group": None, "file": where, "line": getattr(exc, "lineno", 0) or 0,
                                                                   "construct": type(exc).__name__, "error": msg}]})
        return 2
    gen = render(tr)
    target = (out_dir or (VERIF / "coq" / "EventList")) / "Gen_EventList.v"
    target.parent.mkdir(parents=True, exist_ok=True)
    if not target.exists() or target.read_text() != gen:
        target.write_text(gen)
    h = hashlib.sha1()
    for r in sorted(tr.translated, key=lambda r: (r["file"], r["lines"][0], r["definition"])):
        h.update((r["definition"] + ":" + r["sha1"] + "\n").encode())
    info = {**base, "ok": not failures, "source_sha1": {"simevent.py": tr.se.sha1, "eventlist.py": tr.el.sha1},
            "translated_text_sha1": h.hexdigest(), "generated_sha1": hashlib.sha1(gen.encode()).hexdigest(),
            "methods": tr.translated, "skipped": tr.skipped, "inlined_helpers": sorted(tr.inlined), "failures": failures}
    report(info)
    for f in failures:
        print(f"py2gallina_eventlist: TRANSLATION FAILED (group {f['group']} left out)\n{f['error']}", file=sys.stderr)
    print(f"py2gallina_eventlist: {len(tr.translated)} definitions from {CORE} -> {target} "
          f"(translated text sha1 {info['translated_text_sha1'][:12]})")
    return 2 if failures else 0


if __name__ == "__main__":
    sys.exit(main(sys.argv[1:]))
