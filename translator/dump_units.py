#!/usr/bin/env python3
"""Reflective translator for C16 / C17.

Imports pydsol.core.units from $VERIF_REPO/src (default /repo/src) -- run it in a
fresh interpreter -- walks the Quantity subclasses and writes

  coq/Units/Gen_Tables.v     the effective tables (after the module's own
                             post-processing loops), __all__ and dir(module)
  coq/Units/Gen_Compound.v   candidate readings of compound unit names
                             (hints; every claim in them is re-checked in Coq)
  .scratch/units/dump.json   the same information for the harness

With `--out DIR` the three files are written to DIR instead (Gen_Tables.v,
Gen_Compound.v, dump.json): every check run keeps the tables of the tree it runs
against in a directory of its own (keyed by the content of units.py), so runs
against different trees never share a generated file.

Fail-closed: a value that does not have the expected Python type is written as
an explicit Bad_* constructor (which makes the well-formedness theorems false),
never dropped.  Files are rewritten only when their content changed.
"""
from __future__ import annotations

import importlib
import itertools
import json
import math
import os
import re
import sys
from fractions import Fraction
from pathlib import Path

VERIF = Path(__file__).resolve().parent.parent
REPO = Path(os.environ.get("VERIF_REPO", "/repo"))
OUT_TABLES = VERIF / "coq" / "Units" / "Gen_Tables.v"
OUT_COMPOUND = VERIF / "coq" / "Units" / "Gen_Compound.v"
OUT_JSON = VERIF / ".scratch" / "units" / "dump.json"

# methods / properties the hand-written model (Units/Dispatch.v) transcribes from
# Quantity; a subclass that redefines one of them is outside the model
MODELLED = ["__new__", "__init__", "__mul__", "__rmul__", "__truediv__", "__rtruediv__", "__add__", "__radd__",
            "__sub__", "__rsub__", "__eq__", "__ne__", "__lt__", "__le__", "__gt__", "__ge__", "__neg__",
            "__abs__", "__pos__", "__str__", "__repr__", "__float__", "as_unit", "_val", "asSI", "sisig", "siunit",
            "displayvalue", "si", "unit", "__floor__", "__ceil__", "__trunc__", "__round__"]


# ------------------------------------------------------------------ Coq literals
def cstr(s: str) -> str:
    return '"' + s.replace('"', '""') + '"'


def crepr(x) -> str:
    return cstr(ascii(x)[:120])


def gstr(x) -> str:
    if type(x) is str:
        try:
            x.encode("utf-8")
        except UnicodeEncodeError:
            return f"Bad_str {crepr(x)}"
        return f"GStr {cstr(x)}"
    return f"Bad_str {crepr(x)}"


def cfloat(x: float) -> str:
    h = x.hex()
    return f"({h})%float" if x < 0 else f"{h}%float"


def factor_value(x):
    """float (or an int that is exactly a float), finite -> float; else None"""
    if type(x) is float and math.isfinite(x):
        return x
    if type(x) is int and abs(x) < 2 ** 53:
        return float(x)
    return None


def gfactor(x) -> str:
    v = factor_value(x)
    if v is None:
        return f"Bad_factor {crepr(x)}"
    n, d = v.as_integer_ratio()
    nz = f"({n})%Z" if n < 0 else f"{n}%Z"
    return f"GFac {cfloat(v)} {nz} {d}%positive"


def gint(x) -> str:
    if type(x) is int:
        return f"GInt ({x})%Z"
    return f"Bad_int {crepr(x)}"


def clist(items, indent="  ") -> str:
    items = list(items)
    if not items:
        return "[]"
    return "[\n" + indent + (";\n" + indent).join(items) + "]"


def dict_items(d):
    """items of a dict attribute; anything else becomes one unrepresentable entry"""
    if isinstance(d, dict):
        return list(d.items()), True
    return [(d, d)], False


# ------------------------------------------------------------------ walk
def all_subclasses(root):
    out = []
    for c in root.__subclasses__():
        if c not in out:
            out.append(c)
        for s in all_subclasses(c):
            if s not in out:
                out.append(s)
    return out


def load_module():
    src = str(REPO / "src")
    sys.path.insert(0, src)
    sys.dont_write_bytecode = True
    mod = importlib.import_module("pydsol.core.units")
    assert Path(mod.__file__).resolve().is_relative_to(Path(src).resolve()), mod.__file__
    return mod


def dump(mod):
    Quantity = mod.Quantity
    classes = all_subclasses(Quantity)
    index = {c: i for i, c in enumerate(classes)}

    def gcls(x) -> str:
        if isinstance(x, type) and x in index:
            return f"GCls {index[x]}"
        return f"Bad_cls {crepr(x)}"

    def jcls(x):
        return classes[index[x]].__name__ if (isinstance(x, type) and x in index) else {"bad": ascii(x)}

    coq = []
    js = {"repo": str(REPO), "classes": []}
    names = []
    for i, c in enumerate(classes):
        direct = c.__bases__ == (Quantity,)
        over = [m for m in MODELLED if m in c.__dict__]
        units, _ = dict_items(getattr(c, "_units", None))
        disp, _ = dict_items(getattr(c, "_displayunits", None))
        descr, _ = dict_items(getattr(c, "_descriptions", None))
        sidict, _ = dict_items(getattr(c, "_sidict", None))
        mul, _ = dict_items(getattr(c, "_mul", None))
        div, _ = dict_items(getattr(c, "_div", None))
        base = getattr(c, "_baseunit", None)
        try:
            sisig = list(c.sisig())
        except Exception as exc:  # noqa
            sisig = [f"sisig() raised {type(exc).__name__}"]
        nm = f"c{i}"
        names.append(nm)
        coq.append(f"(* {i}: {c.__name__} *)")
        coq.append(f"Definition k{i} : nat := {i}.")
        # named constants for the unit strings: the correspondence shards refer to them
        # (elaborating a string literal is the most expensive part of a case)
        unit_const = {}
        for j, (k, _) in enumerate(units):
            if type(k) is str and gstr(k).startswith("GStr"):
                coq.append(f"Definition {nm}_u{j} : string := {cstr(k)}.")
                unit_const[j] = f"{nm}_u{j}"
        coq.append(f"Definition {nm}_units : list (gstr * gfactor) := "
                   + clist(f"({('GStr ' + unit_const[j]) if j in unit_const else gstr(k)}, {gfactor(v)})"
                           for j, (k, v) in enumerate(units)) + ".")
        coq.append(f"Definition {nm}_display : list (gstr * gstr) := "
                   + clist(f"({gstr(k)}, {gstr(v)})" for k, v in disp) + ".")
        coq.append(f"Definition {nm}_descr : list (gstr * gstr) := "
                   + clist(f"({gstr(k)}, {gstr(v)})" for k, v in descr) + ".")
        coq.append(f"Definition {nm} : qclass := mkQClass {cstr(c.__name__)} {'true' if direct else 'false'} "
                   + clist((cstr(m) for m in over), "    ") + f"\n  ({gstr(base)}) {nm}_units {nm}_display {nm}_descr\n  "
                   + clist((f"({gstr(k)}, {gint(v)})" for k, v in sidict), "    ") + "\n  "
                   + "[" + "; ".join(gint(v) for v in sisig) + "]\n  "
                   + clist((f"({gcls(k)}, {gcls(v)})" for k, v in mul), "    ") + "\n  "
                   + clist((f"({gcls(k)}, {gcls(v)})" for k, v in div), "    ") + ".")
        js["classes"].append({
            "name": c.__name__, "direct": direct, "overrides": over,
            "base": base if type(base) is str else {"bad": ascii(base)},
            "units": [[k if type(k) is str else {"bad": ascii(k)},
                       factor_value(v).hex() if factor_value(v) is not None else {"bad": ascii(v)}] for k, v in units],
            "display": [[k if type(k) is str else {"bad": ascii(k)}, v if type(v) is str else {"bad": ascii(v)}]
                        for k, v in disp],
            "descr": [[k if type(k) is str else {"bad": ascii(k)}, v if type(v) is str else {"bad": ascii(v)}]
                      for k, v in descr],
            "sidict": [[k if type(k) is str else {"bad": ascii(k)}, v if type(v) is int else {"bad": ascii(v)}]
                       for k, v in sidict],
            "sisig": sisig,
            "mul": [[jcls(k), jcls(v)] for k, v in mul],
            "div": [[jcls(k), jcls(v)] for k, v in div],
        })
    siunits = getattr(getattr(mod, "SI", None), "SIUNITS", None)
    siunits = list(siunits) if isinstance(siunits, (tuple, list)) else [siunits]
    dim = getattr(mod, "Dimensionless", None)
    dim_ix = index.get(dim) if isinstance(dim, type) else None
    all_names = getattr(mod, "__all__", None)
    all_names = list(all_names) if isinstance(all_names, (list, tuple)) else [all_names]
    dir_names = [n for n in dir(mod) if type(n) is str]
    coq.append("Definition gen_classes : list qclass := [" + "; ".join(names) + "].")
    coq.append("Definition gen_module : qmodule := mkQModule gen_classes\n  "
               + "[" + "; ".join(gstr(u) for u in siunits) + "]\n  "
               + ("None" if dim_ix is None else f"(Some {dim_ix})") + "\n  "
               + clist((gstr(n) for n in all_names), "    ") + "\n  "
               + clist((cstr(n) for n in dir_names), "    ") + ".")
    js.update({"siunits": [u if type(u) is str else {"bad": ascii(u)} for u in siunits],
               "dimensionless": dim_ix,
               "all": [n if type(n) is str else {"bad": ascii(n)} for n in all_names],
               "dir": dir_names})
    header = ["(* GENERATED by translator/dump_units.py from pydsol/core/units.py -- do not edit. *)",
              "From Coq Require Import ZArith List String PrimFloat.",
              "From PV Require Import Units.Tables.",
              "Import ListNotations.",
              "Local Open Scope string_scope.", ""]
    return "\n".join(header + coq) + "\n", js, classes


# ------------------------------------------------------------------ compound unit names
def decompose(classes):
    """Candidate readings of unit names built from other declared units with
    '/', '.', '^k' or a trailing digit.  A reading is kept when its SI signature
    equals the signature of the declaring class (this separates e.g. 'A' the
    ampere from 'A' the angstrom).  Returns [(class index, unit, [reading])]
    with reading = [(sep, atom class index, atom unit, exp style, k)]."""
    atoms: dict[str, list[int]] = {}
    for ci, c in enumerate(classes):
        us = getattr(c, "_units", None)
        if not isinstance(us, dict):
            continue
        for u, f in us.items():
            if type(u) is str and factor_value(f) not in (None, 0.0):
                atoms.setdefault(u, []).append(ci)

    def sig(c):
        try:
            s = list(c.sisig())
            return s if len(s) == 9 and all(type(x) is int for x in s) else None
        except Exception:  # noqa
            return None
    sigs = [sig(c) for c in classes]

    out = []
    for ci, c in enumerate(classes):
        us = getattr(c, "_units", None)
        if not isinstance(us, dict) or sigs[ci] is None:
            continue
        for u, f in us.items():
            if type(u) is not str or factor_value(f) in (None, 0.0) or not u:
                continue
            toks = re.split(r"([/.])", u)
            if toks[0] == "" and len(toks) >= 3 and toks[1] == "/":
                seq = [("/", toks[2])]
                rest = toks[3:]
            else:
                seq = [("", toks[0])]
                rest = toks[1:]
            for j in range(0, len(rest), 2):
                seq.append((rest[j], rest[j + 1]))
            if any(a == "" for _, a in seq):
                continue
            per_tok = []
            for sep, a in seq:
                cands = [(a, "none", 1)]
                m = re.fullmatch(r"(.+?)\^([0-9])", a, re.S)
                if m:
                    cands.append((m.group(1), "hat", int(m.group(2))))
                m = re.fullmatch(r"(.+?)([0-9])", a, re.S)
                if m and not m.group(1).endswith("^"):
                    cands.append((m.group(1), "digit", int(m.group(2))))
                opts = [[(sep, nm, st, k)] for nm, st, k in cands if nm in atoms]
                # juxtaposition without a separator: 'kWh' = kW h, 'kgm' = kg m (two declared units)
                for nm, st, k in cands:
                    for cut in range(1, len(nm)):
                        p, q = nm[:cut], nm[cut:]
                        if p in atoms and q in atoms:
                            opts.append([(sep, p, "none", 1), ("", q, st, k)])
                per_tok.append(opts)
            readings = []
            for choice_groups in itertools.product(*per_tok):
                choice = tuple(a for grp in choice_groups for a in grp)
                if len(choice) == 1 and choice[0][0] == "" and choice[0][2] == "none":
                    continue            # the unit itself, not a compound
                for combo in itertools.product(*[atoms[nm] for _, nm, _, _ in choice]):
                    s = [0] * 9
                    den = False
                    ok = True
                    for (sep, nm, st, k), ai in zip(choice, combo):
                        if sigs[ai] is None:
                            ok = False
                            break
                        den = den or sep == "/"
                        e = -k if den else k
                        s = [x + e * y for x, y in zip(s, sigs[ai])]
                    if ok and s == sigs[ci]:
                        readings.append([(sep, ai, nm, st, k) for (sep, nm, st, k), ai in zip(choice, combo)])
            if readings:
                out.append((ci, u, readings))
    return out


def compound_file(comp):
    sepc = {"": "SepNone", ".": "SepDot", "/": "SepSlash"}

    def atom(a):
        sep, ai, nm, st, k = a
        e = {"none": "ExpNone", "hat": f"(ExpHat {k})", "digit": f"(ExpDigit {k})"}[st]
        return f"mkAtom {sepc[sep]} {ai} {cstr(nm)} {e}"
    items = []
    for ci, u, readings in comp:
        rs = "[" + "; ".join("[" + "; ".join(atom(a) for a in r) + "]" for r in readings) + "]"
        items.append(f"mkCompound {ci} {cstr(u)} {rs}")
    return "\n".join([
        "(* GENERATED by translator/dump_units.py -- do not edit.  Hints only: Tables.reading_ok re-checks",
        "   the spelling, the dimension and the factor of every reading listed here. *)",
        "From Coq Require Import ZArith List String.",
        "From PV Require Import Units.Tables.",
        "Import ListNotations.",
        "Local Open Scope string_scope.",
        "Definition gen_compounds : list compound := " + clist(items) + ".", ""])


def write_if_changed(path: Path, text: str) -> bool:
    path.parent.mkdir(parents=True, exist_ok=True)
    data = text.encode("utf-8")
    if path.exists() and path.read_bytes() == data:
        return False
    tmp = path.with_suffix(path.suffix + ".tmp")
    tmp.write_bytes(data)
    os.replace(tmp, path)
    return True


def main() -> int:
    global OUT_TABLES, OUT_COMPOUND, OUT_JSON
    if len(sys.argv) >= 3 and sys.argv[1] == "--out":
        out = Path(sys.argv[2])
        OUT_TABLES, OUT_COMPOUND, OUT_JSON = out / "Gen_Tables.v", out / "Gen_Compound.v", out / "dump.json"
    mod = load_module()
    tables, js, classes = dump(mod)
    comp = decompose(classes)
    js["compounds"] = [{"cls": ci, "unit": u,
                        "readings": [[{"sep": a[0], "cls": a[1], "unit": a[2], "style": a[3], "k": a[4]} for a in r]
                                     for r in rs]} for ci, u, rs in comp]
    ch1 = write_if_changed(OUT_TABLES, tables)
    ch2 = write_if_changed(OUT_COMPOUND, compound_file(comp))
    write_if_changed(OUT_JSON, json.dumps(js, ensure_ascii=True, indent=0) + "\n")
    n_units = sum(len(c["units"]) for c in js["classes"])
    print(f"dump_units: {len(classes)} classes, {n_units} units, {len(comp)} compound names from {REPO} "
          f"(Gen_Tables.v {'rewritten' if ch1 else 'unchanged'}, Gen_Compound.v {'rewritten' if ch2 else 'unchanged'})")
    return 0


if __name__ == "__main__":
    sys.exit(main())
